"""Contract of EndpointCollection.from_data (C07 accounting, C16 generate_all_tags, C08 containment): Engine B with the
three Endpoint steps replaced by capturing summaries.  One path item with two operations (symbolic tags, symbolic outcome
of every step); the loop over paths/methods is uniform, so a generic operation next to a second one is the inductive
case (append-only frame: nothing is ever removed from endpoints / parse_errors)."""
from __future__ import annotations

import z3

from pyvc.absdata import LazyMap
from pyvc.engine_b import Case, Clause, FnContract
from pyvc.symexec import SBool, SDict, SFunc, SList, SObj, SOpaque, SStr, STuple

Q = "openapi_python_client.parser.openapi:EndpointCollection.from_data"


def from_data_contract():
    def make(I):
        from openapi_python_client.parser import openapi as M
        from openapi_python_client.parser.errors import ParseError
        log = []

        def mk_error():
            return SObj(ParseError, {"detail": None, "level": None, "header": "h", "data": None})

        def ep_from_data(I2, a, k):
            if I2.branch_free():
                ep = SOpaque(f"endpoint[{k['method']}]", cls=object, attrs={"errors": SList([mk_error()] if I2.branch_free() else []),
                                                                             "method": k["method"], "path": k["path"], "tags": k["tags"],
                                                                             "name": SStr(z3.Const(f"operation_name[{k['method']}]", z3.StringSort()))})
                log.append(("built", k["method"], ep))
                return STuple([ep, k["schemas"], k["parameters"]])
            err = mk_error()
            log.append(("failed", k["method"], err))
            return STuple([err, k["schemas"], k["parameters"]])

        def step(name):
            def f(I2, a, k):
                ep = k["endpoint"]
                if isinstance(ep, SObj) and ep.cls is ParseError:
                    # precondition of the step, checked at the call site: the real function reads Endpoint attributes
                    I2.raise_(AttributeError, f"Endpoint.{name} called with a ParseError")
                if I2.branch_free():
                    return STuple([ep, k.get("schemas"), k.get("parameters")]) if name == "add_parameters" else ep
                err = mk_error()
                log.append(("failed", getattr(ep, "attrs", {}).get("method"), err))
                return STuple([err, k.get("schemas"), k.get("parameters")]) if name == "add_parameters" else err
            return f
        I.contracts["openapi_python_client.parser.openapi:Endpoint.from_data"] = ep_from_data
        I.contracts["openapi_python_client.parser.openapi:Endpoint.add_parameters"] = step("add_parameters")
        I.contracts["openapi_python_client.parser.openapi:Endpoint.sort_parameters"] = step("sort_parameters")

        def op(i):
            ntags = (0 if I.branch_free() else 2) if i == 0 else 1
            tags = SList([SStr(z3.Const(f"tag_{i}_{j}", z3.StringSort())) for j in range(ntags)]) if ntags else None
            return SOpaque(f"operation{i}", attrs={"tags": tags})
        ops = {"get": op(0), "post": op(1)}
        attrs = {m: ops.get(m) for m in ["get", "put", "post", "delete", "options", "head", "patch", "trace"]}
        item = SOpaque("path_item", attrs=attrs)
        data = SDict({"/p": item})
        all_tags = SBool(z3.Const("generate_all_tags", z3.BoolSort()))
        config = SOpaque("config", attrs={"generate_all_tags": all_tags, "field_prefix": "field_"})
        # endpoints_by_tag is a dict keyed by symbolic identifiers
        I.empty_dict_hook = lambda: LazyMap("endpoints_by_tag", None, [], complete=True)
        kw = dict(data=data, schemas=SOpaque("schemas"), parameters=SOpaque("parameters"), request_bodies=SOpaque("rb"),
                  responses=SOpaque("resp"), config=config)
        return SFunc("pyfunc", M.EndpointCollection.from_data), [], kw, {"log": log, "ops": ops, "all_tags": all_tags}

    def accounting(ctx):
        """every operation: exactly one of {endpoint in every selected collection, error in every selected collection}"""
        I = ctx.I
        by_tag = ctx.value.items[0]
        colls = [v for _, v in by_tag.entries]
        log = ctx.inputs["log"]
        for method in ("get", "post"):
            built = [x for x in log if x[0] == "built" and x[1] == method]
            failed = [x for x in log if x[0] == "failed" and x[1] == method]
            ep = built[0][2] if built else None
            inlist = [c for c in colls if ep is not None and any(e is ep for e in c.fields["endpoints"].items)]
            errs = [f[2] for f in failed]
            errlist = [c for c in colls if any(any(e is x for e in c.fields["parse_errors"].items) for x in errs)]
            if not failed and ep is not None and not inlist:
                # the operation was built but the function itself turned it down (its module name is taken): then a
                # diagnostic made by the function, naming the operation, must be in every selected collection
                known = [x[2] for x in log if x[0] == "failed"] + [w for x in log if x[0] == "built" for w in x[2].attrs["errors"].items]
                def names_it(h):
                    if isinstance(h, str):
                        return f"{method.upper()} /p" in h and "will not be generated" in h
                    if isinstance(h, SStr):
                        return I.must(z3.And(z3.Contains(h.t, z3.StringVal(f"{method.upper()} /p")),
                                             z3.Contains(h.t, z3.StringVal("will not be generated"))))
                    return False
                own = [e for c in colls for e in c.fields["parse_errors"].items
                       if not any(e is k for k in known) and names_it(e.fields.get("header"))]
                if not own:
                    return False
                continue
            if failed:
                if inlist or not errlist:
                    return False
                # the diagnostic identifies the operation
                for x in errs:
                    h = x.fields.get("header")
                    if isinstance(h, str) and not (method.upper() in h and "/p" in h):
                        return False
            else:
                if not inlist:
                    return False
                # warnings of a generated endpoint are kept as well
                for w in ep.attrs["errors"].items:
                    if not any(any(e is w for e in c.fields["parse_errors"].items) for c in colls):
                        return False
        return True

    def tags_effect(ctx):
        """generate_all_tags off: each operation lands in exactly one collection (its first tag or 'default'); on: in one
        collection per tag, as the same Endpoint object"""
        by_tag = ctx.value.items[0]
        colls = [v for _, v in by_tag.entries]
        flag = ctx.inputs["all_tags"].t
        conds = []
        for x in ctx.inputs["log"]:
            if x[0] != "built":
                continue
            ep = x[2]
            n = sum(1 for c in colls if any(e is ep for e in c.fields["endpoints"].items))
            if n == 0:
                continue
            ntags = len(ep.attrs["tags"].items)
            declared = ctx.inputs["ops"][x[1]].attrs["tags"]
            want_all = len(declared.items) if declared is not None else 1
            # (two declared tags may sanitise to the same identifier: then one collection holds the endpoint twice)
            conds.append(z3.If(flag, z3.BoolVal(ntags == want_all and 1 <= n <= ntags), z3.BoolVal(ntags == 1 and n == 1)))
        return z3.And(*conds) if conds else True

    def one_module(ctx):
        """no collection holds two different endpoints whose PythonIdentifier(name) coincide"""
        from openapi_python_client import utils
        I = ctx.I
        by_tag = ctx.value.items[0]
        conds = []
        for _, c in by_tag.entries:
            eps = []
            for e in c.fields["endpoints"].items:
                if not any(e is x for x in eps):
                    eps.append(e)
            for i in range(len(eps)):
                for j in range(i + 1, len(eps)):
                    a = I.to_str_term(I.lib[utils.PythonIdentifier](I, [eps[i].attrs["name"], "field_"], {}))
                    b = I.to_str_term(I.lib[utils.PythonIdentifier](I, [eps[j].attrs["name"], "field_"], {}))
                    conds.append(a != b)
        return z3.And(*conds) if conds else True

    clauses = [
        Clause("one-endpoint-per-module", one_module,
               statement="two different operations filed under one tag never have the same module name PythonIdentifier(name): the "
                         "later one is reported instead of overwriting api/<tag>/<module>.py", props=["C09", "C01"]),
        Clause("per-operation-accounting", accounting,
               statement="each operation ends as an endpoint in every selected collection or as a ParseError (header naming "
                         "METHOD and path) in every selected collection -- exactly one of the two; warnings of a generated "
                         "endpoint are kept", props=["C07", "C08"]),
        Clause("generate-all-tags-effect", tags_effect,
               statement="generate_all_tags off: exactly the first tag (or default); on: the same Endpoint in one collection per tag",
               props=["C16", "C07"]),
    ]
    return FnContract(Q, [Case("two-operations", make, clauses, raises=(), props=["C07", "C08", "C16"])])
