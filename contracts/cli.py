"""Sidecar contract for cli.handle_errors (C06-O5: the exit status is derived from the highest diagnostic level)."""
import z3

from pyvc.engine_b import Case, Clause, FnContract
from pyvc.symexec import LoopSpec, SBool, SFunc, SObj, SOpaque, SSeq, SStr, SV

Q = "openapi_python_client.cli:handle_errors"


def handle_errors_contract():
    def make(I):
        import openapi_python_client.cli as cli
        from openapi_python_client.parser.errors import ErrorLevel, GeneratorError
        Z = I.Z
        base = z3.Const("error_levels", z3.SeqSort(Z.JV))      # one integer per diagnostic: 1 = ERROR, 0 = WARNING
        ERR = Z.con["int"](z3.IntVal(1))

        def to_error(e):
            lvl = ErrorLevel.ERROR if I.branch(e.t == ERR) else ErrorLevel.WARNING
            return SObj(GeneratorError, {"level": lvl, "header": SStr(I.fresh("header", z3.StringSort())),
                                         "detail": None})
        errors = SSeq(base, dom=lambda x: Z.rec["int"](x), maps=[to_error])
        fail = SBool(z3.Const("fail_on_warning", z3.BoolSort()))

        def inv0(I2, loc, seen):
            # error_level is ERROR exactly if an ERROR diagnostic has been seen (holds with or without the early break)
            return z3.Contains(seen, z3.Unit(ERR)) == z3.BoolVal(loc["error_level"] is ErrorLevel.ERROR)
        opaque = lambda name: (lambda I2: SOpaque(name))
        I.loop_specs[(Q, 0)] = LoopSpec(inv0, {"error_level": lambda I2: ErrorLevel.WARNING if I2.branch_free() else ErrorLevel.ERROR,
                                              "message": opaque("message"), "color": opaque("color"),
                                              "header_color": opaque("header_color")})
        I.loop_specs[(Q, 1)] = LoopSpec(lambda I2, loc, seen: True, {})
        return SFunc("pyfunc", cli.handle_errors), [errors], {"fail_on_warning": fail}, {"base": base, "fail": fail, "ERR": ERR}

    def exit_iff(ctx):
        i = ctx.inputs
        any_error = z3.Contains(i["base"], z3.Unit(i["ERR"]))
        nonempty = z3.Length(i["base"]) > 0
        should_exit = z3.Or(any_error, z3.And(i["fail"].t, nonempty))
        if ctx.kind == "raise":
            ok = ctx.value.cls.__name__ == "Exit" and ctx.value.fields.get("kw_code") == 1
            return z3.And(should_exit, z3.BoolVal(ok))
        return z3.Not(should_exit)

    cl = Clause("exit-status", exit_iff, any_outcome=True,
                statement="raises typer.Exit(code=1) iff some diagnostic has level ERROR, or fail_on_warning and there is at "
                          "least one diagnostic; returns normally otherwise (for every number of diagnostics)", props=["C06"])
    cl.native = "result is not None"
    import itertools
    pool = lambda: [{"levels": list(l), "fail_on_warning": f} for n in range(0, 4) for l in itertools.product([0, 1], repeat=n)
                    for f in (False, True)]
    return FnContract(Q, [Case("any-diagnostics", make, [cl], raises=(Exception,), props=["C06"], pool=pool,
                               native_target="pyvc.boundedchecks:handle_errors_violation")])
