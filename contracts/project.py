"""Effect contract of Project.build (C19-O2, C06-O6): the file-system effects of the real build methods are recorded as a
trace by symbolic Path objects; the contract speaks about that trace.

  mkdir(project_dir) raises FileExistsError and not overwrite  =>  result is one error, trace == [mkdir(project_dir) X]
  otherwise: every write goes to  project_dir/<const> | package_dir/<const> | package_dir/models/<module>.py |
             package_dir/api/__init__.py | package_dir/api/<tag>/__init__.py | package_dir/api/<tag>/<PythonIdentifier(name)>.py ;
             rmtree(package_dir/models) precedes mkdir(models) and every write under models; the same for api;
             nothing but package_dir/models and package_dir/api is ever removed.
"""
from __future__ import annotations

import ast

import z3

from pyvc.engine_b import Case, Clause, FnContract
from pyvc.symexec import SBool, SDict, SFunc, SList, SObj, SOpaque, SStr, STuple, Unsupported

Q = "openapi_python_client:Project"


class SPath(SOpaque):
    def __init__(self, parts, trace, world):
        super().__init__("Path(" + "/".join(map(str, parts)) + ")")
        self.parts = tuple(parts)
        self.trace = trace
        self.world = world

    def __opaque_div__(self, I, other):
        return SPath(self.parts + (other,), self.trace, self.world)

    def opaque_eq(self, I, other):
        return isinstance(other, SPath) and self.parts == other.parts

    def getattr(self, I, name):
        if name == "mkdir":
            def mkdir(I2, a, k):
                exist_ok = k.get("exist_ok", False)
                if self.parts == ("project_dir",) and not exist_ok:
                    if I2.branch(self.world["project_dir_exists"]):
                        self.trace.append(("mkdir-failed", self.parts))
                        I2.raise_(FileExistsError, "exists")
                self.trace.append(("mkdir", self.parts))
            return SFunc("model", mkdir)
        if name == "write_text":
            def write(I2, a, k):
                self.trace.append(("write", self.parts, a[0] if a else k.get("data")))
                return 0
            return SFunc("model", write)
        if name == "read_text":
            # text-mode read: universal newlines and the codec stand between the bytes on disk and the value returned, so the
            # value says nothing about byte equality with what would be written (an unknown string)
            def read_text(I2, a, k):
                self.trace.append(("read", self.parts))
                return SStr(I2.fresh("text_read_from_" + "_".join(map(str, self.parts[-1:])), z3.StringSort()))
            return SFunc("model", read_text)
        # read-only queries of the file system: whatever the code asks, the answer is unconstrained (an existing project
        # directory may be empty, hold dot files, user files ...), except that it is consistent with `project_dir_exists`
        if name in ("exists", "is_dir", "is_file"):
            def q(I2, a, k):
                b = z3.Bool(f"{name}[{'/'.join(map(str, self.parts))}]")
                if self.parts == ("project_dir",):
                    I2.fact(z3.Implies(b, self.world["project_dir_exists"]))
                return SBool(b)
            return SFunc("model", q)
        if name == "iterdir":
            def it(I2, a, k):
                n = I2.choose(3)
                return SList([SPath(self.parts + (SStr(z3.Const(f"entry{j}_name", z3.StringSort())),), self.trace, self.world)
                              for j in range(n)])
            return SFunc("model", it)
        if name == "parent":
            # the parent of a path below the root of the model; the parent of the root itself is a directory outside
            return SPath(self.parts[:-1], self.trace, self.world) if len(self.parts) > 1 else \
                SPath(("outside:parent-of-" + str(self.parts[0]),), self.trace, self.world)
        if name == "name":
            last = self.parts[-1]
            return last if isinstance(last, (str, SStr)) else SStr(z3.Const("path_name", z3.StringSort()))
        raise Unsupported(f"Path.{name}")


def build_contract(meta_name):
    def make(I):
        import shutil
        import openapi_python_client as opc
        from openapi_python_client.config import MetaType
        trace = []
        world = {"project_dir_exists": z3.Bool("project_dir_exists")}
        project_dir = SPath(("project_dir",), trace, world)
        meta = MetaType[meta_name]
        package_dir = project_dir if meta is MetaType.NONE else SPath(("project_dir", "package"), trace, world)
        overwrite = SBool(z3.Const("overwrite", z3.BoolSort()))
        rendered = []              # (text value, template name, render kwargs)

        def get_template(I2, a, k):
            tname = a[0] if a else k.get("name")

            def render(I3, a3, k3):
                text = SStr(I3.fresh("rendered", z3.StringSort()))
                rendered.append((text, tname, dict(k3)))
                return text
            return SOpaque(f"template {tname}", attrs={"render": SFunc("model", render)})
        env = SOpaque("env", attrs={"get_template": SFunc("model", get_template)})

        def mk_model(i):
            return SOpaque(f"model{i}", attrs={"class_info": SOpaque(f"ci{i}", attrs={
                "module_name": SStr(z3.Const(f"module_name_{i}", z3.StringSort())), "name": SStr(z3.Const(f"class_name_{i}", z3.StringSort()))})})

        def mk_enum(i):
            e = mk_model(10 + i)
            e.cls = object
            e.attrs["value_type"] = str if I.branch_free() else int
            return e
        nm = 0 if I.branch_free() else 2
        models = SList([mk_model(i) for i in range(nm)])
        enums = SList([mk_enum(0)] if I.branch_free() else [])
        # two tags; the second holds an operation of its own (its name may or may not coincide with a name of the first tag: module
        # names are unique within a tag only) and possibly one operation of the first tag again (generate_all_tags)
        mk_ep = lambda j: SOpaque(f"endpoint{j}", attrs={"name": SStr(z3.Const(f"endpoint_name_{j}", z3.StringSort()))})  # noqa: E731
        A, C, B = mk_ep(0), mk_ep(1), mk_ep(2)
        tag, tag2, tag3 = (SStr(z3.Const(n, z3.StringSort())) for n in ("tag", "tag2", "tag3"))
        I.assume(z3.Distinct(tag.t, tag2.t, tag3.t))
        a_twice = bool(I.branch_free())          # A under tag and tag2 (generate_all_tags)
        b_twice = bool(I.branch_free())          # B under tag2 and tag3
        A.attrs["tags"] = SList([tag, tag2] if a_twice else [tag])
        C.attrs["tags"] = SList([tag])
        B.attrs["tags"] = SList([tag2, tag3] if b_twice else [tag2])
        coll = SOpaque("collection", attrs={"endpoints": SList([A, C]), "parse_errors": SList()})
        coll2 = SOpaque("collection2", attrs={"endpoints": SList([B] + ([A] if a_twice else [])), "parse_errors": SList()})
        coll3 = SOpaque("collection3", attrs={"endpoints": SList([B]), "parse_errors": SList()})
        pairs = [(tag, coll), (tag2, coll2)] + ([(tag3, coll3)] if b_twice else [])
        from pyvc.absdata import LazyMap
        by_tag = LazyMap("endpoint_collections_by_tag", None, list(pairs), complete=True)
        # a dict the function makes for itself may be keyed by symbolic strings
        I.empty_dict_hook = lambda: LazyMap("a dict made by the function", None, [], complete=True)
        openapi = SOpaque("openapi", attrs={"models": models, "enums": enums, "endpoint_collections_by_tag": by_tag, "errors": SList()})
        config = SOpaque("config", attrs={"overwrite": overwrite, "meta_type": meta, "post_hooks": SList(), "file_encoding": "utf-8",
                                          "field_prefix": SStr(z3.Const("field_prefix", z3.StringSort()))})
        proj = SObj(opc.Project, {"project_dir": project_dir, "package_dir": package_dir, "config": config, "env": env,
                                  "openapi": openapi, "errors": SList(), "project_name": "p", "package_name": "package"})

        def rmtree(I2, a, k):
            trace.append(("rmtree", a[0].parts if isinstance(a[0], SPath) else ("?",)))
        I.lib = dict(I.lib)
        I.lib[shutil.rmtree] = rmtree
        import builtins
        I.lib[builtins.print] = lambda I2, a, k: None
        I.contracts["openapi_python_client:import_string_from_class"] = lambda I2, a, k: SStr(I2.fresh("import", z3.StringSort()))
        return SFunc("pyfunc", opc.Project.build), [proj], {}, {"trace": trace, "world": world, "overwrite": overwrite,
                                                                "package": package_dir.parts, "meta": meta, "rendered": rendered,
                                                                "colls": pairs, "models": models, "enums": enums,
                                                                "config": config}

    def refuse(ctx):
        i = ctx.inputs
        tr = i["trace"]
        failed = any(t[0] == "mkdir-failed" for t in tr)
        if failed:
            others = [t for t in tr if t[0] != "mkdir-failed"]
            # FileExistsError: either refused (no effect at all, one error) or overwrite is set
            if not others:
                r = ctx.value
                ok = isinstance(r, SList) and len(r.items) == 1
                return z3.And(z3.Not(i["overwrite"].t), z3.BoolVal(ok))
            return i["overwrite"].t
        return True

    def shape(ctx):
        i = ctx.inputs
        pkg = i["package"]
        tr = i["trace"]
        if any(t[0] == "mkdir-failed" for t in tr) and len(tr) == 1:
            return True
        seen_rm = set()
        for kind, parts, *_ in tr:
            if kind == "rmtree":
                if parts not in (pkg + ("models",), pkg + ("api",)):
                    return False
                seen_rm.add(parts[-1])
            elif kind in ("write", "mkdir"):
                under = parts[:len(pkg)] == pkg and len(parts) > len(pkg) and parts[len(pkg)] in ("models", "api") \
                    and isinstance(parts[len(pkg)], str)
                if under and parts[len(pkg)] not in seen_rm:
                    return False         # written / created before the directory was cleared: stale modules may survive
                if kind == "write" and not _allowed(parts, pkg, ctx.I):
                    return False
        return True

    def _allowed(parts, pkg, I):
        consts_project = {"pyproject.toml", "setup.py", "README.md", ".gitignore"}
        consts_pkg = {"__init__.py", "py.typed", "types.py", "client.py", "errors.py"}
        if parts[:1] != ("project_dir",):
            return False
        rest = parts[len(pkg):] if parts[:len(pkg)] == pkg else None
        if len(parts) == 2 and parts[1] in consts_project:
            return True
        if rest is None:
            return False
        if len(rest) == 1 and rest[0] in consts_pkg:
            return True
        if rest[0] == "models" and len(rest) == 2:
            return rest[1] == "__init__.py" or isinstance(rest[1], SStr)       # <module_name>.py (languages: C09/C19 triples)
        if rest[0] == "api":
            if len(rest) == 2:
                return rest[1] == "__init__.py"
            if len(rest) == 3:
                return isinstance(rest[1], SStr) and (rest[2] == "__init__.py" or isinstance(rest[2], SStr))
        return False

    def own_rendering(ctx):
        """every module file holds the rendering of ITS OWN record: api/<tag>/<module>.py the endpoint of that tag with that module
        name, models/<module>.py the model / enum with that module name"""
        from openapi_python_client import utils
        I, i = ctx.I, ctx.inputs
        pkg = i["package"]
        tr = [t for t in i["trace"] if t[0] == "write"]
        if any(t[0] == "mkdir-failed" for t in i["trace"]) and len(i["trace"]) == 1:
            return True
        by_text = {id(text): (tname, kw) for text, tname, kw in i["rendered"]}
        prefix = i["config"].attrs["field_prefix"]

        def same(a, b):
            e = I.py_eq(a, b)
            return e is True or (e is not False and I.must(e))
        expected_api = []
        for tag, coll in i["colls"]:
            for e in coll.attrs["endpoints"].items:
                mod = I.lib[utils.PythonIdentifier](I, [e.attrs["name"], prefix], {})
                expected_api.append((tag, SStr(z3.Concat(I.to_str_term(mod), z3.StringVal(".py"))), e))
        seen_api = []
        for _, parts, content in tr:
            rest = parts[len(pkg):] if parts[:len(pkg)] == pkg else ()
            if len(rest) == 3 and rest[0] == "api" and rest[2] != "__init__.py":
                info = by_text.get(id(content))
                if info is None:
                    return False               # the text written is not a rendering made in this run
                tname, kw = info
                if tname != "endpoint_module.py.jinja" or "endpoint" not in kw:
                    return False
                hits = [x for x in expected_api if same(x[0], rest[1]) and same(x[1], rest[2]) and x[2] is kw["endpoint"]]
                if not hits:
                    return False
                seen_api.append(hits[0])
            if len(rest) == 2 and rest[0] == "models" and rest[1] != "__init__.py":
                info = by_text.get(id(content))
                if info is None:
                    return False
                tname, kw = info
                rec = kw.get("model", kw.get("enum"))
                if rec is None or not any(rec is m for m in list(i["models"].items) + list(i["enums"].items)):
                    return False
                want = SStr(z3.Concat(I.to_str_term(rec.attrs["class_info"].attrs["module_name"]), z3.StringVal(".py")))
                if not same(want, rest[1]):
                    return False
        # and every operation of every tag got its file
        return all(any(x is y for y in seen_api) for x in expected_api)

    def all_written(ctx):
        """every file a fresh generation creates is (re)written by every build that is not refused: regenerating converges to the
        fresh tree byte for byte (a text-mode comparison with the old file cannot establish byte equality)"""
        from openapi_python_client.config import MetaType
        i = ctx.inputs
        pkg = i["package"]
        tr = i["trace"]
        if any(t[0] == "mkdir-failed" for t in tr) and len([t for t in tr if t[0] != "read"]) == 1:
            return True
        written = {t[1] for t in tr if t[0] == "write"}
        want = [pkg + (f,) for f in ("__init__.py", "types.py", "client.py", "errors.py")]
        want += [pkg + ("models", "__init__.py"), pkg + ("api", "__init__.py")]
        meta = i["meta"]
        if meta is not MetaType.NONE:
            want += [pkg + ("py.typed",), ("project_dir", "README.md"), ("project_dir", ".gitignore")]
            want.append(("project_dir", "setup.py") if meta is MetaType.SETUP else ("project_dir", "pyproject.toml"))
        return all(w in written for w in want)

    clauses = [
        Clause("every-generated-file-is-rewritten", all_written,
               statement="a build that is not refused writes every file a fresh generation would create (package __init__ / types / "
                         "client / errors, models/__init__, api/__init__, and for a project: py.typed, README.md, .gitignore, "
                         "pyproject.toml or setup.py): an overwrite converges to the fresh tree", props=["C19"]),
        Clause("every-module-is-the-rendering-of-its-own-record", own_rendering,
               statement="api/<tag>/<module>.py is written for every operation of every tag and holds the rendering of "
                         "endpoint_module.py.jinja for exactly that operation (module names are unique within a tag only: two tags "
                         "may hold operations with one module name); models/<module>.py holds the rendering for the model / enum "
                         "with that module name", props=["C03", "C07", "C16", "C19", "C01"]),
        Clause("existing-directory-refused-without-effects", refuse,
               statement="project_dir exists and not overwrite => one error is returned and nothing is created, written or "
                         "removed", props=["C19", "C06"]),
        Clause("writes-only-where-told-after-clearing", shape,
               statement="every write has an allowed form under project_dir/package_dir; models/ and api/ are removed before "
                         "anything is created or written in them; nothing else is ever removed", props=["C19"]),
    ]
    return FnContract(Q + ".build", [Case(f"meta={meta_name}", make, clauses, raises=(), props=["C19", "C06", "C03", "C07", "C16", "C01"])])


# ---- Project.__init__: names, directories, version (C16 renaming options, C19 where the output goes) --------------------------

def _install_jinja_models():
    from pyvc.libmodels import MODELS
    import jinja2

    def opaque(name):
        def m(I, a, k):
            o = SOpaque(name, cls=object)
            o.attrs["kwargs"] = k
            o.attrs["args"] = a
            upd = lambda tag: SFunc("model", lambda I2, a2, k2: o.attrs.setdefault(tag, []).append((a2, k2)))
            o.attrs["filters"] = SOpaque("filters", attrs={"update": upd("filters_update")})
            o.attrs["globals"] = SOpaque("globals", attrs={"update": upd("globals_update")})
            return o
        return m
    for cls in (jinja2.Environment, jinja2.PackageLoader, jinja2.ChoiceLoader, jinja2.FileSystemLoader):
        MODELS.setdefault(cls, opaque(cls.__name__))


def init_contract():
    """README: `project_name_override` / `package_name_override`: if the project name is changed but no package override
    is given, the package name is the project name with `-` replaced by `_`; `package_version_override`: if unset the
    version of the OpenAPI document is used.  Directories: an explicit output path is the project directory; otherwise the
    current directory / package name (meta none) or / project name; the package directory is the project directory
    (meta none) or project directory / package name."""
    def make(I):
        import openapi_python_client as opc
        from openapi_python_client.config import MetaType
        import pathlib
        _install_jinja_models()
        S = z3.StringSort()
        kebab = z3.Function("kebab_case", S, S)
        esc = z3.Function("remove_string_escapes", S, S)
        I.contracts["openapi_python_client.utils:kebab_case"] = lambda I2, a, k: SStr(kebab(I2.to_str_term(a[0] if a else k["value"])))
        I.contracts["openapi_python_client.utils:remove_string_escapes"] = \
            lambda I2, a, k: SStr(esc(I2.to_str_term(a[0] if a else k["value"])))
        trace, world = [], {"project_dir_exists": z3.Bool("project_dir_exists")}
        cwd = SPath(("cwd",), trace, world)
        from pyvc.libmodels import MODELS
        MODELS[pathlib.Path.cwd.__func__] = lambda I2, a, k: cwd
        meta = [MetaType.NONE, MetaType.POETRY, MetaType.SETUP, MetaType.PDM, MetaType.UV][I.choose(5)] if hasattr(MetaType, "UV") \
            else [MetaType.NONE, MetaType.POETRY, MetaType.SETUP, MetaType.PDM][I.choose(4)]

        def opt(name):
            # overrides are None or a NON-EMPTY string (an empty override is falsy and counts as unset)
            if I.branch_free():
                return None
            t = z3.Const(name, S)
            I.assume(z3.Length(t) > 0)
            return SStr(t)
        out = SPath(("output_path",), trace, world) if I.branch_free() else None
        config = SOpaque("config", attrs={"project_name_override": opt("project_name_override"),
                                          "package_name_override": opt("package_name_override"),
                                          "package_version_override": opt("package_version_override"),
                                          "output_path": out, "meta_type": meta, "field_prefix": "field_"})
        # a Config field the contract does not know (added later) has the value its declaration gives it: a default that is
        # computed when the class is defined (e.g. a directory captured at import time) is NOT the state at generation time
        from openapi_python_client.config import Config as _RealConfig
        import attr as _attr
        for a in getattr(_RealConfig, "__attrs_attrs__", ()):
            if a.name in config.attrs or a.default is _attr.NOTHING or isinstance(a.default, _attr.Factory):
                continue
            d = a.default
            config.attrs[a.name] = SPath((f"<{a.name}: value fixed when openapi_python_client.config was imported>",), trace, world) \
                if isinstance(d, pathlib.PurePath) else d
        openapi = SOpaque("openapi", attrs={"title": SStr(z3.Const("title", S)), "version": SStr(z3.Const("doc_version", S)),
                                            "endpoint_collections_by_tag": SOpaque("collections")})
        self = SObj(opc.Project, {})
        return SFunc("pyfunc", opc.Project.__init__), [self], {"openapi": openapi, "config": config}, {
            "self": self, "config": config, "openapi": openapi, "meta": meta, "out": out, "cwd": cwd, "MetaType": MetaType}

    def names(ctx):
        I, i = ctx.I, ctx.inputs
        f, c = i["self"].fields, i["config"].attrs
        pn, pk, ver = (I.to_str_term(f[k]) for k in ("project_name", "package_name", "version"))
        conds = []
        if c["project_name_override"] is not None:
            conds.append(pn == c["project_name_override"].t)
        if c["package_name_override"] is not None:
            conds.append(pk == c["package_name_override"].t)
        else:
            rep = z3.Function("str_replace_all", z3.StringSort(), z3.StringSort(), z3.StringSort(), z3.StringSort())
            conds.append(pk == rep(pn, z3.StringVal("-"), z3.StringVal("_")))
        conds.append(ver == (c["package_version_override"].t if c["package_version_override"] is not None else i["openapi"].attrs["version"].t))
        return z3.And(*conds)

    def dirs(ctx):
        I, i = ctx.I, ctx.inputs
        f = i["self"].fields
        pd, pkd = f.get("project_dir"), f.get("package_dir")
        if not isinstance(pd, SPath) or not isinstance(pkd, SPath):
            return False
        none = i["meta"] is i["MetaType"].NONE
        if i["out"] is not None:
            if pd.parts != ("output_path",):
                return False
        else:
            if pd.parts[:1] != ("cwd",) or len(pd.parts) != 2 or pd.parts[1] is not f["package_name" if none else "project_name"]:
                return False
        if none:
            return pkd.parts == pd.parts
        return pkd.parts[:-1] == pd.parts and pkd.parts[-1] is f["package_name"]

    cls = [Clause("names-and-version", names,
                  statement="project name = its override if set; package name = its override if set, else the project name with every "
                            "'-' replaced by '_'; version = package_version_override if set, else the document's version",
                  props=["C16"]),
           Clause("directories", dirs,
                  statement="project directory = the explicit output path, else cwd/package_name (meta none) or cwd/project_name; package "
                            "directory = project directory (meta none) or project_directory/package_name", props=["C19", "C16"])]
    return FnContract("openapi_python_client:Project.__init__", [Case("all-option-combinations", make, cls, raises=(), props=["C16", "C19"])])


# ---- post hooks (C19: commands run inside the output directory only; C06: a missing or failing hook is a diagnostic) --------

def hooks_contract():
    """Project._run_post_hooks / _run_command for ANY number of configured hooks (loop invariant over a ghost flag):
         every command is looked up by its first word; a command that is not on PATH is skipped with a WARNING;
         every command that runs is started with cwd = the project directory (the directory the user named), through the shell,
         with check=True; a failing command becomes an ERROR diagnostic; no exception escapes; nothing is run otherwise."""
    QH = Q + "._run_post_hooks"

    def make(I):
        import shutil
        import subprocess
        import openapi_python_client as opc
        from pyvc.absdata import CountList
        from pyvc.symexec import LoopSpec, SSeq
        Z = I.Z
        trace = []
        world = {"project_dir_exists": z3.BoolVal(True)}
        project_dir = SPath(("project_dir",), trace, world)
        package_dir = project_dir if I.branch_free() else SPath(("project_dir", "package"), trace, world)
        W = type("W", (), {})()
        W.bad = z3.BoolVal(False)          # some command was started differently from what the contract says
        W.runs = z3.IntVal(0)
        W.looked = z3.IntVal(0)
        errors = CountList("errors")
        hooks = SSeq(z3.Const("post_hooks", z3.SeqSort(Z.JV)), lambda x: Z.rec["str"](x), [lambda v: SStr(Z.acc["s"](v.t))])
        config = SOpaque("config", attrs={"post_hooks": hooks})
        proj = SObj(opc.Project, {"project_dir": project_dir, "package_dir": package_dir, "config": config, "errors": errors})
        first_word = z3.Function("str_before_first", z3.StringSort(), z3.StringSort(), z3.StringSort())

        def which(I2, a, k):
            W.looked = W.looked + 1
            cmd = getattr(W, "current", None)
            if cmd is not None:
                ok = I2.to_str_term(a[0]) == first_word(cmd, z3.StringVal(" "))
                W.bad = z3.Or(W.bad, z3.Not(ok))
            return SStr(I2.fresh("found_at", z3.StringSort())) if I2.branch_free() else None

        def run(I2, a, k):
            W.runs = W.runs + 1
            cwd = k.get("cwd")
            ok = isinstance(cwd, SPath) and cwd.parts == ("project_dir",) and k.get("shell") is True and k.get("check") is True
            cmd_ok = I2.to_str_term(a[0]) == W.current if (a and getattr(W, "current", None) is not None) else z3.BoolVal(False)
            W.bad = z3.Or(W.bad, z3.Not(z3.And(z3.BoolVal(ok), cmd_ok)))
            if I2.branch_free():
                return SOpaque("CompletedProcess", cls=object)
            out = SOpaque("bytes", cls=object, attrs={"decode": SFunc("model", lambda I3, a3, k3: SStr(I3.fresh("decoded", z3.StringSort())))})
            err = SObj(subprocess.CalledProcessError, {"args": STuple([]), "stderr": out, "output": out, "returncode": 1, "cmd": a[0]})
            from pyvc.symexec import PyRaise
            raise PyRaise(err)
        I.lib = dict(I.lib)
        I.lib[shutil.which] = which
        I.lib[subprocess.run] = run

        # the command the loop is at: read from the frame of the generic iteration through the element function
        def elem(v):
            W.current = Z.acc["s"](v.t)
            return SStr(W.current)
        hooks.maps = [elem]

        def inv(I2, loc, seen):
            return z3.And(z3.Not(W.bad), W.runs >= 0, W.runs <= z3.Length(seen), W.looked == z3.Length(seen))

        def havoc_world(I2):
            W.bad = I2.fresh("bad", z3.BoolSort())
            W.runs = I2.fresh("runs", z3.IntSort())
            W.looked = I2.fresh("looked", z3.IntSort())
            return None
        I.loop_specs[(QH, 0)] = LoopSpec(inv, {"__ghost_world__": havoc_world})
        return SFunc("pyfunc", opc.Project._run_post_hooks), [proj], {}, {"W": W, "hooks": hooks, "trace": trace, "errors": errors}

    def inside(ctx):
        W = ctx.inputs["W"]
        n = z3.Length(ctx.inputs["hooks"].base)
        return z3.And(z3.Not(W.bad), W.runs <= n, W.looked == n)

    def no_fs(ctx):
        return not ctx.inputs["trace"]

    clauses = [
        Clause("hooks-run-in-the-output-directory", inside,
               statement="each configured command is looked up once by its first word; every command that is started is the "
                         "configured text, run through the shell with check=True and cwd = the project directory; at most one "
                         "start per configured command", props=["C19", "C06"]),
        Clause("no-other-effect", no_fs, statement="running the hooks creates, writes and removes nothing itself", props=["C19"]),
    ]
    return FnContract(QH, [Case("any-number-of-hooks", make, clauses, raises=(), props=["C19", "C06"])])
