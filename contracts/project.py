"""Effect contract of Project.build (C19-O2, C06-O6): the file-system effects of the real build methods are recorded as a
trace by symbolic Path objects; the contract speaks about that trace.

  mkdir(project_dir) raises FileExistsError and not overwrite  =>  result is one error, trace == [mkdir(project_dir) X]
  otherwise: every write goes to  project_dir/<const> | package_dir/<const> | package_dir/models/<module>.py |
             package_dir/api/__init__.py | package_dir/api/<tag>/__init__.py | package_dir/api/<tag>/<PythonIdentifier(name)>.py ;
             rmtree(package_dir/models) precedes mkdir(models) and every write under models; the same for api;
             nothing but package_dir/models and package_dir/api is ever removed.
"""
from __future__ import annotations

import ast

import z3

from pyvc.engine_b import Case, Clause, FnContract
from pyvc.symexec import SBool, SDict, SFunc, SList, SObj, SOpaque, SStr, STuple, Unsupported

Q = "openapi_python_client:Project"


class SPath(SOpaque):
    def __init__(self, parts, trace, world):
        super().__init__("Path(" + "/".join(map(str, parts)) + ")")
        self.parts = tuple(parts)
        self.trace = trace
        self.world = world

    def __opaque_div__(self, I, other):
        return SPath(self.parts + (other,), self.trace, self.world)

    def opaque_eq(self, I, other):
        return isinstance(other, SPath) and self.parts == other.parts

    def getattr(self, I, name):
        if name == "mkdir":
            def mkdir(I2, a, k):
                exist_ok = k.get("exist_ok", False)
                if self.parts == ("project_dir",) and not exist_ok:
                    if I2.branch(self.world["project_dir_exists"]):
                        self.trace.append(("mkdir-failed", self.parts))
                        I2.raise_(FileExistsError, "exists")
                self.trace.append(("mkdir", self.parts))
            return SFunc("model", mkdir)
        if name == "write_text":
            def write(I2, a, k):
                self.trace.append(("write", self.parts))
                return 0
            return SFunc("model", write)
        raise Unsupported(f"Path.{name}")


def build_contract(meta_name):
    def make(I):
        import shutil
        import openapi_python_client as opc
        from openapi_python_client.config import MetaType
        trace = []
        world = {"project_dir_exists": z3.Bool("project_dir_exists")}
        project_dir = SPath(("project_dir",), trace, world)
        meta = MetaType[meta_name]
        package_dir = project_dir if meta is MetaType.NONE else SPath(("project_dir", "package"), trace, world)
        overwrite = SBool(z3.Const("overwrite", z3.BoolSort()))
        tmpl = SOpaque("template", attrs={"render": SFunc("model", lambda I2, a, k: SStr(I2.fresh("rendered", z3.StringSort())))})
        env = SOpaque("env", attrs={"get_template": SFunc("model", lambda I2, a, k: tmpl)})

        def mk_model(i):
            return SOpaque(f"model{i}", attrs={"class_info": SOpaque(f"ci{i}", attrs={
                "module_name": SStr(z3.Const(f"module_name_{i}", z3.StringSort())), "name": SStr(z3.Const(f"class_name_{i}", z3.StringSort()))})})

        def mk_enum(i):
            e = mk_model(10 + i)
            e.cls = object
            e.attrs["value_type"] = str if I.branch_free() else int
            return e
        nm = 0 if I.branch_free() else 2
        models = SList([mk_model(i) for i in range(nm)])
        enums = SList([mk_enum(0)] if I.branch_free() else [])
        ep = SOpaque("endpoint", attrs={"name": SStr(z3.Const("endpoint_name", z3.StringSort()))})
        coll = SOpaque("collection", attrs={"endpoints": SList([ep]), "parse_errors": SList()})
        tag = SStr(z3.Const("tag", z3.StringSort()))
        from pyvc.absdata import LazyMap
        by_tag = LazyMap("endpoint_collections_by_tag", None, [(tag, coll)], complete=True)
        openapi = SOpaque("openapi", attrs={"models": models, "enums": enums, "endpoint_collections_by_tag": by_tag, "errors": SList()})
        config = SOpaque("config", attrs={"overwrite": overwrite, "meta_type": meta, "post_hooks": SList(), "file_encoding": "utf-8",
                                          "field_prefix": SStr(z3.Const("field_prefix", z3.StringSort()))})
        proj = SObj(opc.Project, {"project_dir": project_dir, "package_dir": package_dir, "config": config, "env": env,
                                  "openapi": openapi, "errors": SList(), "project_name": "p", "package_name": "package"})

        def rmtree(I2, a, k):
            trace.append(("rmtree", a[0].parts if isinstance(a[0], SPath) else ("?",)))
        I.lib = dict(I.lib)
        I.lib[shutil.rmtree] = rmtree
        import builtins
        I.lib[builtins.print] = lambda I2, a, k: None
        I.contracts["openapi_python_client:import_string_from_class"] = lambda I2, a, k: SStr(I2.fresh("import", z3.StringSort()))
        return SFunc("pyfunc", opc.Project.build), [proj], {}, {"trace": trace, "world": world, "overwrite": overwrite,
                                                                "package": package_dir.parts, "meta": meta}

    def refuse(ctx):
        i = ctx.inputs
        tr = i["trace"]
        failed = any(t[0] == "mkdir-failed" for t in tr)
        if failed:
            others = [t for t in tr if t[0] != "mkdir-failed"]
            # FileExistsError: either refused (no effect at all, one error) or overwrite is set
            if not others:
                r = ctx.value
                ok = isinstance(r, SList) and len(r.items) == 1
                return z3.And(z3.Not(i["overwrite"].t), z3.BoolVal(ok))
            return i["overwrite"].t
        return True

    def shape(ctx):
        i = ctx.inputs
        pkg = i["package"]
        tr = i["trace"]
        if any(t[0] == "mkdir-failed" for t in tr) and len(tr) == 1:
            return True
        seen_rm = set()
        for kind, parts in tr:
            if kind == "rmtree":
                if parts not in (pkg + ("models",), pkg + ("api",)):
                    return False
                seen_rm.add(parts[-1])
            elif kind in ("write", "mkdir"):
                under = parts[:len(pkg)] == pkg and len(parts) > len(pkg) and parts[len(pkg)] in ("models", "api") \
                    and isinstance(parts[len(pkg)], str)
                if under and parts[len(pkg)] not in seen_rm:
                    return False         # written / created before the directory was cleared: stale modules may survive
                if kind == "write" and not _allowed(parts, pkg, ctx.I):
                    return False
        return True

    def _allowed(parts, pkg, I):
        consts_project = {"pyproject.toml", "setup.py", "README.md", ".gitignore"}
        consts_pkg = {"__init__.py", "py.typed", "types.py", "client.py", "errors.py"}
        if parts[:1] != ("project_dir",):
            return False
        rest = parts[len(pkg):] if parts[:len(pkg)] == pkg else None
        if len(parts) == 2 and parts[1] in consts_project:
            return True
        if rest is None:
            return False
        if len(rest) == 1 and rest[0] in consts_pkg:
            return True
        if rest[0] == "models" and len(rest) == 2:
            return rest[1] == "__init__.py" or isinstance(rest[1], SStr)       # <module_name>.py (languages: C09/C19 triples)
        if rest[0] == "api":
            if len(rest) == 2:
                return rest[1] == "__init__.py"
            if len(rest) == 3:
                return isinstance(rest[1], SStr) and (rest[2] == "__init__.py" or isinstance(rest[2], SStr))
        return False

    clauses = [
        Clause("existing-directory-refused-without-effects", refuse,
               statement="project_dir exists and not overwrite => one error is returned and nothing is created, written or "
                         "removed", props=["C19", "C06"]),
        Clause("writes-only-where-told-after-clearing", shape,
               statement="every write has an allowed form under project_dir/package_dir; models/ and api/ are removed before "
                         "anything is created or written in them; nothing else is ever removed", props=["C19"]),
    ]
    return FnContract(Q + ".build", [Case(f"meta={meta_name}", make, clauses, raises=(), props=["C19", "C06"])])
