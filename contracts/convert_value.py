"""Sidecar contracts for the `convert_value` family (C13; clauses P1-P5 of DESIGN A.2).

Posts come from the property statement: a declared default becomes the *equivalent typed value* (P1/P2), a default
that is not a valid value of the type is rejected with a diagnostic and never emitted (P3), no exception escapes (P4),
no default stays no default (P5).  Leniencies pinned by the suite are named coercion sets (numeric strings for
integer/number, true/false in any case for boolean, scalars for string).
"""
import z3

from pyvc.engine_b import Case, Clause, FnContract, JSON_POOL
from pyvc.symexec import SFunc, SObj, SStr, SV, Sorts

P = "openapi_python_client.parser.properties."


def _input(I):
    Z = I.Z
    v = SV(z3.Const("value", Z.JV))
    return v


def _json_or_value(inputs, I):
    """the argument is a JSON value (as produced by json/yaml loading) or a protocol.Value"""
    Z = I.Z
    t = inputs["value"].t
    r = Z.rec
    return z3.Or(r["none"](t), r["bool"](t), r["int"](t), r["flt"](t), r["str"](t), r["list"](t), r["dict"](t), r["val"](t))


def _classmethod_case(modcls):
    def make(I):
        import importlib
        mod, cls = modcls.rsplit(".", 1)
        C = getattr(importlib.import_module(mod), cls)
        v = _input(I)
        return SFunc("pyfunc", C.convert_value.__func__, self_val=C, name="convert_value"), [v], {}, {"value": v}
    return make


def _pool():
    return [{"value": v} for v in JSON_POOL]


# ---- clause builders ---------------------------------------------------------------------------------------------------

def is_error(ctx):
    from openapi_python_client.parser.errors import PropertyError
    return ctx.is_instance(PropertyError)


def is_value(ctx):
    from openapi_python_client.parser.properties.protocol import Value
    return ctx.is_instance(Value)


def _b(x):
    return z3.BoolVal(x) if isinstance(x, bool) else x


def none_in_none_out(ctx):
    t = ctx.inputs["value"].t
    return z3.Implies(ctx.Z.rec["none"](t), _b(ctx.is_none()))


def value_passthrough(ctx):
    """an already converted Value is returned unchanged (re-validation keeps the default)"""
    Z = ctx.Z
    t = ctx.inputs["value"].t
    v = ctx.value
    same = z3.BoolVal(False)
    if isinstance(v, SV):
        same = v.t == t
    elif isinstance(v, SObj) and v.cls.__name__ == "Value":
        same = z3.And(Z.acc["code"](t) == ctx.I.to_str_term(v.fields["python_code"]),
                      Z.acc["raw"](t) == ctx.I.to_jv(v.fields["raw_value"]))
    return z3.Implies(Z.rec["val"](t), same)


def accept_clause(accept, typed, code_shape=None):
    """accept(Z, t) -> z3 Bool ; typed(Z, t) -> JV term the emitted code must evaluate to"""
    def f(ctx):
        Z = ctx.Z
        t = ctx.inputs["value"].t
        isv = is_value(ctx)
        if isv is False:
            return z3.Not(accept(Z, t))
        code = ctx.I.to_str_term(ctx.field("python_code"))
        raw = ctx.I.to_jv(ctx.field("raw_value"))
        good = z3.And(_b(isv), raw == t)
        if typed is not None:
            good = z3.And(good, Z.evaluable(code), Z.eval_code(code) == typed(Z, t))
        if code_shape is not None:
            good = z3.And(good, code_shape(Z, t, code))
        return z3.Implies(accept(Z, t), good)
    return f


def reject_clause(accept):
    def f(ctx):
        Z = ctx.Z
        t = ctx.inputs["value"].t
        r = Z.rec
        outside = z3.And(z3.Not(accept(Z, t)), z3.Not(r["none"](t)), z3.Not(r["val"](t)))
        return z3.Implies(outside, _b(is_error(ctx)))
    return f


def emitted_code_is_valid(ctx):
    """whatever is accepted, the emitted text is an evaluable expression (never broken code)"""
    Z = ctx.Z
    isv = is_value(ctx)
    if isv is False:
        return True
    t = ctx.inputs["value"].t
    code = ctx.I.to_str_term(ctx.field("python_code"))
    return z3.Implies(z3.And(_b(isv), z3.Not(Z.rec["val"](t))), Z.evaluable(code))


NATIVE_HELP = (
    "from openapi_python_client.parser.errors import PropertyError\n"
    "from openapi_python_client.parser.properties.protocol import Value\n"
    "import math, datetime, uuid\n"
    "from dateutil.parser import isoparse\n"
    "from uuid import UUID\n"
    "def evals(code):\n"
    "    try:\n"
    "        return (True, eval(code, {'isoparse': isoparse, 'UUID': UUID, 'datetime': datetime}))\n"
    "    except BaseException as e:\n"
    "        return (False, e)\n"
)


def _int_accept(Z, t):
    r, a = Z.rec, Z.acc
    s = a["s"](t)
    integral = lambda x: z3.ToReal(z3.ToInt(x)) == x
    return z3.Or(
        r["int"](t),
        z3.And(r["flt"](t), a["fk"](t) == Z.fk["fin"], integral(a["r"](t))),
        z3.And(r["str"](t), Z.float_ok(s), Z.float_fk(s) == Z.fk["fin"], integral(Z.float_r(s))),
    )


def _int_typed(Z, t):
    r, a = Z.rec, Z.acc
    s = a["s"](t)
    return Z.con["int"](z3.If(r["int"](t), a["i"](t), z3.If(r["flt"](t), z3.ToInt(a["r"](t)), z3.ToInt(Z.float_r(s)))))


def _float_accept(Z, t):
    r, a = Z.rec, Z.acc
    s = a["s"](t)
    return z3.Or(
        z3.And(r["int"](t), z3.Not(Z.int_overflows_double(a["i"](t)))),      # the nearest double is finite
        z3.And(r["flt"](t), a["fk"](t) == Z.fk["fin"]),
        z3.And(r["str"](t), Z.float_ok(s), Z.float_fk(s) == Z.fk["fin"]),
    )


def _float_typed(Z, t):
    r, a = Z.rec, Z.acc
    s = a["s"](t)
    return Z.con["flt"](Z.fk["fin"], z3.If(r["int"](t), Z.int_as_double(a["i"](t)), z3.If(r["flt"](t), a["r"](t), Z.float_r(s))))


def _bool_accept(Z, t):
    r, a = Z.rec, Z.acc
    s = a["s"](t)
    return z3.Or(r["bool"](t), z3.And(r["str"](t), z3.Or(Z.lower(s) == "true", Z.lower(s) == "false")))


def _bool_typed(Z, t):
    r, a = Z.rec, Z.acc
    s = a["s"](t)
    return Z.con["bool"](z3.If(r["bool"](t), a["b"](t), Z.lower(s) == "true"))


def _str_accept(Z, t):
    r = Z.rec
    return z3.Or(r["str"](t), r["int"](t), r["flt"](t), r["bool"](t))


def _str_wire(Z, t):
    return Z.rec["str"](t)


def _str_typed(Z, t):
    return t      # for a wire string the emitted literal must evaluate to that very string


def _date_accept(Z, t):
    return z3.And(Z.rec["str"](t), Z.iso_ok(Z.acc["s"](t)))


def _date_shape(suffix):
    def f(Z, t, code):
        s = Z.acc["s"](t)
        return code == z3.Concat(z3.StringVal("isoparse("), Z.repr_str(s), z3.StringVal(")" + suffix))
    return f


_SAFE_SQ = None


def _safe_sq():
    """strings that, written between single quotes, are a literal evaluating to themselves"""
    global _SAFE_SQ
    if _SAFE_SQ is None:
        bad = z3.Union(z3.Re("'"), z3.Re("\\"), z3.Re("\n"), z3.Re("\r"))
        _SAFE_SQ = z3.Star(z3.Diff(z3.AllChar(z3.ReSort(z3.StringSort())), bad))
    return _SAFE_SQ


def _uuid_canonical():
    h = z3.Union(z3.Range("0", "9"), z3.Range("a", "f"), z3.Range("A", "F"))
    def rep(n):
        return z3.Loop(h, n, n)
    d = z3.Re("-")
    return z3.Concat(rep(8), d, rep(4), d, rep(4), d, rep(4), d, rep(12))


def _uuid_accept(Z, t):
    s = Z.acc["s"](t)
    return z3.And(Z.rec["str"](t), z3.InRe(s, _uuid_canonical()), Z.uuid_ok(s))


def _uuid_reject_accept(Z, t):
    # what may be accepted at all: anything uuid.UUID() takes
    s = Z.acc["s"](t)
    return z3.And(Z.rec["str"](t), Z.uuid_ok(s))


def _uuid_shape(Z, t, code):
    s = Z.acc["s"](t)
    return z3.And(code == z3.Concat(z3.StringVal("UUID('"), s, z3.StringVal("')")), z3.InRe(s, _safe_sq()))


def _uuid_code_safe(ctx):
    """P1 for every accepted spelling: the text placed between the quotes must be a faithful literal body"""
    Z = ctx.Z
    isv = is_value(ctx)
    if isv is False:
        return True
    t = ctx.inputs["value"].t
    s = Z.acc["s"](t)
    code = ctx.I.to_str_term(ctx.field("python_code"))
    return z3.Implies(z3.And(_b(isv), Z.rec["str"](t)),
                      z3.And(code == z3.Concat(z3.StringVal("UUID('"), s, z3.StringVal("')")), z3.InRe(s, _safe_sq())))


def build():
    Z = Sorts.get()
    out = []

    def std(modcls, name, accept, typed, reject_accept=None, shape=None, extra=(), accept_known=None, reject_known=None,
            raises_known=None, valid_known=None):
        vio_accept = ("not (isinstance(result, Value) and result.raw_value is kwargs['value'] and evals(result.python_code)[0]"
                      + (" and SAME(evals(result.python_code)[1], TYPED(kwargs['value']))" if "def TYPED" in NATIVE_ACCEPT[name] else "")
                      + ")")
        clauses = [
            Clause("P5-none", none_in_none_out, native="kwargs['value'] is None and result is not None",
                   statement="value is None  ==>  result is None"),
            Clause("P5v-value-passthrough", value_passthrough, statement="value is a Value  ==>  result is that Value"),
            Clause("P2-accepts-valid", accept_clause(accept, typed, shape),
                   native="ACCEPTS(kwargs['value']) and " + vio_accept,
                   statement=f"value in wire_{name} or coerce_{name}  ==>  result is a Value whose python_code evaluates "
                             f"to the equivalent typed value and raw_value is value"),
            Clause("P3-rejects-invalid", reject_clause(reject_accept or accept),
                   native="not ACCEPTS_ANY(kwargs['value']) and kwargs['value'] is not None and not isinstance(result, PropertyError)",
                   statement=f"value outside wire_{name} and coerce_{name} (and not None / Value)  ==>  result is a PropertyError"),
            Clause("P1-emitted-code-evaluable", emitted_code_is_valid,
                   native="isinstance(result, Value) and not evals(result.python_code)[0]",
                   statement="result is a Value  ==>  its python_code is an evaluable expression"),
        ]
        if typed is None:
            clauses = clauses[:4]      # compound code: P1 is the shape part of P2
        clauses = clauses + list(extra)
        for cl in clauses:
            # what is emitted for a default is an expression that evaluates to the value (P1 / P2): that is also the C05
            # guarantee for the default / const slots (document text cannot become anything but that literal)
            cl.props = ["C13", "C05"] if cl.name.startswith(("P1", "P2")) else ["C13"]
        if accept_known:
            clauses[2].known, clauses[2].restrict = accept_known[0], accept_known[1]
        if reject_known:
            clauses[3].known, clauses[3].restrict = reject_known[0], reject_known[1]
        if valid_known and typed is not None:
            clauses[4].known, clauses[4].restrict = valid_known[0], valid_known[1]
        case = Case("any-json", _classmethod_case(P + modcls), clauses, pre=_json_or_value, raises=(), pool=_pool,
                    native_target=P + modcls.replace(".", ":", 1).replace(":", ".", 0) if False else None,
                    props=["C13", "C06", "C05"])
        mod, cls = modcls.rsplit(".", 1)
        case.native_target = f"{P}{mod}:{cls}.convert_value"
        case.native_setup = NATIVE_HELP + NATIVE_ACCEPT[name]
        if raises_known:
            case.raises_known = raises_known
        out.append(FnContract(f"{P}{mod}:{cls}.convert_value", [case]))

    nonfinite_str = lambda inputs, I: z3.Not(z3.And(I.Z.rec["str"](inputs["value"].t),
                                                     I.Z.float_fk(I.Z.acc["s"](inputs["value"].t)) != I.Z.fk["fin"]))
    nonfinite_flt = lambda inputs, I: z3.Not(z3.And(I.Z.rec["flt"](inputs["value"].t),
                                                     I.Z.acc["fk"](inputs["value"].t) != I.Z.fk["fin"]))
    finite_only = lambda inputs, I: z3.And(nonfinite_str(inputs, I), nonfinite_flt(inputs, I))
    huge_int = lambda inputs, I: z3.Not(z3.And(I.Z.rec["int"](inputs["value"].t),
                                               z3.Or(z3.ToReal(I.Z.acc["i"](inputs["value"].t)) > I.Z.MAXF,
                                                     z3.ToReal(I.Z.acc["i"](inputs["value"].t)) < -I.Z.MAXF)))

    std("int.IntProperty", "int", _int_accept, _int_typed)
    std("float.FloatProperty", "float", _float_accept, _float_typed)
    std("boolean.BooleanProperty", "bool", _bool_accept, _bool_typed)
    no_quote = lambda inputs, I: z3.Not(z3.And(I.Z.rec["str"](inputs["value"].t),
                                               z3.Contains(I.Z.acc["s"](inputs["value"].t), z3.StringVal('"'))))
    containers = lambda inputs, I: z3.Not(z3.Or(I.Z.rec["list"](inputs["value"].t), I.Z.rec["dict"](inputs["value"].t)))
    std("string.StringProperty", "str", _str_wire, _str_typed, reject_accept=_str_accept,
        accept_known=(["C13-K4-string-default-quote-escaped"], no_quote),
        reject_known=(["C13-K5-string-default-container-stringified"], containers))
    std("date.DateProperty", "date", _date_accept, None, shape=_date_shape(".date()"))
    std("datetime.DateTimeProperty", "datetime", _date_accept, None, shape=_date_shape(""))
    canonical_only = lambda inputs, I: z3.Or(z3.Not(I.Z.rec["str"](inputs["value"].t)),
                                             z3.Not(I.Z.uuid_ok(I.Z.acc["s"](inputs["value"].t))),
                                             z3.InRe(I.Z.acc["s"](inputs["value"].t), _uuid_canonical()))
    std("uuid.UuidProperty", "uuid", _uuid_accept, None, reject_accept=_uuid_reject_accept, shape=_uuid_shape,
        extra=[Clause("P1-uuid-literal-safe", _uuid_code_safe,
                      native="isinstance(result, Value) and isinstance(kwargs['value'], str) and not (evals(result.python_code)[0] and str(evals(result.python_code)[1]) == str(UUID(kwargs['value'])))",
                      statement="every accepted UUID spelling is emitted as a literal that evaluates to that UUID",
                      known=["C13-K6-uuid-noncanonical-emitted-raw"], restrict=canonical_only, props=["C13", "C05"])])
    return out


NATIVE_ACCEPT = {
    "int": (
        "def _num(v):\n"
        "    if isinstance(v, bool): return None\n"
        "    if isinstance(v, (int, float)): return v\n"
        "    if isinstance(v, str):\n"
        "        try: return float(v)\n"
        "        except ValueError: return None\n"
        "    return None\n"
        "def ACCEPTS(v):\n"
        "    n = _num(v)\n"
        "    return n is not None and (isinstance(n, int) or (math.isfinite(n) and n == int(n)))\n"
        "ACCEPTS_ANY = ACCEPTS\n"
        "def TYPED(v):\n"
        "    return int(_num(v))\n"
        "def SAME(a, b):\n"
        "    return type(a) is int and a == b\n"),
    "float": (
        "def ACCEPTS(v):\n"
        "    if isinstance(v, bool): return False\n"
        "    if isinstance(v, int):\n"
        "        try: return math.isfinite(float(v))\n"
        "        except OverflowError: return False\n"
        "    if isinstance(v, float): return math.isfinite(v)\n"
        "    if isinstance(v, str):\n"
        "        try: return math.isfinite(float(v))\n"
        "        except ValueError: return False\n"
        "    return False\n"
        "ACCEPTS_ANY = ACCEPTS\n"
        "def TYPED(v):\n"
        "    return float(v)\n"
        "def SAME(a, b):\n"
        "    return type(a) in (int, float) and float(a) == b\n"),
    "bool": (
        "def ACCEPTS(v):\n"
        "    return isinstance(v, bool) or (isinstance(v, str) and v.lower() in ('true', 'false'))\n"
        "ACCEPTS_ANY = ACCEPTS\n"
        "def TYPED(v):\n"
        "    return v if isinstance(v, bool) else v.lower() == 'true'\n"
        "def SAME(a, b):\n"
        "    return type(a) is bool and a == b\n"),
    "str": (
        "def ACCEPTS(v):\n"
        "    return isinstance(v, str)\n"
        "def ACCEPTS_ANY(v):\n"
        "    return isinstance(v, (str, int, float, bool))\n"
        "_ev = evals\n"
        "def evals(code):\n"
        "    ok, val = _ev(code)\n"
        "    return (ok and (not isinstance(CUR[0], str) or val == CUR[0]), val)\n"
        "CUR = [None]\n"),
    "date": (
        "def ACCEPTS(v):\n"
        "    if not isinstance(v, str): return False\n"
        "    try: isoparse(v); return True\n"
        "    except ValueError: return False\n"
        "ACCEPTS_ANY = ACCEPTS\n"),
    "uuid": (
        "import re\n"
        "def ACCEPTS_ANY(v):\n"
        "    if not isinstance(v, str): return False\n"
        "    try: UUID(v); return True\n"
        "    except ValueError: return False\n"
        "def ACCEPTS(v):\n"
        "    return ACCEPTS_ANY(v) and re.fullmatch('[0-9a-fA-F]{8}-[0-9a-fA-F]{4}-[0-9a-fA-F]{4}-[0-9a-fA-F]{4}-[0-9a-fA-F]{12}', v) is not None\n"),
}
NATIVE_ACCEPT["datetime"] = NATIVE_ACCEPT["date"]
