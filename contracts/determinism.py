"""C12(a): hash-seed independence.  Sets have no iteration order, so every place where the iteration order of a set can
reach generated text is an obligation: the consumer must be order-insensitive or sort first.

Templates: every {% for %} and every filter chain whose source is a set-typed attribute must contain `sort`/`dictsort`.
Python: every `str.join` argument / list-building iteration over a set-typed expression must go through sorted().
Set-typedness: attributes annotated `set[...]` on the record classes (read from the real classes), results of
get_imports/get_lazy_imports, set displays/comprehensions, set(...) calls and local names bound to those.
"""
from __future__ import annotations

import ast
import os

from jinja2 import Environment, nodes

from pyvc import core
from pyvc.core import Obligation, PROVED, REFUTED, UNDECIDED


def set_typed_attributes():
    import typing
    import openapi_python_client.parser.properties as props
    from openapi_python_client.parser import openapi
    names = set()
    classes = [getattr(props, n) for n in dir(props) if n.endswith("Property")] + [openapi.Endpoint]
    for cls in classes:
        ann = {}
        for c in getattr(cls, "__mro__", [cls]):
            ann.update(getattr(c, "__annotations__", {}))
        for k, v in ann.items():
            s = v if isinstance(v, str) else getattr(v, "__name__", str(v))
            if str(s).replace("typing.", "").lower().startswith(("set[", "set |", "set[str] |")) or "set[" in str(s).split("|")[0]:
                if "ClassVar" not in str(s):
                    names.add(k)
    return names


def template_obligations(rep, prop="C12"):
    root = os.path.join(core.REPO, "openapi_python_client", "templates")
    env = Environment(trim_blocks=True, lstrip_blocks=True, extensions=["jinja2.ext.loopcontrols"])
    setattrs = set_typed_attributes() | {"values"}        # LiteralEnumProperty.values is a set; EnumProperty.values a dict
    out = []
    for dp, _, fs in os.walk(root):
        for f in sorted(fs):
            if not f.endswith(".jinja"):
                continue
            p = os.path.join(dp, f)
            rel = os.path.relpath(p, core.REPO)
            tree = env.parse(open(p, encoding="utf-8").read())
            for node in tree.find_all((nodes.For, nodes.Filter)):
                src, filters = _chain(node.iter if isinstance(node, nodes.For) else node)
                if isinstance(node, nodes.Filter) and any(isinstance(par, nodes.Filter) for par in _parents(tree, node)):
                    continue       # inner links of a chain are judged at the outermost filter
                if not (isinstance(src, nodes.Getattr) and src.attr in setattrs):
                    continue
                if src.attr == "values" and "str_enum" in f or "int_enum" in f:
                    continue       # EnumProperty.values is a dict (insertion ordered)
                order_free = {"length", "count", "first"} & set(filters) and not isinstance(node, nodes.For)
                ob = Obligation(id=f"{prop}.C.set-iteration.{os.path.basename(f)}:{node.lineno}.{src.attr}", props=[prop],
                                unit=f"{rel}: iteration over the set .{src.attr}", where=f"{rel}:{node.lineno}",
                                backend="syntactic (jinja AST)",
                                formula=f"the set-typed .{src.attr} is sorted before its order can reach the output")
                chain_root = node.iter if isinstance(node, nodes.For) else node
                if src.attr == "values" and "sort" in filters and not order_free and not _case_sensitive_sort(chain_root):
                    # the elements are document text (enum values): two of them may differ only in case
                    ob.status = REFUTED
                    ob.detail = (f"filters {filters}: jinja's sort ignores case and is stable, values that differ only in case stay in "
                                 f"set (hash) order; sort(case_sensitive=true) is needed somewhere in the chain")
                    ob.witness = {"kind": "call", "qualname": "pyvc.boundedchecks:hashseed_violation", "args": [], "kwargs": {},
                                  "violates": "result is not None"}
                elif {"sort", "dictsort"} & set(filters) or order_free:
                    ob.status, ob.detail = PROVED, f"filters: {filters}"
                else:
                    ob.status, ob.detail = REFUTED, f"iterated in set order (filters: {filters or 'none'})"
                    ob.witness = {"kind": "call", "qualname": "pyvc.boundedchecks:hashseed_violation", "args": [], "kwargs": {},
                                  "violates": "result is not None"}
                out.append(rep.add(ob))
    return out


def _case_sensitive_sort(node):
    """does the filter chain contain sort(case_sensitive=true)?  (jinja's sort ignores case by default and is stable: elements
    that differ only in case keep their input order -- for a set: the hash order)"""
    while isinstance(node, nodes.Filter):
        if node.name == "sort":
            for kw in node.kwargs:
                if kw.key == "case_sensitive" and isinstance(kw.value, nodes.Const) and kw.value.value is True:
                    return True
            if node.args and isinstance(node.args[-1], nodes.Const) and node.args[-1].value is True and len(node.args) >= 2:
                return True
        node = node.node
    return False


def _chain(node):
    filters = []
    while isinstance(node, nodes.Filter):
        filters.append(node.name)
        node = node.node
    return node, filters


def _parents(tree, target):
    out = []
    for n in tree.find_all(nodes.Filter):
        if n.node is target:
            out.append(n)
    return out


def python_obligations(rep, prop="C12"):
    """join / list-building over set-typed expressions in the parser and the project writer"""
    setattrs = set_typed_attributes()
    root = os.path.join(core.REPO, "openapi_python_client")
    out = []
    for dp, dn, fs in os.walk(root):
        if "templates" in dp or os.sep + "schema" in dp:
            continue
        for f in sorted(fs):
            if not f.endswith(".py"):
                continue
            p = os.path.join(dp, f)
            rel = os.path.relpath(p, core.REPO)
            tree = ast.parse(open(p, encoding="utf-8").read())
            for fn in [n for n in ast.walk(tree) if isinstance(n, (ast.FunctionDef, ast.AsyncFunctionDef))]:
                setnames = set()
                for a in fn.args.args + fn.args.kwonlyargs:
                    if a.annotation is not None and ast.unparse(a.annotation).startswith("set["):
                        setnames.add(a.arg)
                for n in ast.walk(fn):
                    if isinstance(n, ast.Assign) and len(n.targets) == 1 and isinstance(n.targets[0], ast.Name) and _is_set_expr(n.value, setnames, setattrs):
                        setnames.add(n.targets[0].id)
                    if isinstance(n, ast.AnnAssign) and isinstance(n.target, ast.Name) and ast.unparse(n.annotation).startswith("set["):
                        setnames.add(n.target.id)
                for n in ast.walk(fn):
                    site = None
                    if isinstance(n, ast.Call) and isinstance(n.func, ast.Attribute) and n.func.attr == "join" and n.args:
                        site = n.args[0]
                    elif isinstance(n, ast.ListComp) and n.generators:
                        site = n.generators[0].iter
                    elif isinstance(n, ast.Call) and isinstance(n.func, ast.Name) and n.func.id in ("list", "tuple") and n.args:
                        site = n.args[0]
                    elif isinstance(n, ast.Call) and isinstance(n.func, ast.Attribute) and n.func.attr == "pop" and not n.args \
                            and _is_set_expr(n.func.value, setnames, setattrs):
                        # set.pop(): order-insensitive only for singletons
                        site = n.func.value
                        if _guarded_singleton(fn, n):
                            site = None
                    if isinstance(site, (ast.GeneratorExp, ast.ListComp)) and site.generators:
                        site = site.generators[0].iter          # ", ".join(f(x) for x in <set>)
                    if site is None or not _is_set_expr(site, setnames, setattrs):
                        continue
                    ob = Obligation(id=f"{prop}.B.set-iteration.{f}:{fn.name}:{n.lineno}", props=[prop], unit=f"{rel}:{fn.name}",
                                    where=f"{rel}:{n.lineno}", backend="syntactic (python AST)",
                                    formula="a set-typed value is sorted before its order can reach a string / list",
                                    status=UNDECIDED, detail=f"`{ast.unparse(n)[:90]}` consumes a set in iteration order; whether "
                                    f"the order reaches generated text is not decided syntactically (see the hash-seed stand-in)")
                    out.append(rep.add(ob))
                # positive evidence: sorted(...) over set expressions
                for n in ast.walk(fn):
                    if isinstance(n, ast.Call) and isinstance(n.func, ast.Name) and n.func.id == "sorted" and n.args and \
                            _is_set_expr(n.args[0], setnames, setattrs):
                        ob = Obligation(id=f"{prop}.B.set-iteration.{f}:{fn.name}:{n.lineno}", props=[prop], unit=f"{rel}:{fn.name}",
                                        where=f"{rel}:{n.lineno}", backend="syntactic (python AST)",
                                        formula="a set-typed value is sorted before its order can reach a string / list",
                                        status=PROVED, detail=f"`{ast.unparse(n)[:90]}`")
                        key = next((k.value for k in n.keywords if k.arg == "key"), None)
                        if key is not None and not _injective_key(key):
                            # sorted() is stable: elements with equal keys keep their INPUT order, which for a set is the hash
                            # order; a key that maps different elements to one value (str.lower, len, ...) lets that order through.
                            # Refuted only for keys that are visibly many-to-one; any other key function is not decided here.
                            if _many_to_one_key(key):
                                ob.status = REFUTED
                                ob.detail = (f"`{ast.unparse(n)[:90]}` sorts a set by a key that ties for different elements (case "
                                             f"folding / length): tied elements stay in set-iteration (hash) order")
                            else:
                                ob.status = UNDECIDED
                                ob.detail = (f"`{ast.unparse(n)[:90]}` sorts a set by a key function; whether it can tie for different "
                                             f"elements is not decided syntactically (see the hash-seed stand-in)")
                        out.append(rep.add(ob))
    return out


def _many_to_one_key(key):
    """str.lower / str.upper / str.casefold / len, directly or applied to the lambda's parameter"""
    text = ast.unparse(key)
    if text in ("str.lower", "str.upper", "str.casefold", "len", "str.title", "str.capitalize"):
        return True
    if isinstance(key, ast.Lambda) and len(key.args.args) == 1:
        p = key.args.args[0].arg
        body = ast.unparse(key.body)
        return body in (f"{p}.lower()", f"{p}.upper()", f"{p}.casefold()", f"len({p})", f"{p}.title()", f"{p}.capitalize()")
    return False


def _injective_key(key):
    """a sort key that cannot tie for different elements: a lambda whose result is (or ends a tuple with) its own parameter"""
    if isinstance(key, ast.Lambda) and len(key.args.args) == 1:
        p = key.args.args[0].arg
        body = key.body
        if isinstance(body, ast.Name) and body.id == p:
            return True
        if isinstance(body, ast.Tuple) and body.elts and isinstance(body.elts[-1], ast.Name) and body.elts[-1].id == p:
            return True
    return False


def _is_set_expr(e, setnames, setattrs):
    if isinstance(e, (ast.Set, ast.SetComp)):
        return True
    if isinstance(e, ast.Call) and isinstance(e.func, ast.Name) and e.func.id in ("set", "frozenset"):
        return True
    if isinstance(e, ast.Name) and e.id in setnames:
        return True
    if isinstance(e, ast.Attribute) and e.attr in setattrs:
        return True
    if isinstance(e, ast.Call) and isinstance(e.func, ast.Attribute) and e.func.attr in ("get_imports", "get_lazy_imports", "_get_inner_type_strings",
                                                                                         "get_type_strings_in_union"):
        return True
    if isinstance(e, ast.BinOp) and isinstance(e.op, (ast.BitOr, ast.BitAnd, ast.Sub)):
        return _is_set_expr(e.left, setnames, setattrs) or _is_set_expr(e.right, setnames, setattrs)
    return False


def _guarded_singleton(fn, popcall):
    """x.pop() inside `if len(x) == 1:`"""
    for n in ast.walk(fn):
        if isinstance(n, ast.If) and any(c is popcall for b in n.body for c in ast.walk(b)):
            t = ast.unparse(n.test)
            if "len(" in t and "== 1" in t:
                return True
    return False


def determinism_document(literal=False):
    """a document rich in the places where a set could leak its iteration order into generated text: unions of several
    const / enum / model members, models importing many siblings, operations with several response types"""
    s = {"type": "string"}
    consts = [{"const": v} for v in ("asc", "desc", "ASC", "DESC", "natural", "random")]
    schemas = {
        "A": {"type": "object", "properties": {"x": s}},
        "B": {"type": "object", "properties": {"y": {"type": "integer"}}},
        "C": {"type": "object", "properties": {"z": {"type": "boolean"}}},
        "Color": {"type": "string", "enum": ["red", "green", "blue"]},
        "Level": {"type": "integer", "enum": [1, 2, 3]},
        # values / class names that differ only in case: a case-insensitive stable sort leaves them in input (hash) order
        # (class-based enums reject such values -- duplicate member names -- so they are only there for the literal style)
        "Mode": {"type": "string", "enum": ["on", "ON", "off", "Off", "auto"] if literal else ["on", "off", "auto"]},
        "IPhone": {"type": "object", "properties": {"m": {"type": "string", "enum": ["x", "X", "y"] if literal else ["x", "y"]}}},
        "Iphone": {"type": "object", "properties": {"n": {"type": "integer"}}},
        "SortRequest": {"type": "object", "properties": {
            "two": {"oneOf": consts[:2]}, "six": {"oneOf": consts}, "mixed": {"anyOf": [{"type": "integer"}] + consts[:3]},
            "models": {"oneOf": [{"$ref": f"#/components/schemas/{n}"} for n in "ABC"]},
            "enums": {"anyOf": [{"$ref": "#/components/schemas/Color"}, {"$ref": "#/components/schemas/Level"}, {"type": "null"}]},
            "many": {"type": "array", "items": {"oneOf": [{"$ref": f"#/components/schemas/{n}"} for n in "CBA"] + [{"type": "string", "format": "date"}]}},
            "when": {"type": "string", "format": "date-time"}, "id": {"type": "string", "format": "uuid"}}},
    }
    ok = {"203": {"description": "", "content": {"application/json": {"schema": {"$ref": "#/components/schemas/IPhone"}}}},
          "206": {"description": "", "content": {"application/json": {"schema": {"$ref": "#/components/schemas/Iphone"}}}},
          "200": {"description": "", "content": {"application/json": {"schema": {"$ref": "#/components/schemas/A"}}}},
          "201": {"description": "", "content": {"application/json": {"schema": {"$ref": "#/components/schemas/B"}}}},
          "202": {"description": "", "content": {"application/json": {"schema": {"$ref": "#/components/schemas/C"}}}},
          "400": {"description": "", "content": {"text/plain": {"schema": s}}}}
    params = [{"name": "order", "in": "query", "schema": {"oneOf": consts[:4]}},
              {"name": "thing", "in": "query", "schema": {"oneOf": [{"$ref": "#/components/schemas/Color"}, {"$ref": "#/components/schemas/Level"}]}}]
    paths = {"/sort": {"post": {"operationId": "sort", "parameters": params, "responses": ok,
                                "requestBody": {"content": {"application/json": {"schema": {"$ref": "#/components/schemas/SortRequest"}}}}},
                       # several tags: the FIRST one names the package of the module; several request media types, several
                       # security schemes and many parameters: further places where a set could be iterated
                       "get": {"operationId": "list_sorted", "tags": ["pets", "store", "animals", "zoo", "admin"],
                               "parameters": params + [{"name": f"p{i}", "in": loc, "schema": s} for i, loc in
                                                       enumerate(["query", "header", "cookie", "query", "header"])],
                               "responses": ok},
                       "put": {"operationId": "replace_sorted", "tags": ["store", "pets"], "responses": ok,
                               "requestBody": {"content": {
                                   "application/json": {"schema": {"$ref": "#/components/schemas/A"}},
                                   "application/x-www-form-urlencoded": {"schema": {"$ref": "#/components/schemas/B"}},
                                   "multipart/form-data": {"schema": {"$ref": "#/components/schemas/C"}},
                                   "application/octet-stream": {"schema": {"type": "string", "format": "binary"}}}}}}}
    return {"openapi": "3.1.0", "info": {"title": "det", "version": "1"}, "paths": paths, "components": {"schemas": schemas}}
