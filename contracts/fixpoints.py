"""Contracts for the three retry fixpoints of the parser (C06: "progress-based fixpoints must terminate"; C07: every
component is registered or has a diagnostic), for ANY number of components, by nested inductive invariants:

  properties/__init__.py:_create_schemas      components.schemas
  properties/__init__.py:build_parameters     components.parameters
  properties/__init__.py:_process_models      property data of the registered models (allOf parents first)

Shape (all three):  while still_making_progress: ...; for item in to_process: <direct error | deferred with an error |
success, progress = True>; to_process = next_round.
Lists whose content is irrelevant to the argument are counted lists (pyvc.absdata.CountList).  Ghost S = number of
successful items so far (incremented by the callee summary of the step function).  N = number of components.

  inner invariant (k = items visited in this round, T = |to_process|, E = |container.errors|, E0 its initial value, F = items
  retired with a final error):
      S + (E - E0) + F + |next_round| + (T - k) == N          conservation: every item is exactly one of registered /
                                                              reported at once / deferred / not yet visited
      |errors| == |next_round|                                every deferred item has an error of this round
      |next_round| + (1 if progress else 0) <= k              progress means one item fewer for the next round
  outer invariant:   S + (E - E0) + F + |to_process| == N   and   (not progress => |errors| == |to_process|)
  variant (termination):  |to_process| is >= 0 and strictly smaller whenever the loop goes round again.
Clause `accounting`: on return the number of diagnostics added equals N - S (every component that was not registered
has exactly one diagnostic; none is dropped, none is reported for a registered component).
Assumed callee contracts: the step function (update_schemas_with_data / update_parameters_with_data / process_model)
returns an error or the updated container (sharing the error list); parse_reference_path returns a ParseError or a
string; _process_model_errors returns one error per entry; dict.items() is a finite sequence."""
from __future__ import annotations

import z3

from pyvc.absdata import CountList
from pyvc.engine_b import Case, Clause, FnContract
from pyvc.symexec import LoopSpec, SBool, SFunc, SInt, SList, SObj, SOpaque, SSeq, SStr, STuple, SV

P = "openapi_python_client.parser.properties"


def _len(v):
    if isinstance(v, SSeq):
        return z3.Length(v.base)
    if isinstance(v, CountList):
        return v.count
    if isinstance(v, SList):
        return z3.IntVal(len(v.items))
    raise TypeError(f"length of {type(v).__name__}")


class _W:
    pass


def _retry_contract(kind):
    """kind: schemas | parameters | models"""
    Q = {"schemas": f"{P}:_create_schemas", "parameters": f"{P}:build_parameters", "models": f"{P}:_process_models"}[kind]

    def make(I):
        import openapi_python_client.parser.properties as props
        from openapi_python_client.parser.properties import schemas as S_
        from openapi_python_client.parser.errors import ParameterError, ParseError, PropertyError
        from openapi_python_client import schema as oai
        Z = I.Z
        W = _W()
        W.S = z3.IntVal(0)
        N = z3.Int("N")
        E0 = z3.Int("E0")
        I.assume(z3.And(N >= 0, E0 >= 0))
        W.N, W.E0 = N, E0
        errs = CountList("container.errors", E0)
        Cont = S_.Parameters if kind == "parameters" else S_.Schemas
        ErrCls = ParameterError if kind == "parameters" else PropertyError

        def container():
            f = {"errors": errs, "classes_by_reference": SOpaque("cbr"), "classes_by_name": SOpaque("cbn")}
            if kind != "parameters":
                f.update({"dependencies": SOpaque("deps"), "models_to_process": None})
            return SObj(Cont, f)
        cont = container()
        is_ref = z3.Function("item_is_reference", Z.JV, z3.BoolSort())
        item_name = z3.Function("item_name", Z.JV, z3.StringSort())

        def elem(v):
            if kind == "models":
                from pyvc.absdata import UnknownSet
                return SOpaque("model", cls=object, attrs={"name": SStr(item_name(v.t)), "roots": UnknownSet("model.roots"),
                                                           "class_info": SOpaque("ci", attrs={"name": SStr(I.fresh("cls", z3.StringSort()))})})
            if I.branch(is_ref(v.t)):
                data = SObj(oai.Reference, {"ref": SStr(I.fresh("ref", z3.StringSort()))})
            else:
                data = SOpaque("component data", cls=oai.Parameter if kind == "parameters" else oai.Schema)
            return STuple([SStr(item_name(v.t)), data])
        base0 = z3.Const("components", z3.SeqSort(Z.JV))
        I.assume(z3.Length(base0) == N)
        items0 = SSeq(base0, None, [elem])

        def new_error():
            if kind == "models" and I.branch_free():
                # an error about a reference: the code asks whether it points at the model itself (recursive allOf)
                return SObj(ErrCls, {"detail": None, "header": "", "data": SObj(oai.Reference, {"ref": SStr(I.fresh("eref", z3.StringSort()))}),
                                     "level": None})
            return SObj(ErrCls, {"detail": SStr(I.fresh("detail", z3.StringSort())), "header": "", "data": None, "level": None})

        def step(I2, a, k):
            if I2.branch_free():
                return new_error()
            W.S = W.S + 1
            c = k.get("schemas", k.get("parameters"))
            return SObj(Cont, dict(c.fields))          # an updated copy that shares the error list

        def parse_ref(I2, a, k):
            if I2.branch_free():
                return SObj(ParseError, {"detail": SStr(I2.fresh("detail", z3.StringSort())), "header": "", "data": None, "level": None})
            return SStr(I2.fresh("ref_path", z3.StringSort()))
        I.contracts[f"{P}.schemas:parse_reference_path"] = parse_ref
        I.contracts[f"{P}.schemas:update_schemas_with_data"] = step
        I.contracts[f"{P}.schemas:update_parameters_with_data"] = step
        I.contracts[f"{P}.model_property:process_model"] = step
        I.contracts[f"{P}:_process_model_errors"] = lambda I2, a, k: CountList("model errors", _len(a[0]))
        lists = {}

        def fresh_list():
            c = CountList(f"list{len(lists)}")
            lists[len(lists)] = c
            return c
        I.empty_list_hook = fresh_list

        def cur_errs(loc):
            return errs.count

        def final_count(loc):
            f = loc.get("final_model_errors")
            return f.count if isinstance(f, CountList) else z3.IntVal(0)

        def inv_outer(I2, loc, _):
            tp = _len(loc["to_process"])
            flag = I2.truth(loc["still_making_progress"])
            flag = z3.BoolVal(flag) if isinstance(flag, bool) else flag
            er = loc["latest_model_errors"] if kind == "models" else loc["errors"]
            return z3.And(W.S >= 0, errs.count >= E0, tp >= 0, final_count(loc) >= 0,
                          W.S + (errs.count - E0) + final_count(loc) + tp == N,
                          z3.Implies(z3.Not(flag), _len(er) == tp))

        def inv_inner(I2, loc, seen):
            T = _len(loc["to_process"])
            k = z3.Length(seen)
            flag = I2.truth(loc["still_making_progress"])
            flag = z3.BoolVal(flag) if isinstance(flag, bool) else flag
            nr = _len(loc["next_round"])
            er = loc["latest_model_errors"] if kind == "models" else loc["errors"]
            return z3.And(W.S >= 0, errs.count >= E0, nr >= 0, final_count(loc) >= 0,
                          W.S + (errs.count - E0) + final_count(loc) + nr + (T - k) == N,
                          _len(er) == nr,
                          nr + z3.If(flag, 1, 0) <= k)

        def h_bool(I2):
            return SBool(I2.fresh("progress", z3.BoolSort()))

        def h_list(I2, cur):
            if not isinstance(cur, CountList):
                cur = CountList("havocked list")
            cur.count = I2.fresh("n", z3.IntSort())
            I2.assume(cur.count >= 0)
            return cur

        def h_cont(I2, cur):
            errs.count = I2.fresh("E", z3.IntSort())
            W.S = I2.fresh("S", z3.IntSort())
            return SObj(Cont, dict(cont.fields))

        def h_to_process(I2):
            b = I2.fresh("to_process", z3.SeqSort(Z.JV))
            return SSeq(b, None, [elem])
        cname = "parameters" if kind == "parameters" else "schemas"
        err_list = "latest_model_errors" if kind == "models" else "errors"
        outer_havoc = {"still_making_progress": h_bool, err_list: h_list, "next_round": h_list, "to_process": h_to_process,
                       cname: h_cont}
        inner_havoc = {"still_making_progress": h_bool, err_list: h_list, "next_round": h_list, cname: h_cont}
        if kind == "models":
            outer_havoc["final_model_errors"] = h_list
            inner_havoc["final_model_errors"] = h_list
        I.loop_specs[(Q, 0)] = LoopSpec(inv_outer, outer_havoc, variant=lambda I2, loc: _len(loc["to_process"]))
        I.loop_specs[(Q, 1)] = LoopSpec(inv_inner, inner_havoc)
        config = SOpaque("config")
        if kind == "models":
            cont.fields["models_to_process"] = items0
            kw = dict(schemas=cont, config=config)
        else:
            components = SOpaque("components", cls=dict, attrs={"items": SFunc("model", lambda I2, a, k: items0)})
            kw = dict(components=components, config=config)
            kw[cname] = cont
        return SFunc("pyfunc", getattr(props, Q.split(":")[1])), [], kw, {"W": W, "errs": errs, "Cont": Cont}

    def accounting(ctx):
        W = ctx.inputs["W"]
        v = ctx.value
        if not (isinstance(v, SObj) and v.cls is ctx.inputs["Cont"]):
            return False
        e = v.fields["errors"]
        if not isinstance(e, CountList):
            return False
        return e.count - W.E0 == W.N - W.S

    clauses = [Clause("accounting", accounting,
                      statement="on return the container holds exactly one new diagnostic per component that was not registered "
                                "(|errors| - |errors before| == N - successes); termination by the variant |to_process|")]
    return FnContract(Q, [Case("any-number-of-components", make, clauses, raises=(), props=["C06", "C07", "C08"])])



def model_errors_contract():
    """_process_model_errors: one returned error per failed model (in order), and every root of every failed model is
    handed to _propogate_removal together with that model's error (generic model x generic root)."""
    Q = f"{P}:_process_model_errors"

    def make(I):
        import openapi_python_client.parser.properties as props
        from openapi_python_client.parser.errors import PropertyError
        Z = I.Z
        calls = []
        I.contracts[f"{P}:_propogate_removal"] = lambda I2, a, k: calls.append((k["root"], k["error"], k["schemas"]))
        base = z3.Const("model_errors", z3.SeqSort(Z.JV))
        roots_of = z3.Function("roots_of_model", Z.JV, z3.SeqSort(Z.JV))
        made = {}
        elems = []

        def elem(v):
            key = v.t.get_id()
            if key not in made:
                elems.append(v.t)
                err = SObj(PropertyError, {"detail": SStr(I.fresh("detail", z3.StringSort())) if I.branch_free() else None,
                                           "header": "", "data": None, "level": None})
                err.tag = v.t
                model = SOpaque("failed model", cls=object, attrs={"roots": SSeq(roots_of(v.t), None, [])})
                made[key] = STuple([model, err])
            return made[key]
        seq = SSeq(base, None, [elem])
        schemas = SOpaque("schemas")
        return SFunc("pyfunc", props._process_model_errors), [seq], {"schemas": schemas}, {"calls": calls, "base": base, "schemas": schemas,
                                                                                          "roots_of": roots_of, "elems": elems}

    def one_error_each(ctx):
        v = ctx.value
        return isinstance(v, SSeq) and z3.eq(v.base, ctx.inputs["base"]) and len(v.maps) == 2

    def propagated_clause(ctx):
        """the generic execution of the two loops (generic failed model, generic root of it) makes exactly one call:
        root = that root, error = that model's error, schemas = the argument; no call only if a loop had nothing to visit"""
        I = ctx.I
        calls = ctx.inputs["calls"]
        if len(calls) > 1:
            return False
        if not calls:
            if I.must(z3.Length(ctx.inputs["base"]) == 0):
                return True
            return any(I.must(z3.Length(ctx.inputs["roots_of"](t)) == 0) for t in ctx.inputs["elems"])
        root, err, sch = calls[0]
        if sch is not ctx.inputs["schemas"] or not isinstance(err, SObj) or getattr(err, "tag", None) is None or not isinstance(root, SV):
            return False
        # the root is an element of the root set of the model the error belongs to
        return z3.Contains(ctx.inputs["roots_of"](err.tag), z3.Unit(root.t))

    clauses = [Clause("one-error-per-failed-model", one_error_each,
                      statement="the result is the element-wise image of model_errors (one error per failed model, in order)"),
               Clause("every-root-propagated", propagated_clause,
                      statement="for every failed model and every root of it, _propogate_removal is called with that root, that "
                                "model's error and the schemas argument")]
    return FnContract(Q, [Case("any-number-of-failed-models", make, clauses, raises=(), props=["C06", "C07", "C08"])])


def all_contracts():
    return [_retry_contract("schemas"), _retry_contract("parameters"), _retry_contract("models"), model_errors_contract()]
