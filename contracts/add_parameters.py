"""Contract of Endpoint.add_parameters (C03: every declared parameter reaches the generated function in its location;
C20: resolved before de-duplication; C07: nothing dropped silently) for ANY number of declared parameters, by an
inductive invariant with two generic positions g < h.

The four parameter lists of the endpoint are known by the set of the names of their elements (pyvc.absdata.NamedList;
the `any(p for p in list if p.name == n)` idiom asks membership), `unique_parameters` is a set term over (name, location).
`parameter_from_reference`, `property_from_data`, `Property.validate_location` and
`Endpoint._check_parameters_for_conflicts` enter by capturing summaries (their own contracts are elsewhere).
A declared parameter is "effective" if it resolves to a parameter that has a schema.
Invariant (seen = the declarations visited without returning):
    p in {g, h} effective, p < |seen|   =>   name_p in names(list of location_p)   and   (name_p, location_p) in unique_parameters
    g, h effective, h < |seen|           =>   (name_g, location_g) != (name_h, location_h)
Clauses (result is not a ParseError):
    every-declared-parameter-present   each effective declared parameter is, under its wire name, in the list of its location
    duplicates-rejected                two effective declarations with the same (name, location) never both pass
    frame                              the endpoint argument itself is not modified (the function works on a copy)"""
from __future__ import annotations

import z3

from pyvc.absdata import GrowSet, NamedList, SymSet
from pyvc.engine_b import Case, Clause, FnContract
from pyvc.symexec import LoopSpec, SFunc, SList, SObj, SOpaque, SSeq, SStr, STuple, SV

Q = "openapi_python_client.parser.openapi:Endpoint.add_parameters"
LOCS = ["query", "path", "header", "cookie"]


def add_parameters_contract():
    def make(I):
        from openapi_python_client.parser import openapi as M
        from openapi_python_client.parser.errors import ParseError
        from openapi_python_client import schema as oai
        Z = I.Z
        S = z3.StringSort()
        W = type("W", (), {})()
        W.LN, mk, _ = z3.TupleSort("NameLoc", [S, S])
        nameF = z3.Function("declared_name", Z.JV, S)
        locF = z3.Function("declared_location", Z.JV, S)
        resolves = z3.Function("reference_resolves", Z.JV, z3.BoolSort())
        has_schema = z3.Function("has_schema", Z.JV, z3.BoolSort())
        W.nameF, W.locF, W.effective = nameF, locF, (lambda e: z3.And(resolves(e), has_schema(e)))
        loc_member = {l: getattr(oai.ParameterLocation, l.upper()) for l in LOCS}

        def enc_pair(I2, v):
            n, l = v.items
            lt = z3.StringVal(l.value) if hasattr(l, "value") else I2.to_str_term(l)
            return mk(I2.to_str_term(n), lt)
        lists0 = {l: NamedList(f"endpoint.{l}_parameters", z3.Const(f"names0_{l}", z3.SetSort(S))) for l in LOCS}
        endpoint = SObj(M.Endpoint, {"path": "/p", "method": "get", "description": None, "name": SStr(z3.Const("endpoint_name", S)),
                                     "requires_security": False, "tags": SList(), "summary": "", "relative_imports": GrowSet("relative_imports"),
                                     **{f"{l}_parameters": lists0[l] for l in LOCS}, "responses": SList(), "bodies": SList(), "errors": SList()})
        made = {}

        def elem(v):
            key = v.t.get_id()
            if key in made:
                return made[key]
            p = SOpaque("declaration", cls=object)
            p.term = v.t
            made[key] = p
            return p

        def resolved_param(t):
            # the Parameter a declaration stands for (inline or by reference): name / location / schema are functions of it
            which = None
            for l in LOCS:
                if I.branch(locF(t) == l):
                    which = l
                    break
            sch = SOpaque("schema") if I.branch(has_schema(t)) else None
            if sch is not None:
                sch.term = t
            attrs = {"name": SStr(nameF(t)), "param_in": loc_member[which], "required": SOpaque("required"),
                     "param_schema": sch}
            r = SOpaque("resolved parameter", cls=oai.Parameter, attrs=attrs)
            r.term = t
            return r

        def from_ref(I2, a, k):
            d = k["param"]
            if I2.branch(resolves(d.term)):
                return resolved_param(d.term)
            return SObj(ParseError, {"detail": "unresolved", "header": "", "data": None, "level": None})
        I.contracts["openapi_python_client.parser.properties.schemas:parameter_from_reference"] = from_ref

        W.current_ep, W.parsed_overridden = None, []

        def prop_from_data(I2, a, k):
            # ghost: was the schema of a declaration parsed although the operation already has a parameter of this name in this
            # location (an operation-level parameter overrides a path-item one: the overridden one must not even be looked at)
            t = getattr(k.get("data"), "term", None)
            if t is not None and W.current_ep is not None:
                if I2.branch(z3.IsMember(nameF(t), W.names_of(W.current_ep, locF(t)))):
                    W.parsed_overridden.append(t)
            if I2.branch_free():
                return STuple([SObj(ParseError, {"detail": "bad schema", "header": "", "data": None, "level": None}), k["schemas"]])
            ok_location = I2.branch_free()
            prop = SOpaque("property", cls=object, attrs={
                "name": k["name"],
                "validate_location": SFunc("model", lambda I3, a3, k3: None if ok_location else
                                           SObj(ParseError, {"detail": "location", "header": "", "data": None, "level": None})),
                "get_lazy_imports": SFunc("model", lambda I3, a3, k3: SOpaque("lazy imports")),
                "get_imports": SFunc("model", lambda I3, a3, k3: SOpaque("imports"))})
            return STuple([prop, SOpaque("schemas'")])
        I.contracts["openapi_python_client.parser.properties:property_from_data"] = prop_from_data
        holder = {}

        def conflicts(I2, a, k):
            holder["final"] = a[0]
            if I2.branch_free():
                return a[0]
            return SObj(ParseError, {"detail": "conflict", "header": "", "data": None, "level": None})
        I.contracts["openapi_python_client.parser.openapi:Endpoint._check_parameters_for_conflicts"] = conflicts
        base = z3.Const("declared", z3.SeqSort(Z.JV))
        g, h = z3.Int("g"), z3.Int("h")
        I.assume(z3.And(0 <= g, g < h, h < z3.Length(base)))
        I.assume(z3.And(*[z3.Or(*[locF(base[p]) == l for l in LOCS]) for p in (g, h)]))
        seq = SSeq(base, lambda x: z3.Or(*[locF(x) == l for l in LOCS]), [elem])
        data = SOpaque("data", attrs={"parameters": seq})
        uniq = SymSet("unique_parameters", W.LN, enc_pair)
        I.empty_set_hook = lambda: uniq
        W.base, W.g, W.h, W.mk = base, g, h, mk

        def names_of(ep, loc_term):
            e = z3.EmptySet(S)
            out = e
            for l in LOCS:
                out = z3.If(loc_term == l, ep.fields[f"{l}_parameters"].names, out)
            return out

        def facts(ep, uniq_term, n):
            parts = []
            for p in (g, h):
                e = base[p]
                parts.append(z3.Implies(z3.And(p < n, W.effective(e)),
                                        z3.And(z3.IsMember(nameF(e), names_of(ep, locF(e))),
                                               z3.IsMember(mk(nameF(e), locF(e)), uniq_term))))
            eg, eh = base[g], base[h]
            parts.append(z3.Implies(z3.And(h < n, W.effective(eg), W.effective(eh)),
                                    mk(nameF(eg), locF(eg)) != mk(nameF(eh), locF(eh))))
            return z3.And(*parts)
        W.facts, W.names_of = facts, names_of

        def inv(I2, loc, seen):
            # `endpoint` is the parameter name (interface); the set is the one the function made, whatever it is called
            return facts(loc["endpoint"], uniq.term, z3.Length(seen))

        def havoc_endpoint(I2, cur):
            W.current_ep = cur
            for l in LOCS:
                cur.fields[f"{l}_parameters"].names = I2.fresh(f"names_{l}", z3.SetSort(S))
            return cur

        I.loop_specs[(Q, 0)] = LoopSpec(inv, {"endpoint": havoc_endpoint, "schemas": lambda I2: SOpaque("schemas''")})
        kw = dict(endpoint=endpoint, data=data, schemas=SOpaque("schemas"), parameters=SOpaque("parameters"),
                  config=SOpaque("config"))
        return SFunc("pyfunc", M.Endpoint.add_parameters), [], kw, {"W": W, "endpoint": endpoint, "lists0": lists0, "holder": holder,
                                                                   "uniq": uniq, "names0": {l: lists0[l].names for l in LOCS}}

    def _result_endpoint(ctx):
        r = ctx.value.items[0]
        return r if isinstance(r, SObj) and r.cls.__name__ == "Endpoint" else None

    def present(ctx):
        W = ctx.inputs["W"]
        ep = _result_endpoint(ctx)
        if ep is None:
            return True
        return W.facts(ep, ctx.inputs["uniq"].term, z3.Length(W.base))

    def duplicates(ctx):
        W = ctx.inputs["W"]
        ep = _result_endpoint(ctx)
        if ep is None:
            return True
        eg, eh = W.base[W.g], W.base[W.h]
        return z3.Not(z3.And(W.effective(eg), W.effective(eh), W.nameF(eg) == W.nameF(eh), W.locF(eg) == W.locF(eh)))

    def frame(ctx):
        i = ctx.inputs
        ep0 = i["endpoint"]
        ok = all(ep0.fields[f"{l}_parameters"] is i["lists0"][l] and z3.eq(i["lists0"][l].names, i["names0"][l]) for l in LOCS)
        ep = _result_endpoint(ctx)
        return ok and (ep is None or ep is not ep0)

    def overridden(ctx):
        return not ctx.inputs["W"].parsed_overridden

    clauses = [
        Clause("overridden-declaration-not-parsed", overridden,
               statement="the schema of a declared parameter is only parsed if the endpoint has no parameter of that name in that "
                         "location yet: a path-item parameter the operation overrides is skipped before it can fail (so a bad "
                         "overridden declaration never drops the operation)", props=["C08", "C03"]),
        Clause("every-declared-parameter-present", present,
               statement="if an Endpoint is returned, every declared parameter that resolves and has a schema is, under its wire "
                         "name, in the parameter list of its declared location (generic positions g < h)"),
        Clause("duplicates-rejected", duplicates,
               statement="two declarations with the same (name, location) never both pass: the result is a ParseError"),
        Clause("argument-not-modified", frame, statement="the endpoint argument is not modified; the result is a copy"),
    ]
    return FnContract(Q, [Case("any-number-of-declarations", make, clauses, raises=(), props=["C03", "C20", "C07", "C08"])])
