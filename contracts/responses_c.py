"""Contract of responses.response_from_data (C04 parser side, C20 reference = inline, C07 unsupported media types are
diagnosed) for a response with ANY number of media types (for/else loop with `break`, inductive invariant).

Media types are elements e of a symbolic sequence; `_source_by_content_type` enters by its contract summary (its own table
is verified in contracts/responses_b.py): source_code(e) in {none, json, text, bytes}.
Invariant (seen = the media types examined without a usable source):  g < |seen|  =>  source_code(e_g) == none.
Clauses:
  first-supported-media-type   a Response built from content has the source of the FIRST media type with a usable source and
                               its schema is the one handed to property_from_data (or, without schema, the untyped response)
                               (no usable media type => never a Response: the for/else path must end in a ParseError)
  reference-equals-inline      a $ref to components/responses is replaced by the component itself before anything else: the
                               same code then runs on it (result.data is the component); dangling / foreign / nested
                               references => ParseError; schemas returned unchanged on every error"""
from __future__ import annotations

import z3

from pyvc.absdata import LazyMap
from pyvc.engine_b import Case, Clause, FnContract
from pyvc.symexec import LoopSpec, SFunc, SObj, SOpaque, SSeq, SStr, STuple, SV

Q = "openapi_python_client.parser.responses:response_from_data"
P = "openapi_python_client.parser"


class _Content(SOpaque):
    def __init__(self, name, base, seq):
        super().__init__(name, cls=dict)
        self.base, self.seq = base, seq
        self.attrs["items"] = SFunc("model", lambda I, a, k: seq)

    @property
    def nonempty(self):
        return z3.Length(self.base) > 0


def response_contract():
    def make(I, shape):
        from openapi_python_client.parser import responses as R
        from openapi_python_client.parser.errors import ParseError, PropertyError
        from openapi_python_client import schema as oai
        from http import HTTPStatus
        Z = I.Z
        W = type("W", (), {})()
        src_code = z3.Function("source_code", Z.JV, z3.IntSort())          # 0 none, 1 json, 2 text, 3 bytes
        has_schema = z3.Function("media_type_has_schema", Z.JV, z3.BoolSort())
        sources = [None, R.JSON_SOURCE, R.TEXT_SOURCE, R.BYTES_SOURCE]
        base = z3.Const("content", z3.SeqSort(Z.JV))
        g = z3.Int("g")
        I.assume(z3.And(0 <= g, g < z3.Length(base)) if shape != "no-content" else z3.Length(base) == 0)
        made = {}

        def elem(v):
            k = v.t.get_id()
            if k not in made:
                ct = SOpaque("content type", cls=str)
                ct.term = v.t
                schema = SOpaque("media type schema") if I.branch(has_schema(v.t)) else None
                if schema is not None:
                    schema.term = v.t
                mt = SOpaque("media type", attrs={"media_type_schema": schema})
                made[k] = STuple([ct, mt])
            return made[k]
        seq = SSeq(base, lambda x: z3.And(src_code(x) >= 0, src_code(x) <= 3), [elem])
        content = _Content("content", base, seq)
        W.examined = []

        def source_of(I2, a, k):
            ct = a[0]
            W.examined.append((ct.term, getattr(I2, "loop_index", None)))
            for i in (0, 1, 2):
                if I2.branch(src_code(ct.term) == i):
                    return sources[i]
            return sources[3]
        I.contracts[f"{P}.responses:_source_by_content_type"] = source_of
        W.prop_calls = []

        def prop_from_data(I2, a, k):
            W.prop_calls.append(k)
            if I2.branch_free():
                return STuple([SObj(PropertyError, {"detail": "bad", "header": "", "data": None, "level": None}), k["schemas"]])
            W.prop = SOpaque("response property", cls=object)
            W.schemas2 = SOpaque("schemas'")
            return STuple([W.prop, W.schemas2])
        I.contracts[f"{P}.properties:property_from_data"] = prop_from_data
        local = z3.Function("ref_is_local", z3.StringSort(), z3.BoolSort())
        frag = z3.Function("ref_fragment", z3.StringSort(), z3.StringSort())

        def parse_ref(I2, a, k):
            t = I2.to_str_term(a[0])
            if I2.branch(local(t)):
                return SStr(frag(t))
            return SObj(ParseError, {"detail": "remote", "header": "", "data": None, "level": None})
        I.contracts[f"{P}.properties.schemas:parse_reference_path"] = parse_ref
        simple = z3.Function("reference_simple_name", z3.StringSort(), z3.StringSort())
        I.contracts[f"{P}.properties.schemas:get_reference_simple_name"] = lambda I2, a, k: SStr(simple(I2.to_str_term(a[0])))
        component = SObj(oai.Response, {"content": content, "description": SStr(z3.Const("description", z3.StringSort()))})
        W.component = component
        if shape == "reference":
            data = SObj(oai.Reference, {"ref": SStr(z3.Const("ref", z3.StringSort()))})

            def table_value(I2, k):
                c = I2.choose(2)
                return component if c == 0 else SObj(oai.Reference, {"ref": "nested"})
            responses = LazyMap("components.responses", table_value)
        else:
            data = component
            responses = LazyMap("components.responses", lambda I2, k: SOpaque("unused"))

        def inv(I2, loc, seen):
            return z3.Implies(g < z3.Length(seen), src_code(base[g]) == 0)
        I.loop_specs[(Q, 0)] = LoopSpec(inv, {"source": lambda I2: None, "schema_data": lambda I2: None})
        schemas = SOpaque("schemas")
        kw = dict(status_code=HTTPStatus.OK, data=data, schemas=schemas, responses=responses,
                  parent_name=SStr(z3.Const("parent_name", z3.StringSort())), config=SOpaque("config", attrs={"field_prefix": "field_"}))
        return SFunc("pyfunc", R.response_from_data), [], kw, {"W": W, "data": data, "schemas": schemas, "base": base, "g": g,
                                                               "src": src_code, "has_schema": has_schema, "sources": sources,
                                                               "shape": shape, "responses": responses, "R": R}

    def _resp(ctx):
        r = ctx.value.items[0]
        return r if isinstance(r, SObj) and r.cls.__name__ == "Response" else None

    def first_supported(ctx):
        i, W = ctx.inputs, ctx.inputs["W"]
        r = _resp(ctx)
        if r is None:
            return True
        if r.fields["data"] is not W.component:
            return False
        src = r.fields["source"]
        if src is i["R"].NONE_SOURCE and not W.examined:
            return z3.Length(i["base"]) == 0                       # no content at all: the untyped response
        if not W.examined:
            return False
        term, idx = W.examined[-1]
        if idx is None:
            return False
        code = i["sources"].index(src) if src in i["sources"] else None
        conds = [z3.Implies(i["g"] < idx, i["src"](i["base"][i["g"]]) == 0), term == i["base"][idx]]
        if src is i["R"].NONE_SOURCE:
            # usable media type without schema: untyped response, nothing handed to property_from_data
            conds += [i["src"](term) != 0, z3.Not(i["has_schema"](term)), z3.BoolVal(not W.prop_calls)]
        else:
            if code is None or len(W.prop_calls) != 1 or r.fields["prop"] is not W.prop:
                return False
            sd = W.prop_calls[0]["data"]
            conds += [i["src"](term) == code, i["has_schema"](term), z3.BoolVal(getattr(sd, "term", None) is not None and z3.eq(sd.term, term))]
        return z3.And(*conds)

    def frame(ctx):
        i, W = ctx.inputs, ctx.inputs["W"]
        r, s = ctx.value.items
        if _resp(ctx) is not None and W.prop_calls and r.fields["prop"] is getattr(W, "prop", None):
            return s is W.schemas2
        if isinstance(r, SObj) and r.cls.__name__ in ("ParseError",):
            return s is i["schemas"]
        return True

    def shape_ok(ctx):
        r = ctx.value.items[0]
        return isinstance(r, SObj) and r.cls.__name__ in ("Response", "ParseError", "PropertyError")

    clauses = [
        Clause("result-shape", shape_ok, statement="the result is a Response or a ParseError / PropertyError"),
        Clause("first-supported-media-type", first_supported,
               statement="a Response carries the component itself as data; its source is that of the first media type with a usable "
                         "source (all earlier ones unusable); with a schema, exactly that schema is handed to property_from_data and "
                         "the resulting property is used; without, the untyped response"),
        Clause("schemas-frame", frame, statement="ParseError => schemas returned unchanged; success => the schemas of property_from_data"),
    ]
    return FnContract(Q, [Case(k, (lambda I, k=k: make(I, k)), clauses, raises=(), props=["C04", "C20", "C07"])
                          for k in ("inline", "reference", "no-content")])
