"""cli._process_config (C16: the command-line options other than --config do not influence how the configuration file is read;
C06: contradictory source options end in exit status 1, never an exception of another kind).

    pre   url / path / config_path: None or a value (truthiness symbolic for url: "" is falsy); file_encoding a string whose codec
          exists or not (codecs.getencoder: assumed contract, may raise LookupError); meta_type / overwrite / output_path opaque
    post  exactly one of url, path given  =>  returns Config.from_sources(config_file, meta_type, source, file_encoding, overwrite,
                                             output_path=output_path) with source that one, provided the codec exists
          both or neither                =>  typer.Exit(code=1)
          unknown codec                  =>  typer.Exit(code=1)
          config_path given              =>  ConfigFile.load_from_path is called with the path and NOTHING else (in particular not
                                             the file encoding of the generated files, nor any other CLI option); any failure
                                             of it becomes typer.BadParameter
          no config_path                 =>  the default ConfigFile()
Callees by summary: ConfigFile.load_from_path (may raise anything), Config.from_sources (its own contract: config_c).
"""
from __future__ import annotations

import z3

from pyvc.engine_b import Case, Clause, FnContract
from pyvc.symexec import SBool, SFunc, SObj, SOpaque, SStr

Q = "openapi_python_client.cli:_process_config"


def process_config_contract():
    def make(I):
        import codecs
        import openapi_python_client.cli as cli
        from openapi_python_client import config as C
        S = z3.StringSort()
        I.lib = dict(I.lib)
        codec_ok = z3.Const("codec_exists", z3.BoolSort())
        seen = {"getencoder": [], "load": [], "from_sources": []}

        def getencoder(I2, a, k):
            seen["getencoder"].append(list(a))
            if I2.branch(codec_ok):
                return SOpaque("encoder", cls=object)
            I2.raise_(LookupError, "unknown encoding")
        I.lib[codecs.getencoder] = getencoder
        loaded = SObj(C.ConfigFile, {})

        def load_from_path(I2, a, k):
            seen["load"].append((list(a), dict(k)))
            if I2.branch_free():
                return loaded
            I2.raise_(ValueError if I2.branch_free() else OSError, "cannot read the configuration file")
        I.contracts["openapi_python_client.config:ConfigFile.load_from_path"] = load_from_path
        result = SOpaque("Config", cls=object)

        def from_sources(I2, a, k):
            seen["from_sources"].append((list(a), dict(k)))
            return result
        I.contracts["openapi_python_client.config:Config.from_sources"] = from_sources
        url = None if I.branch_free() else SStr(z3.Const("url", S))
        path = None if I.branch_free() else SOpaque("path", cls=object)
        if path is not None:
            path.nonempty = True
        config_path = None if I.branch_free() else SOpaque("config_path", cls=object)
        if config_path is not None:
            config_path.nonempty = True
        enc = SStr(z3.Const("file_encoding", S))
        kw = dict(url=url, path=path, config_path=config_path, meta_type=SOpaque("meta_type", cls=object), file_encoding=enc,
                  overwrite=SBool(z3.Const("overwrite", z3.BoolSort())), output_path=SOpaque("output_path", cls=object))
        return SFunc("pyfunc", cli._process_config), [], kw, {"seen": seen, "kw": kw, "codec_ok": codec_ok, "loaded": loaded,
                                                              "result": result, "C": C}

    def _url_given(i):
        u = i["kw"]["url"]
        return z3.BoolVal(False) if u is None else z3.Length(u.t) > 0

    def outcome(ctx):
        i = ctx.inputs
        kw = i["kw"]
        url_t = _url_given(i)
        path_given = kw["path"] is not None
        one = z3.Xor(url_t, z3.BoolVal(path_given))
        load_fails = ctx.kind == "raise" and ctx.value.cls.__name__ == "BadParameter"
        if ctx.kind == "raise":
            name = ctx.value.cls.__name__
            if name == "Exit":
                if ctx.value.fields.get("kw_code") != 1:
                    return False
                return z3.Or(z3.Not(one), z3.Not(i["codec_ok"]))
            if name == "BadParameter":
                return z3.And(one, i["codec_ok"], z3.BoolVal(kw["config_path"] is not None and len(i["seen"]["load"]) == 1))
            return False
        # returned: the Config built from exactly these sources
        calls = i["seen"]["from_sources"]
        if len(calls) != 1 or ctx.value is not i["result"]:
            return False
        a, k = calls[0]
        names = ["config_file", "meta_type", "document_source", "file_encoding", "overwrite", "output_path"]
        got = dict(zip(names, a))
        got.update(k)
        if set(got) != set(names):
            return False
        if got["meta_type"] is not kw["meta_type"] or got["file_encoding"] is not kw["file_encoding"] \
                or got["overwrite"] is not kw["overwrite"] or got["output_path"] is not kw["output_path"]:
            return False
        src = got["document_source"]
        src_ok = z3.And(url_t, z3.BoolVal(src is kw["url"])) if not path_given else z3.And(z3.Not(url_t), z3.BoolVal(src is kw["path"]))
        cf = got["config_file"]
        if kw["config_path"] is None:
            cf_ok = isinstance(cf, SObj) and cf.cls is i["C"].ConfigFile and cf is not i["loaded"] and not i["seen"]["load"]
        else:
            cf_ok = cf is i["loaded"]
        return z3.And(one, i["codec_ok"], src_ok, z3.BoolVal(bool(cf_ok)))

    def config_file_read_by_path_only(ctx):
        i = ctx.inputs
        for a, k in i["seen"]["load"]:
            vals = list(a) + list(k.values())
            if len(vals) != 1 or vals[0] is not i["kw"]["config_path"] or (k and set(k) != {"path"}):
                return False
        if i["kw"]["config_path"] is None and i["seen"]["load"]:
            return False
        return True

    clauses = [
        Clause("sources-and-exit-status", outcome, any_outcome=True,
               statement="exactly one of url / path and a known codec: returns Config.from_sources(config file, meta_type, that source, "
                         "file_encoding, overwrite, output_path=output_path); otherwise typer.Exit(code=1); an unreadable "
                         "configuration file: typer.BadParameter", props=["C16", "C06"]),
        Clause("config-file-read-by-path-only", config_file_read_by_path_only, any_outcome=True,
               statement="ConfigFile.load_from_path receives the configuration path and nothing else: no other command-line option "
                         "(file encoding of the generated files, overwrite, meta, output path) influences how the configuration is read",
               props=["C16"]),
    ]
    return FnContract(Q, [Case("all-option-combinations", make, clauses, raises=(Exception,), props=["C16", "C06"])])
