"""C17 normalisation lemmas (Engine B): Schema.handle_nullable turns the 3.0 `nullable: true` spelling into the 3.1
spelling (a null member) and leaves non-nullable schemas alone; single-reference wrappers are passed through to the
reference with the wrapper as `parent` (dispatch contract)."""
from __future__ import annotations

import z3

from pyvc.engine_b import Case, Clause, FnContract
from pyvc.symexec import SBool, SFunc, SList, SObj, SOpaque, SStr

Q = "openapi_python_client.schema.openapi_schema_pydantic.schema:Schema.handle_nullable"


def handle_nullable_contract():
    def make(I):
        from openapi_python_client.schema.openapi_schema_pydantic.schema import Schema
        from openapi_python_client.schema import DataType
        I.lib = dict(I.lib)
        I.lib[Schema] = lambda I2, a, k: SOpaque("Schema(...)", attrs=dict(k), cls=Schema)
        nullable = None if I.branch_free() else (True if I.branch_free() else False)
        shape = ["str", "list-without-null", "list-with-null", "oneOf", "anyOf", "allOf", "str+oneOf", "str+anyOf", "str+allOf", "bare"]
        k = 0
        while k < len(shape) - 1 and not I.branch_free():
            k += 1
        sh = shape[k]
        member = SOpaque("member", cls=Schema, attrs={"type": DataType.STRING})
        t = None
        oneOf, anyOf, allOf = SList(), SList(), SList()
        if sh == "str":
            t = DataType.INTEGER
        elif sh == "list-without-null":
            t = SList([DataType.STRING, DataType.INTEGER])
        elif sh == "list-with-null":
            t = SList([DataType.STRING, DataType.NULL])
        elif sh == "oneOf":
            oneOf = SList([member])
        elif sh == "anyOf":
            anyOf = SList([member])
        elif sh == "allOf":
            allOf = SList([member])
        elif sh.startswith("str+"):
            # an explicit type NEXT TO a composition keyword: `type: T, nullable: true` is the 3.0 spelling of `type: [T, null]`
            # whatever else the schema says
            t = DataType.OBJECT
            if sh.endswith("oneOf"):
                oneOf = SList([member])
            elif sh.endswith("anyOf"):
                anyOf = SList([member])
            else:
                allOf = SList([member])
        s = SObj(Schema, {"nullable": nullable, "type": t, "oneOf": oneOf, "anyOf": anyOf, "allOf": allOf})
        return SFunc("pyfunc", Schema.handle_nullable), [s], {}, {"s": s, "nullable": nullable, "shape": sh, "member": member, "t": t}

    def admits_null(s):
        from openapi_python_client.schema import DataType
        t = s.fields["type"]
        if isinstance(t, SList) and any(x is DataType.NULL for x in t.items):
            return True
        for key in ("oneOf", "anyOf"):
            for m in s.fields[key].items:
                if isinstance(m, SOpaque) and m.attrs.get("type") is DataType.NULL:
                    return True
        return False

    def post(ctx):
        i = ctx.inputs
        s = i["s"]
        if ctx.value is not s:
            return False
        sh = i["shape"]
        if not i["nullable"]:
            # untouched
            return (s.fields["type"] is i["t"]) and len(s.fields["oneOf"].items) == (1 if sh.endswith("oneOf") else 0) and \
                len(s.fields["anyOf"].items) == (1 if sh.endswith("anyOf") else 0) and len(s.fields["allOf"].items) == (1 if sh.endswith("allOf") else 0) and \
                (not isinstance(i["t"], SList) or len(i["t"].items) == 2)
        if sh == "bare":
            return True        # no type, no combinator: the empty schema admits null already
        if not admits_null(s):
            return False
        # nothing of the original spelling is lost: the non-null alternatives are all still there
        if sh == "str":
            from openapi_python_client.schema import DataType
            return isinstance(s.fields["type"], SList) and s.fields["type"].items[0] is DataType.INTEGER and len(s.fields["type"].items) == 2
        if sh.startswith("str+"):
            from openapi_python_client.schema import DataType
            key = sh.split("+")[1]
            ty = s.fields["type"]
            return isinstance(ty, SList) and len(ty.items) == 2 and ty.items[0] is DataType.OBJECT and ty.items[1] is DataType.NULL and \
                all(len(s.fields[k2].items) == (1 if k2 == key else 0) for k2 in ("oneOf", "anyOf", "allOf")) and \
                s.fields[key].items[0] is i["member"]
        if sh.startswith("list"):
            return len(s.fields["type"].items) == (3 if sh == "list-without-null" else 2)
        if sh in ("oneOf", "anyOf"):
            return any(m is i["member"] for m in s.fields[sh].items) and len(s.fields[sh].items) == 2
        if sh == "allOf":
            inner = [m for m in s.fields["oneOf"].items if isinstance(m, SOpaque) and "allOf" in m.attrs]
            return len(inner) == 1 and any(x is i["member"] for x in inner[0].attrs["allOf"].items) and not s.fields["allOf"].items
        return False
    cl = Clause("nullable-becomes-null-member", post,
                statement="nullable true => the schema gets a null alternative in the 3.1 spelling (type list / oneOf / anyOf "
                          "member; allOf becomes oneOf[null, allOf]) and keeps all other alternatives; otherwise unchanged",
                props=["C17", "C10"])
    return FnContract(Q, [Case("all-shapes", make, [cl], raises=(), props=["C17", "C10"])])


def get_document_contract():
    """URL source: the loader is chosen by the media type of the Content-Type header WITHOUT its parameters, i.e. exactly
    as for a file of that type (C17 file == URL); network errors become a GeneratorError (C06)"""
    def make(I):
        import httpx
        import openapi_python_client as opc
        from pyvc.absdata import LazyMap
        S = z3.StringSort()
        captured = []
        header = SStr(z3.Const("content_type_header", S))
        headers = LazyMap("response.headers", None, [("content-type", header)] if I.branch_free() else [], complete=True)
        content = SOpaque("response.content", cls=bytes)
        resp = SOpaque("response", attrs={"content": content, "headers": headers})

        def get(I2, a, k):
            if I2.branch_free():
                I2.raise_(httpx.HTTPError, "network")
            return resp
        I.lib = dict(I.lib)
        I.lib[httpx.get] = get
        import mimetypes
        guessed = SStr(z3.Const("guessed_type", S))
        I.lib[mimetypes.guess_type] = lambda I2, a, k: __import__("pyvc.symexec", fromlist=["STuple"]).STuple([guessed, None])

        def load(I2, a, k):
            captured.append((a[0] if a else k.get("data"), a[1] if len(a) > 1 else k.get("content_type")))
            return SOpaque("loaded document")
        I.contracts["openapi_python_client:_load_yaml_or_json"] = load
        url = SStr(z3.Const("url", S))
        return SFunc("pyfunc", opc._get_document), [], {"source": url, "timeout": 5}, {
            "captured": captured, "header": header, "headers": headers, "content": content, "guessed": guessed}

    def post(ctx):
        I = ctx.I
        i = ctx.inputs
        from openapi_python_client.parser.errors import GeneratorError
        cap = i["captured"]
        if not cap:
            return isinstance(ctx.value, SObj) and ctx.value.cls is GeneratorError      # network failure
        data, ct = cap[0]
        if data is not i["content"]:
            return False
        if i["headers"].entries:
            S = z3.StringSort()
            want = z3.Function("str_before_first", S, S, S)(i["header"].t, z3.StringVal(";"))
            return I.to_str_term(ct) == want
        return ct is i["guessed"]
    cl = Clause("loader-chosen-by-bare-media-type", post,
                statement="the document bytes are loaded with content_type == Content-Type header up to the first ';' (else the "
                          "type guessed from the URL); HTTP errors give a GeneratorError", props=["C17", "C06"])

    def make_path(I):
        import mimetypes
        import openapi_python_client as opc
        from pyvc.symexec import STuple
        S = z3.StringSort()
        captured = []
        content = SOpaque("file bytes", cls=bytes)
        guessed = SStr(z3.Const("guessed_type", S))
        I.lib = dict(I.lib)
        I.lib[mimetypes.guess_type] = lambda I2, a, k: STuple([guessed, None])
        state = {"read": 0}

        def read_bytes(I2, a, k):
            state["read"] += 1
            if I2.branch_free():
                # the file system may refuse: missing file, a directory, no permission (all subclasses of OSError)
                I2.raise_([FileNotFoundError, IsADirectoryError, PermissionError][I2.choose(3)], "cannot read")
            return content
        uri = SOpaque("absolute path", cls=object, attrs={"as_uri": SFunc("model", lambda I2, a, k: SStr(z3.Const("file_uri", S)))})
        source = SOpaque("path", cls=__import__("pathlib").PurePosixPath,
                         attrs={"read_bytes": SFunc("model", read_bytes), "absolute": SFunc("model", lambda I2, a, k: uri)})

        def load(I2, a, k):
            captured.append((a[0] if a else k.get("data"), a[1] if len(a) > 1 else k.get("content_type")))
            return SOpaque("loaded document")
        I.contracts["openapi_python_client:_load_yaml_or_json"] = load
        return SFunc("pyfunc", opc._get_document), [], {"source": source, "timeout": 5}, {
            "captured": captured, "content": content, "guessed": guessed, "state": state}

    def post_path(ctx):
        i = ctx.inputs
        from openapi_python_client.parser.errors import GeneratorError
        cap = i["captured"]
        if i["state"]["read"] != 1:
            return False
        if not cap:
            return isinstance(ctx.value, SObj) and ctx.value.cls is GeneratorError      # the file could not be read
        data, ct = cap[0]
        return data is i["content"] and ct is i["guessed"]
    cl2 = Clause("unreadable-path-is-a-diagnostic", post_path,
                 statement="a path source is read once; if the file system refuses (missing file, directory, permissions) the "
                           "result is a GeneratorError, otherwise the bytes are loaded with the media type guessed from the path",
                 props=["C06", "C17"])
    return FnContract("openapi_python_client:_get_document", [Case("url-source", make, [cl], raises=(), props=["C17", "C06"]),
                                                             Case("path-source", make_path, [cl2], raises=(), props=["C06", "C17"])])


def load_contract():
    """_load_yaml_or_json (C06: any bytes are a document or a diagnostic; C17: the JSON media type selects the JSON reader,
    everything else the YAML reader).  Library behaviour assumed: bytes.decode() returns text or raises UnicodeDecodeError;
    json.loads returns data or raises json.JSONDecodeError; ruamel's YAML().load returns data or raises a YAMLError."""
    def make(I):
        import json
        import openapi_python_client as opc
        from ruamel.yaml import YAML
        from ruamel.yaml.error import YAMLError
        S = z3.StringSort()
        calls = []
        data = SOpaque("data", cls=bytes)

        def decode(I2, a, k):
            if I2.branch_free():
                I2.raise_(UnicodeDecodeError, "invalid start byte")
            return SStr(z3.Const("decoded_text", S))
        data.getattr = lambda I2, name: SFunc("model", decode) if name == "decode" else (_ for _ in ()).throw(Unsupported(name))

        def loads(I2, a, k):
            calls.append(("json", a[0]))
            if I2.branch_free():
                I2.raise_(json.JSONDecodeError, "Expecting value")
            return SOpaque("json document")

        def yaml_ctor(I2, a, k):
            def load(I3, a3, k3):
                calls.append(("yaml", a3[0]))
                if I3.branch_free():
                    I3.raise_(YAMLError, "bad yaml")
                return SOpaque("yaml document")
            return SOpaque("YAML()", attrs={"load": SFunc("model", load)})
        I.lib = dict(I.lib)
        I.lib[json.loads] = loads
        I.lib[YAML] = yaml_ctor
        ct = [None, "application/json", SStr(z3.Const("content_type", S))][I.choose(3)]
        if isinstance(ct, SStr):
            I.assume(ct.t != z3.StringVal("application/json"))
        return SFunc("pyfunc", opc._load_yaml_or_json), [data, ct], {}, {"calls": calls, "ct": ct, "data": data}

    def post(ctx):
        from openapi_python_client.parser.errors import GeneratorError
        i = ctx.inputs
        v = ctx.value
        is_json = i["ct"] == "application/json"
        kinds = [c[0] for c in i["calls"]]
        if any(k != ("json" if is_json else "yaml") for k in kinds) or len(kinds) > 1:
            return False
        if isinstance(v, SObj) and v.cls is GeneratorError:
            return True
        if not kinds:
            return False                     # no reader ran and no diagnostic
        if not is_json and i["calls"][0][1] is not i["data"]:
            return False
        return isinstance(v, SOpaque) and v.name == ("json document" if is_json else "yaml document")

    cl = Clause("document-or-diagnostic", post,
                statement="the JSON media type selects the JSON reader, anything else the YAML reader; the result is what that reader "
                          "returned or a GeneratorError -- whatever the reader or the decoding of the bytes raises",
                props=["C06", "C17"])
    return FnContract("openapi_python_client:_load_yaml_or_json", [Case("any-bytes", make, [cl], raises=(), props=["C06", "C17"])])
