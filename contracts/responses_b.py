"""C04 parser side: media type -> response source table, status code parsing with per-response error downgrade."""
from __future__ import annotations

import z3

from pyvc.engine_b import Case, Clause, FnContract
from pyvc.symexec import SBool, SFunc, SList, SObj, SOpaque, SSet, SStr, STuple

R = "openapi_python_client.parser.responses"
O = "openapi_python_client.parser.openapi"


def source_table_contract():
    def make(I):
        import openapi_python_client.parser.responses as M
        S = z3.StringSort()
        parsed = SStr(z3.Const("parsed_content_type", S))
        unparseable = I.branch_free()
        I.contracts["openapi_python_client.utils:get_content_type"] = lambda I2, a, k: (None if unparseable else parsed)
        ct = SStr(z3.Const("content_type", S))
        return SFunc("pyfunc", M._source_by_content_type), [ct, SOpaque("config")], {}, {"parsed": parsed, "unparseable": unparseable, "M": M}

    def post(ctx):
        i = ctx.inputs
        M = i["M"]
        v = ctx.value
        if i["unparseable"]:
            return v is None
        p = i["parsed"].t
        S = z3.StringVal
        is_text = z3.PrefixOf(S("text/"), p)
        is_json = z3.Or(p == S("application/json"), z3.SuffixOf(S("+json"), p))
        is_bytes = p == S("application/octet-stream")
        if v is M.TEXT_SOURCE:
            return is_text
        if v is M.JSON_SOURCE:
            return z3.And(z3.Not(is_text), is_json)
        if v is M.BYTES_SOURCE:
            return z3.And(z3.Not(is_text), is_bytes)
        if v is None:
            return z3.Not(z3.Or(is_text, is_json, is_bytes))
        return False
    cl = Clause("media-type-table", post,
                statement="text/* -> text, application/json and *+json -> json, application/octet-stream -> bytes, anything else "
                          "(or an unparseable media type) -> None -- decided on what get_content_type returns for the document's "
                          "string (i.e. after content_type_overrides), never on the raw string", props=["C04", "C16"])
    return FnContract(f"{R}:_source_by_content_type", [Case("any", make, [cl], raises=(), props=["C04", "C16"])])


def add_responses_contract():
    def make(I):
        import openapi_python_client.parser.openapi as M
        from openapi_python_client.parser.errors import ParseError
        S = z3.StringSort()
        log = []

        def rfd(I2, a, k):
            if I2.branch_free():
                prop = SObj(StringProperty, {"name": "response_n", "required": True, "default": None, "python_name": "response_n",
                                             "description": None, "example": None})
                r = SObj(RS.Response, {"prop": prop, "status_code": k["status_code"], "source": SOpaque("source"), "data": k["data"]})
                log.append(("ok", k["status_code"], r, k["data"], k.get("parent_name")))
                return STuple([r, k["schemas"]])
            e = SObj(ParseError, {"detail": None if I2.branch_free() else SStr(I2.fresh("detail", S)), "data": SOpaque("d"),
                                  "level": None, "header": ""})
            log.append(("err", k["status_code"], e, k["data"], k.get("parent_name")))
            return STuple([e, k["schemas"]])
        I.contracts[f"{R}:response_from_data"] = rfd
        from openapi_python_client.parser.properties.string import StringProperty
        from openapi_python_client.parser import responses as RS
        from openapi_python_client import schema as oai
        for m in ("get_imports", "get_lazy_imports"):
            fn = getattr(StringProperty, m)
            I.contracts[f"{fn.__module__}:{fn.__qualname__}"] = lambda I2, a, k: SSet()
        codes = [SStr(z3.Const(f"code{i}", S)) for i in range(2)]
        # the two statuses are described inline, or by two references -- to the same component or to different ones
        shape = 0 if I.branch_free() else (1 if I.branch_free() else 2)
        if shape == 0:
            datas = [SObj(oai.Response, {"description": f"d{i}", "content": None, "headers": None, "links": None}) for i in range(2)]
        else:
            datas = [SObj(oai.Reference, {"ref": "#/components/responses/Err" if shape == 1 or i == 0 else "#/components/responses/Other"})
                     for i in range(2)]
        items = SList([STuple([c, d]) for c, d in zip(codes, datas)])
        data = SOpaque("responses", attrs={"items": SFunc("model", lambda I2, a, k: items)})
        ep = SObj(M.Endpoint, {"path": "/p", "method": "get", "description": None, "name": "n", "requires_security": False, "tags": SList(),
                               "summary": "", "relative_imports": SSet(), "query_parameters": SList(), "path_parameters": SList(),
                               "header_parameters": SList(), "cookie_parameters": SList(), "responses": SList(), "bodies": SList(),
                               "errors": SList()})
        kw = dict(endpoint=ep, data=data, schemas=SOpaque("schemas"), responses=SOpaque("component responses"), config=SOpaque("config"))
        return SFunc("pyfunc", M.Endpoint._add_responses), [], kw, {"ep": ep, "codes": codes, "log": log, "datas": datas}

    def post(ctx):
        I = ctx.I
        i = ctx.inputs
        out = ctx.value.items[0]
        if out is i["ep"] or i["ep"].fields["errors"].items or i["ep"].fields["responses"].items:
            return False          # the argument must not be mutated (deepcopy)
        n_ok = len(out.fields["responses"].items)
        n_err = len(out.fields["errors"].items)
        if n_ok + n_err != 2:
            return False          # every documented status is handled or named in a warning
        oks = [x for x in i["log"] if x[0] == "ok"]
        if n_ok != len(oks) or any(not any(r is x[2] for r in out.fields["responses"].items) for x in oks):
            return False
        # every status is parsed on its own: its own data (even when two statuses name the same component -- the inline
        # classes of a response are named after the status), under the operation's name
        seen = []
        for x in i["log"]:
            if not any(x[3] is d for d in i["datas"]) or any(x[3] is y for y in seen) or x[4] != "n":
                return False
            seen.append(x[3])
        # every warning names the code
        conds = []
        for e in out.fields["errors"].items:
            d = e.fields.get("detail")
            if d is None:
                return False
            dt = I.to_str_term(d)
            conds.append(z3.Or(*[z3.Contains(dt, c.t) for c in i["codes"]] + [z3.Contains(dt, z3.StringVal("status code"))]))
        return z3.And(*conds) if conds else True
    cl = Clause("per-status-accounting", post,
                statement="for every documented status: a Response with that status is appended, or a warning naming the status; "
                          "invalid codes (not an int / not an HTTP status) are warnings, never exceptions; the argument endpoint "
                          "is not mutated; every status is parsed from its own entry under the operation's name, also when two "
                          "statuses refer to the same response component", props=["C04", "C07", "C06", "C20"])
    return FnContract(f"{O}:Endpoint._add_responses", [Case("two-statuses", make, [cl], raises=(), props=["C04", "C07", "C06", "C20"])])


B = "openapi_python_client.parser.bodies"


def body_from_data_contract():
    """media type -> body type table, per-media-type accounting, Body.content_type is the document's own string (C03, C07,
    C16).  Two media types with symbolic spellings; every outcome of classification and schema parsing."""
    def make(I):
        import openapi_python_client.parser.bodies as M
        from openapi_python_client.parser.errors import ParseError, PropertyError
        S = z3.StringSort()
        cts = [SStr(z3.Const(f"media_type{i}", S)) for i in range(2)]
        simp = {id(c): SStr(z3.Const(f"classified{i}", S)) for i, c in enumerate(cts)}
        unparse = {id(c): I.branch_free() for c in cts}
        I.contracts["openapi_python_client.utils:get_content_type"] = \
            lambda I2, a, k: None if unparse[id(a[0])] else simp[id(a[0])]
        log = []

        def pfd(I2, a, k):
            if I2.branch_free():
                p = SOpaque("body-prop", cls=object)
                log.append(("ok", k["data"], p))
                return STuple([p, k["schemas"]])
            e = SObj(PropertyError, {"detail": None, "data": None, "level": None, "header": ""})
            log.append(("err", k["data"], e))
            return STuple([e, k["schemas"]])
        I.contracts["openapi_python_client.parser.properties:property_from_data"] = pfd
        schemas_of = [SOpaque(f"schema{i}") if not I.branch_free() else None for i in range(2)]
        media = [SOpaque(f"media{i}", attrs={"media_type_schema": schemas_of[i]}) for i in range(2)]
        pairs = SList([STuple([cts[i], media[i]]) for i in range(2)])
        content = SOpaque("content", cls=dict, attrs={"items": SFunc("model", lambda I2, a, k: pairs)})
        content.length = lambda I2: 2
        body = SOpaque("request body", cls=object, attrs={"content": content})
        I.contracts[f"{B}:_resolve_reference"] = lambda I2, a, k: body
        data = SOpaque("operation", attrs={"request_body": SOpaque("rb")})
        kw = dict(data=data, schemas=SOpaque("schemas"), request_bodies=SOpaque("rbs"), config=SOpaque("config"),
                  endpoint_name=SStr(z3.Const("endpoint_name", S)))
        return SFunc("pyfunc", M.body_from_data), [], kw, {"cts": cts, "simp": simp, "unparse": unparse, "schemas_of": schemas_of,
                                                            "log": log, "M": M}

    def post(ctx):
        I = ctx.I
        i = ctx.inputs
        M = i["M"]
        from openapi_python_client.parser.errors import ParseError
        out = ctx.value.items[0]
        if not isinstance(out, SList) or len(out.items) != 2:
            return False          # every request media type yields a Body or a ParseError -- in order
        conds = []
        for idx, (ct, res) in enumerate(zip(i["cts"], out.items)):
            is_err = isinstance(res, SObj) and issubclass(res.cls, ParseError)
            if i["unparse"][id(ct)] or i["schemas_of"][idx] is None:
                if not is_err:
                    return False
                continue
            s = i["simp"][id(ct)].t
            V = z3.StringVal
            table = [(s == V("application/x-www-form-urlencoded"), M.BodyType.DATA), (s == V("multipart/form-data"), M.BodyType.FILES),
                     (s == V("application/octet-stream"), M.BodyType.CONTENT),
                     (z3.Or(s == V("application/json"), z3.SuffixOf(V("+json"), s)), M.BodyType.JSON)]
            supported = z3.Or(*[c for c, _ in table])
            if is_err:
                parsed_failed = any(x[0] == "err" and x[1] is i["schemas_of"][idx] for x in i["log"])
                conds.append(z3.BoolVal(True) if parsed_failed else z3.Not(supported))
                continue
            if not (isinstance(res, SObj) and res.cls is M.Body):
                return False
            bt = res.fields["body_type"]
            prior = z3.BoolVal(False)
            want = None
            for c, t in table:
                if bt is t:
                    want = z3.And(c, z3.Not(prior))
                prior = z3.Or(prior, c)
            if want is None:
                return False
            conds.append(want)
            # sent as itself: the Content-Type is the document's own string, not the classified one
            e = I.py_eq(res.fields["content_type"], ct)
            if e is False:
                return False
            if e is not True:
                conds.append(e)
        return z3.And(*conds) if conds else True
    cl = Clause("media-type-table-and-accounting", post,
                statement="each request media type yields, in order, a Body (form -> data, multipart -> files, octet-stream -> "
                          "content, json/+json -> json; content_type is the document's own string) or a ParseError (unparseable "
                          "/ unsupported media type, missing or failing schema); none is skipped", props=["C03", "C07", "C16"])

    def make_model(I):
        """one media type whose schema is a model that may already be marked as a multipart body by an earlier operation"""
        import openapi_python_client.parser.bodies as M
        from openapi_python_client.parser.properties import ModelProperty
        from openapi_python_client.parser.properties.schemas import Schemas
        from pyvc.symexec import SBool, SDict
        S = z3.StringSort()
        ct = SStr(z3.Const("media_type", S))
        simp = SStr(z3.Const("classified", S))
        I.contracts["openapi_python_client.utils:get_content_type"] = lambda I2, a, k: simp
        already = SBool(z3.Const("already_multipart", z3.BoolSort()))
        info = SOpaque("class_info", attrs={"name": "M", "module_name": "m"})
        prop = SObj(ModelProperty, {"name": "body", "required": True, "default": None, "python_name": "body", "description": "",
                                    "example": None, "class_info": info, "data": SOpaque("data"), "roots": SOpaque("roots"),
                                    "required_properties": None, "optional_properties": None, "relative_imports": None,
                                    "lazy_imports": None, "additional_properties": None, "is_multipart_body": already})
        other = SOpaque("another class")
        schemas = SObj(Schemas, {"classes_by_reference": SOpaque("cbr"), "dependencies": SOpaque("deps"),
                                 "classes_by_name": SDict({"M": prop, "Other": other}), "models_to_process": SList([]),
                                 "errors": SList([])})
        # the schema is written as a bare reference or as a schema object (inline model, or a wrapper around a reference);
        # what comes back is the registered record itself (just made) or an evolved copy of it (found through a reference)
        from openapi_python_client import schema as oai
        ref = SObj(oai.Reference, {"ref": "#/components/schemas/M"})
        mschema = ref if I.branch_free() else SObj(oai.Schema, {"allOf": SList([ref]) if I.branch_free() else SList([]),
                                                                "title": None, "type": None})
        returned = prop if I.branch_free() else SObj(ModelProperty, dict(prop.fields))
        I.contracts["openapi_python_client.parser.properties:property_from_data"] = lambda I2, a, k: STuple([returned, k["schemas"]])
        media = SOpaque("media", attrs={"media_type_schema": mschema})
        pairs = SList([STuple([ct, media])])
        content = SOpaque("content", cls=dict, attrs={"items": SFunc("model", lambda I2, a, k: pairs)})
        content.length = lambda I2: 1
        body = SOpaque("request body", cls=object, attrs={"content": content})
        I.contracts[f"{B}:_resolve_reference"] = lambda I2, a, k: body
        data = SOpaque("operation", attrs={"request_body": SOpaque("rb")})
        kw = dict(data=data, schemas=schemas, request_bodies=SOpaque("rbs"), config=SOpaque("config"),
                  endpoint_name=SStr(z3.Const("endpoint_name", S)))
        return SFunc("pyfunc", M.body_from_data), [], kw, {"simp": simp, "already": already, "prop": prop, "schemas": schemas,
                                                            "other": other, "M": M}

    def sticky(ctx):
        I, i = ctx.I, ctx.inputs
        M = i["M"]
        out, schemas2 = ctx.value.items
        if not isinstance(out, SList) or len(out.items) != 1:
            return False
        res = out.items[0]
        if not (isinstance(res, SObj) and res.cls is M.Body):
            return True          # unsupported media type: nothing registered (covered by the other case)
        is_files = res.fields["body_type"] is M.BodyType.FILES
        p = res.fields["prop"]

        def flag(x):
            f = x.fields.get("is_multipart_body") if isinstance(x, SObj) else None
            return f.t if hasattr(f, "t") else (z3.BoolVal(bool(f)) if isinstance(f, bool) else None)
        want = z3.BoolVal(True) if is_files else i["already"].t
        fp = flag(p)
        if fp is None:
            return False
        conds = [fp == want]
        table = schemas2.fields["classes_by_name"] if isinstance(schemas2, SObj) else None
        if table is None or set(table.items) != {"M", "Other"} or table.items["Other"] is not i["other"]:
            return False
        ft = flag(table.items["M"])
        if ft is None:
            return False
        conds.append(ft == want)
        # the argument objects themselves are not edited
        conds.append(z3.BoolVal(i["prop"].fields["is_multipart_body"] is i["already"]))
        return z3.And(*conds)
    cl2 = Clause("multipart-mark-is-sticky", sticky,
                 statement="a model used as a multipart body is (re-)registered with is_multipart_body = True; used with any other "
                           "media type it keeps the mark it had (an earlier operation's to_multipart is never taken away, so the "
                           "model's module does not depend on the order of the operations); every other class entry is kept; "
                           "the same whether the schema is a bare reference or a schema object (wrapper around a reference, "
                           "inline model) and whether the record handed back is the registered one or a copy of it",
                 props=["C12", "C08", "C03", "C17"])
    return FnContract(f"{B}:body_from_data", [Case("two-media-types", make, [cl], raises=(), props=["C03", "C07", "C16"]),
                                              Case("model-body", make_model, [cl2], raises=(), props=["C12", "C08", "C03", "C17"])])
