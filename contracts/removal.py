"""Removal cascade (C08-O3, C06-O4 termination, C01-O5): _propogate_removal and _process_model_errors.

One-step contract with the recursive call replaced by a capturing summary (induction over the recursion):
  * a ClassName root is popped from classes_by_name, nothing else happens;
  * a reference root that is still registered is deleted from classes_by_reference BEFORE any recursive call -- so a
    dependency cycle that comes back to it finds it gone and stops (termination: every call either returns at once or
    removes one registered key; the table is finite) -- its name is appended to the error detail, and EVERY recorded
    dependant gets a recursive call (closure);
  * a reference root that is no longer registered causes no effect and no call.
"""
from __future__ import annotations

import z3

from pyvc import source
from pyvc.absdata import LazyMap
from pyvc.engine_b import Case, Clause, FnContract
from pyvc.symexec import SFunc, SList, SObj, SOpaque, SSet, SStr

Q = "openapi_python_client.parser.properties:_propogate_removal"


def propagate_contract():
    def make(I):
        import openapi_python_client.parser.properties as P
        from openapi_python_client.parser.errors import PropertyError
        from openapi_python_client.parser.properties.schemas import Schemas
        from openapi_python_client import utils
        S = z3.StringSort()
        calls = []
        is_class_name = I.branch_free()
        if is_class_name:
            root = SObj(utils.ClassName, {"__str__": SStr(z3.Const("root_class", S))})
        else:
            root = SStr(z3.Const("root_ref", S))
        children = [SStr(z3.Const(f"child{i}", S)) for i in range(2)]
        dep_set = SSet()
        dep_set.items = set()
        deps_list = SList(children)       # iteration order of a set is arbitrary: any order must do
        dep_obj = SOpaque("dependants", cls=set)
        cbr = LazyMap("classes_by_reference", lambda I2, k: SOpaque("registered class"))
        cbn = LazyMap("classes_by_name", lambda I2, k: SOpaque("named class"))
        deps = LazyMap("dependencies", lambda I2, k: deps_list)
        schemas = SObj(Schemas, {"classes_by_reference": cbr, "classes_by_name": cbn, "dependencies": deps,
                                 "models_to_process": SList(), "errors": SList()})
        err = SObj(PropertyError, {"detail": None if I.branch_free() else SStr(z3.Const("detail0", S)), "data": None, "level": None,
                                   "header": ""})

        def nested(I2, a, k):
            r = k["root"]
            # is the outer root still registered at the moment of the recursive call?
            still = any(I2.must(I2.to_str_term(key) == I2.to_str_term(root)) for key, _ in cbr.entries) if not is_class_name else False
            calls.append((r, still, k["schemas"] is schemas, k["error"] is err))
            return None
        I.contracts[Q] = nested
        msrc, fn = source.func(Q)

        def target(I2, a, k):
            return I2.call_function(fn, msrc.module, [], {"root": root, "schemas": schemas, "error": err}, Q)
        return SFunc("model", target), [], {}, {"calls": calls, "root": root, "cbr": cbr, "cbn": cbn, "deps": deps, "children": children,
                                                "err": err, "is_class_name": is_class_name}

    def post(ctx):
        I = ctx.I
        i = ctx.inputs
        calls = i["calls"]
        if i["is_class_name"]:
            return not calls and not i["cbr"].log and all(op == "del" for op, *_ in i["cbn"].log)
        registered = any(op == "del" for op, *_ in i["cbr"].log)
        if not registered:
            return not calls and not i["cbr"].log and not i["cbn"].log       # already removed: nothing happens
        if any(still for _, still, _, _ in calls):
            return False      # recursion while the root is still registered: a dependency cycle would never end
        if not all(s and e for _, _, s, e in calls):
            return False
        found_deps = any(True for _ in i["deps"].entries)
        if found_deps:
            if len(calls) != len(i["children"]) or any(not any(c is r for r, *_ in calls) for c in i["children"]):
                return False      # every recorded dependant is visited
        elif calls:
            return False
        d = i["err"].fields["detail"]
        if d is None:
            return False
        return z3.Contains(I.to_str_term(d), I.to_str_term(i["root"]))
    cl = Clause("remove-before-recursing-and-visit-all-dependants", post,
                statement="registered reference: deleted before any recursive call, named in the error detail, every recorded "
                          "dependant visited with the same schemas/error; unregistered reference: no effect; class name: popped "
                          "from classes_by_name only", props=["C08", "C06", "C01", "C07"])
    return FnContract(Q, [Case("one-step", make, [cl], raises=(), props=["C08", "C06", "C01", "C07"])])
