"""Contract of UnionProperty.convert_value (C13: a union default is the first member's successful conversion or a
diagnostic; C06: no exception, in particular for a union with NO members) for ANY number of members.

Members are elements of a symbolic sequence; each member's convert_value enters by a summary: it rejects (PropertyError)
or converts (a Value) depending on an uninterpreted predicate of (member, value).
Invariant: the running result is a PropertyError (so that what is returned after the loop is a diagnostic).
Clauses:
  converts-or-diagnoses   None / an already converted Value => None; otherwise the result is the conversion by some member or a
                          PropertyError; with no members it is a PropertyError; no exception on any path"""
from __future__ import annotations

import z3

from pyvc.engine_b import Case, Clause, FnContract
from pyvc.symexec import LoopSpec, SFunc, SObj, SOpaque, SSeq, SStr, SV

Q = "openapi_python_client.parser.properties.union:UnionProperty.convert_value"


def convert_contract():
    def make(I):
        from openapi_python_client.parser.properties import union as U
        from openapi_python_client.parser.errors import PropertyError
        from openapi_python_client.parser.properties.protocol import Value
        Z = I.Z
        base = z3.Const("members", z3.SeqSort(Z.JV))
        accepts = z3.Function("member_accepts", Z.JV, Z.JV, z3.BoolSort())
        value = SV(z3.Const("value", Z.JV))
        I.assume(z3.Not(Z.rec["val"](value.t)))
        made = {}
        conversions = []

        def elem(v):
            k = v.t.get_id()
            if k not in made:
                def conv(I2, a, kw, t=v.t):
                    if I2.branch(accepts(t, value.t)):
                        r = SObj(Value, {"python_code": SStr(I2.fresh("code", z3.StringSort())), "raw_value": value})
                        conversions.append(r)
                        return r
                    return SObj(PropertyError, {"detail": "rejected", "header": "", "data": None, "level": None})
                made[k] = SOpaque("member", cls=object, attrs={"convert_value": SFunc("model", conv)})
            return made[k]
        seq = SSeq(base, None, [elem])
        empty = I.branch_free()
        I.assume(z3.Length(base) == 0 if empty else z3.Length(base) > 0)
        u = SObj(U.UnionProperty, {"name": SStr(z3.Const("name", z3.StringSort())), "required": True, "default": None,
                                   "python_name": "u", "description": None, "example": None, "inner_properties": seq})

        def inv(I2, loc, seen):
            # whatever the running result is called: every local the loop assigns that is bound holds a PropertyError
            cur = [v for k, v in loc.items() if k not in ("self", "value", "sub_prop") and isinstance(v, SObj)]
            return all(x.cls is PropertyError for x in cur)

        def havoc_result(I2):
            return SObj(PropertyError, {"detail": "some member's rejection", "header": "", "data": None, "level": None})
        I.loop_specs[(Q, 0)] = LoopSpec(inv, {"value_or_error": havoc_result})
        return SFunc("pyfunc", U.UnionProperty.convert_value, self_val=u), [value], {}, {
            "value": value, "empty": empty, "conversions": conversions, "PropertyError": PropertyError}

    def post(ctx):
        i = ctx.inputs
        Z = ctx.Z
        v = ctx.value
        none_in = Z.rec["none"](i["value"].t)
        if v is None:
            return none_in
        if isinstance(v, SObj) and v.cls is i["PropertyError"]:
            return z3.Not(none_in)
        if isinstance(v, SObj) and v.cls.__name__ == "Value":
            return z3.And(z3.Not(none_in), z3.BoolVal(any(v is c for c in i["conversions"]) and not i["empty"]))
        return False

    cl = Clause("converts-or-diagnoses", post,
                statement="None => None; otherwise the conversion made by some member, or a PropertyError (always a PropertyError "
                          "when the union has no members)")
    return FnContract(Q, [Case("any-number-of-members", make, [cl], raises=(), props=["C13", "C06"])])
