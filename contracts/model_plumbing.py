"""Contracts for the model-building plumbing around _process_properties (C02 additionalProperties semantics, C08 roots and
failure frame, C06 error-as-value) and ConstProperty.build (C13/C14: a default next to a const must equal it).

  _get_additional_properties   absent / true / empty schema => the untyped catch-all; false => None (closed object); any other
                               schema => exactly what property_from_data builds from it, with the caller's roots and required=True
  _process_property_data       an error of either step is returned as it is with the schemas of that step; otherwise the
                               property data of _process_properties and the additional property, whose imports are added
  process_model                error => returned, the model untouched; success => the model's five fields are set from the data
  ConstProperty.build          the const is converted once; a default is accepted iff it converts to an equal Value"""
from __future__ import annotations

import z3

from pyvc.absdata import GrowSet
from pyvc.engine_b import Case, Clause, FnContract
from pyvc.symexec import SBool, SFunc, SList, SObj, SOpaque, SSet, SStr, STuple, SV

P = "openapi_python_client.parser.properties"


def _err():
    from openapi_python_client.parser.errors import PropertyError
    return SObj(PropertyError, {"detail": "d", "header": "h", "data": None, "level": None})


def additional_properties_contract():
    def make(I):
        from openapi_python_client.parser.properties import model_property as MP
        from openapi_python_client import schema as oai
        shape = I.choose(5)          # None, True, False, empty schema, other schema/reference
        calls = []
        built = SOpaque("built additional property", cls=object)
        s2 = SOpaque("schemas'")

        def pfd(I2, a, k):
            calls.append(k)
            return STuple([built, s2])
        I.contracts[f"{P}:property_from_data"] = pfd
        if shape in (3, 4):
            empty = shape == 3
            dump = SOpaque("dumped", cls=dict, attrs={"values": SFunc("model", lambda I2, a, k: SList([] if empty else [True]))})
            sa = SObj(oai.Schema, {})
            sa.fields["model_dump"] = SFunc("model", lambda I2, a, k: dump)
        else:
            sa = [None, True, False][shape]
        roots = SSet({"root"})
        schemas = SOpaque("schemas")
        kw = dict(schema_additional=sa, schemas=schemas, class_name=SStr(z3.Const("class_name", z3.StringSort())),
                  config=SOpaque("config"), roots=roots)
        return SFunc("pyfunc", MP._get_additional_properties), [], kw, {
            "shape": shape, "calls": calls, "built": built, "s2": s2, "schemas": schemas, "roots": roots, "sa": sa, "MP": MP}

    def post(ctx):
        i = ctx.inputs
        r, s = ctx.value.items
        anyp = i["MP"].ANY_ADDITIONAL_PROPERTY
        if i["shape"] in (0, 1, 3):
            return not i["calls"] and s is i["schemas"] and (r is anyp or (isinstance(r, SObj) is False and r == anyp))
        if i["shape"] == 2:
            return not i["calls"] and r is None and s is i["schemas"]
        if len(i["calls"]) != 1:
            return False
        k = i["calls"][0]
        return r is i["built"] and s is i["s2"] and k.get("data") is i["sa"] and k.get("roots") is i["roots"] and \
            k.get("required") is True and k.get("schemas") is i["schemas"]

    cl = Clause("additional-properties-semantics", post,
                statement="absent / true / empty schema => the untyped catch-all property; false => None; otherwise the property "
                          "built from exactly that schema with the caller's roots (required=True) and the schemas of that build")
    return FnContract(f"{P}.model_property:_get_additional_properties", [Case("five-shapes", make, [cl], raises=(), props=["C02", "C08"])])


def process_property_data_contract():
    def make(I):
        from openapi_python_client.parser.properties import model_property as MP
        step1_fails = I.branch_free()
        e1, e2 = _err(), _err()
        s1, s2 = SOpaque("schemas after properties"), SOpaque("schemas after additional")
        rel, lazy = GrowSet("relative_imports"), GrowSet("lazy_imports")
        pdata = SOpaque("property data", cls=object, attrs={"schemas": s1, "relative_imports": rel, "lazy_imports": lazy})
        calls = {}

        def pp(I2, a, k):
            calls["pp"] = k
            return e1 if step1_fails else pdata
        add_kind = I.choose(3)          # error, None, property
        addp = SOpaque("additional property", cls=object, attrs={
            "get_imports": SFunc("model", lambda I2, a, k: SOpaque("imports of additional")),
            "get_lazy_imports": SFunc("model", lambda I2, a, k: SOpaque("lazy imports of additional"))})

        def gap(I2, a, k):
            calls["gap"] = k
            return STuple([[e2, None, addp][add_kind], s2])
        I.contracts[f"{P}.model_property:_process_properties"] = pp
        I.contracts[f"{P}.model_property:_get_additional_properties"] = gap
        schemas = SOpaque("schemas")
        roots = SSet({"root"})
        data = SOpaque("data", attrs={"additionalProperties": SOpaque("additionalProperties data")})
        info = SOpaque("class_info", attrs={"name": SStr(z3.Const("class_name", z3.StringSort()))})
        kw = dict(data=data, schemas=schemas, class_info=info, config=SOpaque("config"), roots=roots)
        return SFunc("pyfunc", MP._process_property_data), [], kw, {
            "f1": step1_fails, "e1": e1, "e2": e2, "s1": s1, "s2": s2, "pdata": pdata, "calls": calls, "add_kind": add_kind,
            "addp": addp, "schemas": schemas, "roots": roots, "rel": rel, "lazy": lazy, "data": data}

    def post(ctx):
        i = ctx.inputs
        r, s = ctx.value.items
        c = i["calls"]
        if c["pp"].get("roots") is not i["roots"] or c["pp"].get("schemas") is not i["schemas"] or c["pp"].get("data") is not i["data"]:
            return False
        if i["f1"]:
            return r is i["e1"] and s is i["schemas"] and "gap" not in c
        g = c.get("gap")
        if g is None or g.get("schemas") is not i["s1"] or g.get("roots") is not i["roots"] or \
                g.get("schema_additional") is not i["data"].attrs["additionalProperties"]:
            return False
        if i["add_kind"] == 0:
            return r is i["e2"] and s is i["s2"] and not i["rel"].added and not i["lazy"].added
        if s is not i["s2"] or not isinstance(r, STuple) or r.items[0] is not i["pdata"]:
            return False
        if i["add_kind"] == 1:
            return r.items[1] is None and not i["rel"].added and not i["lazy"].added
        return r.items[1] is i["addp"] and len(i["rel"].added) == 1 and len(i["lazy"].added) == 1

    cl = Clause("steps-and-frames", post,
                statement="both steps get the caller's roots; the second step continues from the schemas of the first; an error of "
                          "either step is returned as it is (no imports added); a typed additional property contributes its imports")
    return FnContract(f"{P}.model_property:_process_property_data", [Case("all-outcomes", make, [cl], raises=(), props=["C08", "C02", "C06"])])


def process_model_contract():
    FIELDS = ("required_properties", "optional_properties", "additional_properties")

    def make(I):
        from openapi_python_client.parser.properties import model_property as MP
        fails = I.branch_free()
        e = _err()
        s1 = SOpaque("schemas'")
        pdata = SOpaque("property data", cls=object, attrs={"required_props": SList(), "optional_props": SList(),
                                                             "relative_imports": SSet({"a"}), "lazy_imports": SSet({"b"})})
        addp = SOpaque("additional", cls=object)
        calls = {}

        def ppd(I2, a, k):
            calls["ppd"] = k
            return STuple([e if fails else STuple([pdata, addp]), s1])
        I.contracts[f"{P}.model_property:_process_property_data"] = ppd
        sets = {}
        roots = SSet({"root"})
        model = SOpaque("model", cls=object, attrs={
            "data": SOpaque("model data"), "class_info": SOpaque("class info"), "roots": roots,
            "set_relative_imports": SFunc("model", lambda I2, a, k: sets.__setitem__("relative", a[0])),
            "set_lazy_imports": SFunc("model", lambda I2, a, k: sets.__setitem__("lazy", a[0]))})
        before = dict(model.attrs)
        schemas = SOpaque("schemas")
        return SFunc("pyfunc", MP.process_model), [model], {"schemas": schemas, "config": SOpaque("config")}, {
            "fails": fails, "e": e, "s1": s1, "pdata": pdata, "addp": addp, "calls": calls, "model": model, "before": before,
            "sets": sets, "schemas": schemas, "roots": roots}

    def post(ctx):
        i = ctx.inputs
        v = ctx.value
        k = i["calls"]["ppd"]
        m = i["model"]
        if k.get("data") is not i["before"]["data"] or k.get("class_info") is not i["before"]["class_info"] or \
                k.get("roots") is not i["roots"] or k.get("schemas") is not i["schemas"]:
            return False
        if i["fails"]:
            return v is i["e"] and not i["sets"] and all(f not in m.attrs for f in FIELDS)
        return v is i["s1"] and m.attrs.get("required_properties") is i["pdata"].attrs["required_props"] and \
            m.attrs.get("optional_properties") is i["pdata"].attrs["optional_props"] and \
            m.attrs.get("additional_properties") is i["addp"] and i["sets"].get("relative") is i["pdata"].attrs["relative_imports"] \
            and i["sets"].get("lazy") is i["pdata"].attrs["lazy_imports"]

    cl = Clause("populates-or-leaves-untouched", post,
                statement="the model's own data, class info and roots are processed; on error the PropertyError is returned and the "
                          "model is untouched; on success the five property fields are set from the result and its schemas returned")
    return FnContract(f"{P}.model_property:process_model", [Case("both-outcomes", make, [cl], raises=(), props=["C08", "C06", "C02"])])


def const_build_contract():
    def make(I):
        from openapi_python_client.parser.properties import const as CM
        from openapi_python_client.parser.properties.protocol import Value
        code = z3.Function("const_python_code", I.Z.JV, z3.StringSort())

        def conv(I2, a, k):
            v = a[0] if a else k["value"]
            if isinstance(v, SV):
                if I2.branch(I2.Z.rec["none"](v.t)):
                    return None
                return SObj(Value, {"python_code": SStr(code(v.t)), "raw_value": v})
            return v
        I.contracts[f"{P}.const:ConstProperty._convert_value"] = conv
        const = SV(z3.Const("const", I.Z.JV))
        default = SV(z3.Const("default", I.Z.JV))
        I.assume(z3.Not(I.Z.rec["none"](const.t)))
        S = z3.StringSort()
        kw = dict(const=const, default=default, name=SStr(z3.Const("name", S)), python_name=SStr(z3.Const("python_name", S)),
                  required=SBool(z3.Const("required", z3.BoolSort())), description=None)
        return SFunc("pyfunc", CM.ConstProperty.build.__func__, self_val=CM.ConstProperty), [], kw, {
            "const": const, "default": default, "code": code, "CM": CM}

    def post(ctx):
        I, i = ctx.I, ctx.inputs
        Z = I.Z
        v = ctx.value
        c, d = i["const"].t, i["default"].t
        raw_eq = ctx.I.py_eq(SV(c), SV(d))
        same = z3.And(i["code"](c) == i["code"](d), raw_eq)
        if isinstance(v, SObj) and v.cls.__name__ == "PropertyError":
            return z3.And(z3.Not(Z.rec["none"](d)), z3.Not(same))        # only a default that is not identical may be rejected
        if not (isinstance(v, SObj) and v.cls is i["CM"].ConstProperty):
            return False
        val = v.fields["value"]
        ok_value = z3.And(I.to_str_term(val.fields["python_code"]) == i["code"](c))
        dflt = v.fields["default"]
        if dflt is None:
            return z3.And(ok_value, Z.rec["none"](d))
        return z3.And(ok_value, z3.Not(Z.rec["none"](d)), raw_eq)      # an accepted default equals the const (python equality)

    cl = Clause("default-must-equal-the-const", post,
                statement="the result is a ConstProperty whose value is the converted const and whose default is None (no default "
                          "declared) or a default whose value equals the const; a default is rejected (PropertyError) only if it is not "
                          "identical to the const, and every default with a different value is rejected")
    return FnContract(f"{P}.const:ConstProperty.build", [Case("any-const-and-default", make, [cl], raises=(), props=["C13", "C14"])])


def all_contracts():
    return [additional_properties_contract(), process_property_data_contract(), process_model_contract(), const_build_contract()]
