"""Contract of `_process_properties._add_if_no_conflict` and `_resolve_naming_conflict` (C09: within one model, different
document names never silently map to one attribute name), Engine B, for a property table of ANY size.

The closure is taken from the AST of the real `_process_properties` on every run (source index key
`...:_process_properties._add_if_no_conflict`) and run in a frame that supplies the variables of the enclosing function.

State model (ghost), as for the parameter conflicts (contracts/param_conflicts.py): properties are references (integers)
into a symbolic heap `H: id -> python_name`; `name(id)` is immutable.  The table `properties` is a map term
D: name -> id (absent = -1) with a cardinality term.  `Property.set_python_name` is the REAL method (executed
symbolically; `PythonIdentifier` by its Engine-A contract: a deterministic function); its attribute write lands in H.
`merge_properties` enters by an assumed summary: a PropertyError, or a property with the name of its second argument and
an arbitrary python name (its own contract: contracts/merge.py).

Set comprehension over the values of the table: `{f(p) for p in D.values()}` is a set whose cardinality c satisfies
    0 <= c <= |D|      and      c == |D|  =>  f(D[ka]) != f(D[kb])  for the two generic keys ka != kb of the harness
(pigeonhole: a map whose image is as large as its finite domain is injective; the generic pair instantiates the
quantifier).  Nothing else is known about c.

The scan loop `for other_prop in properties.values()` carries the trivial invariant; the heap is havocked by it (any
number of renames may have happened), so everything the clauses state is established AFTER the loop by the code itself.

Clauses (ka != kb generic keys, kc a generic key):
    no-silent-merge     returns None  =>  if ka and kb are both in the table afterwards, the python names of their entries differ
    stored-under-name   returns None  =>  the table afterwards is the table before with exactly one entry written, under the
                        name of the stored property, and that property has the name of the argument
    error-leaves-table  returns a PropertyError  =>  the table is the table the call started with (same entries)
    keys-are-names      the representation invariant "an entry under k has name k" is preserved (generic key kc)
"""
from __future__ import annotations

import z3

from pyvc import source
from pyvc.engine_b import Case, Clause, FnContract
from pyvc.symexec import Frame, LoopSpec, SFunc, SInt, SObj, SOpaque, SSeq, SStr, SV, Unsupported

QO = "openapi_python_client.parser.properties.model_property:_process_properties"
Q = QO + "._add_if_no_conflict"
QR = "openapi_python_client.parser.properties.model_property:_resolve_naming_conflict"


class PropRef(SOpaque):
    """a Property object as a reference into the symbolic heap"""

    def __init__(self, W, idt):
        super().__init__(f"prop[{idt}]", cls=object)
        self.W, self.idt = W, idt

    def getattr(self, I, name):
        W = self.W
        if name == "python_name":
            return SStr(z3.Select(W.H, self.idt))
        if name == "name":
            return SStr(W.nameF(self.idt))
        if name == "set_python_name":
            from openapi_python_client.parser.properties.protocol import PropertyProtocol
            return SFunc("pyfunc", PropertyProtocol.set_python_name, self_val=self, name=name)
        raise Unsupported(f"attribute {name} of a property reference")

    def setattr(self, I, name, v):
        if name != "python_name":
            raise Unsupported(f"write to {name} of a property reference")
        self.W.H = z3.Store(self.W.H, self.idt, I.to_str_term(v))
        self.W.writes += 1

    def opaque_eq(self, I, other):
        return isinstance(other, PropRef) and self.idt == other.idt


class _Values(SSeq):
    """the values() view of the table: a sequence of references for `for`, an image set for a set comprehension"""

    def __init__(self, table, I):
        W = table.W
        Z = I.Z
        base = I.fresh("values_of_" + table.name, z3.SeqSort(Z.JV))
        super().__init__(base, lambda x: z3.And(Z.rec["int"](x), Z.acc["i"](x) >= 0), [lambda v: PropRef(W, Z.acc["i"](v.t))])
        self.table = table

    def setcomp_hook(self, I, image):
        T = self.table
        W = T.W
        c = I.fresh("image_size", z3.IntSort())
        D, card = T.term, T.card
        I.assume(z3.And(c >= 0, c <= card))
        ka, kb = W.pair

        def f(k):
            return I.to_str_term(image(PropRef(W, z3.Select(D, k))))
        I.assume(z3.Implies(c == card, z3.Implies(z3.And(ka != kb, z3.Select(D, ka) >= 0, z3.Select(D, kb) >= 0), f(ka) != f(kb))))
        out = SOpaque("image set", cls=set)
        out.length = lambda I2: SInt(c)
        return out


class PropTable(SOpaque):
    """dict[str, Property] of unknown size: map term name -> id (absent -1) and its cardinality"""

    def __init__(self, W, name, term, card):
        super().__init__(name, cls=dict)
        self.W, self.term, self.card = W, term, card

    # the interface e_Dict uses for {**table, k: v}
    def lookup(self, I, k):
        raise Unsupported("lookup in a dict display over the property table")

    def copy(self):
        return PropTable(self.W, self.name + "'", self.term, self.card)

    def store(self, I, k, v):
        self.setitem(I, k, v)

    def length(self, I):
        return SInt(self.card)

    def setitem(self, I, k, v):
        if not isinstance(v, PropRef):
            raise Unsupported("storing something else than a property in the property table")
        kt = I.to_str_term(k)
        self.card = self.card + z3.If(z3.Select(self.term, kt) >= 0, 0, 1)
        self.term = z3.Store(self.term, kt, v.idt)

    def getattr(self, I, name):
        if name == "get":
            def get(I2, a, k):
                kt = I2.to_str_term(a[0])
                if I2.branch(z3.Select(self.term, kt) >= 0):
                    return PropRef(self.W, z3.Select(self.term, kt))
                return a[1] if len(a) > 1 else None
            return SFunc("model", get)
        if name == "values":
            return SFunc("model", lambda I2, a, k: _Values(self, I2))
        raise Unsupported(f"dict method {name} on the property table")

    def getitem(self, I, k):
        kt = I.to_str_term(k)
        if I.branch(z3.Select(self.term, kt) >= 0):
            return PropRef(self.W, z3.Select(self.term, kt))
        I.raise_(KeyError, "no such property")

    def contains(self, I, k):
        return z3.Select(self.term, I.to_str_term(k)) >= 0


def _world(I):
    W = type("W", (), {})()
    S, Int = z3.StringSort(), z3.IntSort()
    W.nameF = z3.Function("prop_name", Int, S)
    W.H0 = z3.Const("H0", z3.ArraySort(Int, S))
    W.H = W.H0
    W.writes = 0
    W.D0 = z3.Const("D0", z3.ArraySort(S, Int))
    W.card0 = z3.Const("card0", Int)
    W.pair = (z3.Const("ka", S), z3.Const("kb", S))
    W.kc = z3.Const("kc", S)
    I.assume(W.card0 >= 0)
    return W


def _merge_summary(W):
    def merge(I, a, k):
        from openapi_python_client.parser.errors import PropertyError
        p1, p2 = a
        if I.branch_free():
            return SObj(PropertyError, {"header": "", "detail": SStr(I.fresh("merge_detail", z3.StringSort())), "data": None,
                                        "level": SOpaque("level")})
        m = I.fresh("merged", z3.IntSort())
        I.assume(z3.And(m >= 0, W.nameF(m) == W.nameF(p2.idt)))
        return PropRef(W, m)
    return SFunc("model", merge)


def _closure(I, W, table):
    msrc, node = source.func(Q)
    if node is None:
        raise Unsupported("_add_if_no_conflict is no longer a closure of _process_properties")
    I.inlined.setdefault(Q, (msrc.where(node), msrc.func_hash(node)))
    config = SOpaque("config", attrs={"field_prefix": "field_"})
    outer = {"properties": table, "class_name": SStr(z3.Const("class_name", z3.StringSort())), "config": config,
             "merge_properties": _merge_summary(W), "_add_if_no_conflict": None}
    fr = Frame(msrc.module, outer, QO, None)
    fn = SFunc("closure", (node, fr), name=node.name)
    outer["_add_if_no_conflict"] = fn
    return fn, outer


def add_if_no_conflict_contract():
    def make(I):
        W = _world(I)
        table = PropTable(W, "properties", W.D0, W.card0)
        # representation invariant of the table on entry, at the keys the clauses and the code look at
        new = I.fresh("new_prop", z3.IntSort())
        I.assume(new >= 0)
        W.new = new
        for k in (W.kc, W.nameF(new)):
            I.assume(z3.Implies(z3.Select(W.D0, k) >= 0, W.nameF(z3.Select(W.D0, k)) == k))

        def havoc_world(I2):
            W.H = I2.fresh("H", z3.ArraySort(z3.IntSort(), z3.StringSort()))
            return None
        I.loop_specs[(Q, 0)] = LoopSpec(lambda I2, loc, seen: z3.BoolVal(True), {"__ghost_world__": havoc_world})
        fn, outer = _closure(I, W, table)
        W.outer = outer
        return fn, [PropRef(W, new)], {}, {"W": W}

    def table_of(ctx):
        return ctx.inputs["W"].outer["properties"]

    def is_error(v):
        return isinstance(v, SObj) and v.cls.__name__ == "PropertyError"

    def shape(ctx):
        return ctx.value is None or is_error(ctx.value)

    def no_merge(ctx):
        W = ctx.inputs["W"]
        if ctx.value is not None:
            return True
        T = table_of(ctx)
        if not isinstance(T, PropTable):
            return False
        ka, kb = W.pair
        a, b = z3.Select(T.term, ka), z3.Select(T.term, kb)
        return z3.Implies(z3.And(ka != kb, a >= 0, b >= 0), z3.Select(W.H, a) != z3.Select(W.H, b))

    def stored(ctx):
        W = ctx.inputs["W"]
        if ctx.value is not None:
            return True
        T = table_of(ctx)
        if not isinstance(T, PropTable):
            return False
        k = W.nameF(W.new)
        v = z3.Select(T.term, k)
        return z3.And(v >= 0, W.nameF(v) == k, T.term == z3.Store(W.D0, k, v))

    def unchanged(ctx):
        W = ctx.inputs["W"]
        if not is_error(ctx.value):
            return True
        T = table_of(ctx)
        return isinstance(T, PropTable) and z3.And(T.term == W.D0, T.card == W.card0)

    def keys_names(ctx):
        W = ctx.inputs["W"]
        T = table_of(ctx)
        if not isinstance(T, PropTable):
            return False
        v = z3.Select(T.term, W.kc)
        return z3.Implies(v >= 0, W.nameF(v) == W.kc)

    clauses = [
        Clause("result-shape", shape, statement="the result is None or a PropertyError"),
        Clause("no-silent-merge", no_merge,
               statement="returns None => any two entries of the table (generic keys ka != kb) have different python names"),
        Clause("stored-under-name", stored,
               statement="returns None => the table is the old table with one entry written, under the name of the argument, and "
                         "the stored property has that name"),
        Clause("error-leaves-table", unchanged, statement="returns a PropertyError => the table has the entries it started with"),
        Clause("keys-are-names", keys_names, statement="an entry under key kc has name kc (representation invariant preserved)"),
    ]
    case = Case("table-of-any-size", make, clauses, raises=(), props=["C09"])
    return FnContract(Q, [case])


def resolve_naming_conflict_contract():
    """_resolve_naming_conflict(first, second, config): both get the identifier of their raw name; an error iff these coincide"""
    def make(I):
        from openapi_python_client.parser.properties import model_property as M
        W = _world(I)
        a, b = I.fresh("first", z3.IntSort()), I.fresh("second", z3.IntSort())
        I.assume(z3.And(a >= 0, b >= 0, a != b))
        W.ab = (a, b)
        config = SOpaque("config", attrs={"field_prefix": "field_"})
        return SFunc("pyfunc", M._resolve_naming_conflict), [PropRef(W, a), PropRef(W, b), config], {}, {"W": W}

    def post(ctx):
        W = ctx.inputs["W"]
        a, b = W.ab
        na, nb = z3.Select(W.H, a), z3.Select(W.H, b)
        v = ctx.value
        if v is None:
            return na != nb
        return isinstance(v, SObj) and v.cls.__name__ == "PropertyError" and na == nb

    def frame(ctx):
        W = ctx.inputs["W"]
        a, b = W.ab
        other = z3.Const("other_prop", z3.IntSort())
        return z3.Implies(z3.And(other != a, other != b), z3.Select(W.H, other) == z3.Select(W.H0, other))

    clauses = [
        Clause("none-iff-distinct", post, statement="returns None iff the two python names differ afterwards, otherwise a PropertyError"),
        Clause("frame", frame, statement="no other property's python name is written"),
    ]
    return FnContract(QR, [Case("two-properties", make, clauses, raises=(), props=["C09"])])


def all_contracts():
    return [add_if_no_conflict_contract(), resolve_naming_conflict_contract()]
