"""Inductive contract of EndpointCollection.from_data (C07 accounting of every operation, C08 what a kept operation
registered survives the rest of the document) for ANY number of path items, each with any subset of the eight methods and any
number of tags -- default configuration (generate_all_tags off; the other setting is covered by the fixed-shape contract in
contracts/collection.py).

State model (ghost):
    op            = (path, method)                       the identity of an operation
    data          = a mapping of unknown size; items() is a sequence of (key(x), PathItem(x)); keys are pairwise distinct
    PathItem(x)   = getattr(item, m) is Operation(x, m) if has_op(x, m) else None        (attribute name may be symbolic)
    Operation     = .tags is None or a string sequence tags_of(x, m) of unknown length
    endpoints_by_tag = domain set `dom` of tags;  E[tag], P[tag] = the sets of ops whose Endpoint / whose fatal ParseError was
                    appended to the collection of that tag (appended warnings do not change the ghost state)
    Schemas       = known by `reg`, the set of ops whose inline classes it holds
Endpoint.from_data / add_parameters / sort_parameters enter by summaries (their own contracts are elsewhere): each may fail
(ParseError) or succeed; the Schemas they return holds at least what the one they were given held, and after a successful
Endpoint.from_data also the op itself.  add_parameters / sort_parameters REQUIRE an Endpoint (checked at the call site: the
real functions read attributes a ParseError does not have), so a caller that forwards a failed step raises (C06).

The loop over `methods` (a list of eight known strings) is executed by its invariant as well (one generic iteration with a
symbolic method name instead of 8 unrolled ones with 3^8 outcomes).

g = (pg, mg): a generic operation of the document (pg the key at the generic position ig, mg the method at position jm of
`methods`, has_op true); Tg = PythonIdentifier(first tag or "default", "tag").
    Done   :=  Tg in dom  and  exactly one of  g in E[Tg], g in P[Tg]   and   (g in E[Tg] => g in reg(schemas))
    NotYet :=  g not in E[Tg]  and  g not in P[Tg]
    outer invariant(seen)            reg0 subseteq reg(schemas)  and  if ig < |seen| then Done else NotYet
    inner invariant(seen_m) at io    reg0 subseteq reg(schemas)  and  if ig < io or (ig = io and jm < |seen_m|) then Done else NotYet
    warnings loop                    the ghost state is unchanged
    M[tag], cnt    module names (PythonIdentifier of the endpoint's name) of the endpoints filed under a tag; cnt = number of
                    endpoints with the generic module name m* filed under the generic tag t*;  invariant: cnt <= 1 and
                    (cnt >= 1 => m* in M[t*]).  `any(PythonIdentifier(other.name, ..) == m for .. in collection.endpoints)` is read
                    through one existential witness: true exactly when m in M[tag]
Clauses on return (endpoints_by_tag', schemas', parameters'):
    one-endpoint-per-module     cnt <= 1 for every tag t* and module name m*
    every-operation-accounted   the returned mapping is the one the collections were put in, Tg is a key, and g ended as an
                                Endpoint or as a fatal ParseError of the collection of its FIRST tag -- exactly one of the two
    registrations-survive       if g ended as an Endpoint, the returned Schemas still holds what g registered
"""
from __future__ import annotations

import z3

from pyvc.engine_b import Case, Clause, FnContract
from pyvc.symexec import LoopSpec, SFunc, SList, SObj, SOpaque, SSeq, SStr, STuple, SV, Unsupported

Q = "openapi_python_client.parser.openapi:EndpointCollection.from_data"
METHODS = ["get", "put", "post", "delete", "options", "head", "patch", "trace"]


class _Schemas(SOpaque):
    def __init__(self, reg, name="schemas"):
        super().__init__(name, cls=object)
        self.reg = reg


class _ListProxy(SOpaque):
    def __init__(self, W, tag, which):
        super().__init__(f"collection[{tag}].{which}", cls=list)
        self.W, self.tag, self.which = W, tag, which

    def iterate_hook(self, I):
        """`any(<test on other.name> for other in collection.endpoints)`: ONE existential witness whose raw name, once turned
        into a module name by PythonIdentifier, compares equal to m exactly when some endpoint of the collection has the
        module name m (ghost set M[tag]); any other use of the witness is out of reach"""
        if self.which != "endpoints":
            raise Unsupported("iteration over a collection's parse_errors")
        w = SOpaque(f"some endpoint of collection[{self.tag}]", cls=object)
        w.attrs["name"] = _WitnessRawName(self.W, self.tag)
        w.getattr = lambda I2, n: (_ for _ in ()).throw(Unsupported(f"attribute {n} of the existential witness of a list"))
        return [w]

    def getattr(self, I, name):
        W = self.W
        if name != "append":
            raise Unsupported(f"list method {name} on a collection's {self.which}")

        def append(I2, a, k):
            x = a[0]
            op, kind = getattr(x, "ghost_op", None), getattr(x, "ghost_kind", None)
            if op is None and self.which == "parse_errors" and isinstance(x, SObj) and x.cls.__name__ == "ParseError" \
                    and W.current_op is not None:
                # a diagnostic the function made itself while handling the current operation (it is named by the header the
                # function writes: fixed-shape contract); fatal: the function `continue`s after filing it
                op, kind = W.current_op, "fatal"
            if op is None:
                raise Unsupported("appending an object of unknown origin to a collection")
            if self.which == "endpoints":
                if kind != "endpoint":
                    raise Unsupported("appending something else than an Endpoint to endpoints")
                W.E = z3.Store(W.E, self.tag, z3.SetAdd(z3.Select(W.E, self.tag), op))
                m = W.module_of(I2, x)
                # ghost: how many endpoints with the generic module name were filed under the generic tag
                W.cnt = W.cnt + z3.If(z3.And(self.tag == W.tstar, m == W.mstar), 1, 0)
                W.M = z3.Store(W.M, self.tag, z3.SetAdd(z3.Select(W.M, self.tag), m))
            else:
                if kind == "fatal":
                    W.P = z3.Store(W.P, self.tag, z3.SetAdd(z3.Select(W.P, self.tag), op))
                elif kind != "warning":
                    raise Unsupported("appending something else than a ParseError to parse_errors")
        return SFunc("model", append)


class _WitnessRawName(SOpaque):
    """the raw `name` of the existential witness of a collection's endpoints; only PythonIdentifier may look at it"""

    def __init__(self, W, tag):
        super().__init__("name-of-some-endpoint", cls=str)
        self.W, self.tag = W, tag


class _WitnessModule(SOpaque):
    def __init__(self, W, tag):
        super().__init__("module-name-of-some-endpoint", cls=str)
        self.W, self.tag = W, tag

    def eq_any(self, I, other):
        return z3.IsMember(I.to_str_term(other), z3.Select(self.W.M, self.tag))


class _CollRef(SOpaque):
    def __init__(self, W, tag):
        super().__init__(f"collection[{tag}]", cls=object)
        self.W, self.tag = W, tag

    def getattr(self, I, name):
        if name in ("endpoints", "parse_errors"):
            return _ListProxy(self.W, self.tag, name)
        if name == "tag":
            return SStr(self.tag)
        raise Unsupported(f"attribute {name} of an EndpointCollection")


class _TagDict(SOpaque):
    def __init__(self, W):
        super().__init__("endpoints_by_tag", cls=dict)
        self.W = W

    def getattr(self, I, name):
        W = self.W
        if name == "setdefault":
            def setdefault(I2, a, k):
                t = I2.to_str_term(a[0])
                new = a[1]
                for f in ("endpoints", "parse_errors"):
                    lst = new.fields.get(f) if isinstance(new, SObj) else None
                    if not isinstance(lst, SList) or lst.items:
                        raise Unsupported("setdefault with a collection that is not freshly made and empty")
                W.dom = z3.SetAdd(W.dom, t)
                return _CollRef(W, t)
            return SFunc("model", setdefault)
        if name == "items":
            return SFunc("model", lambda I2, a, k: _TagItems(self))
        raise Unsupported(f"dict method {name} on endpoints_by_tag")


class _TagItems:
    def __init__(self, d):
        self.d = d

    def dictcomp_hook(self, I, image, filtered=False):
        return SOpaque("a dict rebuilt from endpoints_by_tag", cls=dict)


def from_data_inductive_contract():
    def make(I):
        from openapi_python_client.parser import openapi as M
        from openapi_python_client.parser.errors import ParseError
        from openapi_python_client import utils
        Z = I.Z
        S, B = z3.StringSort(), z3.BoolSort()
        W = type("W", (), {})()
        W.Op, mkop, _ = z3.TupleSort("Op", [S, S])
        OpSet = z3.SetSort(W.Op)
        W.E = z3.K(S, z3.EmptySet(W.Op))
        W.P = z3.K(S, z3.EmptySet(W.Op))
        W.dom = z3.EmptySet(S)
        W.M = z3.K(S, z3.EmptySet(S))              # module names of the endpoints filed under a tag
        W.cnt = z3.IntVal(0)
        W.tstar, W.mstar = z3.Const("generic_tag", S), z3.Const("generic_module_name", S)
        W.current_op = None
        name_of = z3.Function("operation_name", W.Op, S)
        I.lib = dict(I.lib)
        _pi = I.lib[utils.PythonIdentifier]

        def pyident(I2, a, k):
            v = a[0] if a else k["value"]
            if isinstance(v, _WitnessRawName):
                return _WitnessModule(v.W, v.tag)
            return _pi(I2, a, k)
        I.lib[utils.PythonIdentifier] = pyident

        def module_of(I2, ep):
            return I2.to_str_term(_pi(I2, [SStr(name_of(ep.ghost_op)), "field_"], {}))
        W.module_of = module_of
        keyF = z3.Function("path_key", Z.JV, S)
        has_op = z3.Function("has_operation", Z.JV, S, B)
        tags_none = z3.Function("tags_is_none", Z.JV, S, B)
        tags_of = z3.Function("tags_of", Z.JV, S, z3.SeqSort(Z.JV))

        base = z3.Const("path_items", z3.SeqSort(Z.JV))
        ig, jm = z3.Int("ig"), z3.Int("jm")
        mbase = z3.Concat(*[z3.Unit(Z.con["str"](z3.StringVal(m))) for m in METHODS])
        I.assume(z3.And(0 <= ig, ig < z3.Length(base), 0 <= jm, jm < len(METHODS)))
        xg = base[ig]
        pg = keyF(xg)
        mg = Z.acc["s"](mbase[jm])
        I.assume(has_op(xg, mg))
        g = mkop(pg, mg)
        W.g = g
        # the tag the operation is to be filed under: its first tag, or "default"
        gt = tags_of(xg, mg)
        first = z3.If(z3.Or(tags_none(xg, mg), z3.Length(gt) == 0), z3.StringVal("default"), Z.acc["s"](gt[0]))
        I.assume(z3.Implies(z3.Length(gt) > 0, Z.rec["str"](gt[0])))
        Tg = I.to_str_term(I.lib[utils.PythonIdentifier](I, [], {"value": SStr(first), "prefix": "tag"}))
        W.Tg = Tg

        def operation(x, m):
            o = SOpaque("operation", cls=object)
            if I.branch(tags_none(x, m)):
                o.attrs["tags"] = None
            else:
                o.attrs["tags"] = SSeq(tags_of(x, m), lambda e: Z.rec["str"](e), [lambda v: SStr(Z.acc["s"](v.t))])
            return o

        class PathItem(SOpaque):
            def __init__(self, x):
                super().__init__("path_item", cls=object)
                self.x = x

            def getattr_sym(self, I2, name):
                if I2.branch(has_op(self.x, name.t)):
                    return operation(self.x, name.t)
                return None

            def getattr(self, I2, name):
                if name in METHODS:
                    return self.getattr_sym(I2, SStr(z3.StringVal(name)))
                raise Unsupported(f"attribute {name} of a path item")

        class Paths(SOpaque):
            def getattr(self, I2, name):
                if name == "items":
                    return SFunc("model", lambda I3, a, k: SSeq(base, None, [lambda v: STuple([SStr(keyF(v.t)), PathItem(v.t)])]))
                raise Unsupported(f"dict method {name} on the paths mapping")
        data = Paths("data", cls=dict)

        def mk_error(op, kind):
            e = SObj(ParseError, {"detail": None, "level": None, "header": "h", "data": None})
            e.ghost_op, e.ghost_kind = op, kind
            return e

        def mk_endpoint(op):
            ep = SOpaque("endpoint", cls=object)
            ep.ghost_op, ep.ghost_kind = op, "endpoint"
            ep.attrs["name"] = SStr(name_of(op))
            warnings = z3.Function("warnings_of", W.Op, z3.SeqSort(Z.JV))
            ep.attrs["errors"] = SSeq(warnings(op), None, [lambda v: mk_error(op, "warning")])
            return ep

        def grown(I2, old, must=None):
            reg = I2.fresh("reg", OpSet)
            I2.assume(z3.IsSubset(old.reg, reg))
            if must is not None:
                I2.assume(z3.IsMember(must, reg))
            return _Schemas(reg)

        def ep_from_data(I2, a, k):
            op = mkop(I2.to_str_term(k["path"]), I2.to_str_term(k["method"]))
            if not isinstance(k["schemas"], _Schemas):
                raise Unsupported("Endpoint.from_data called with something else than the threaded schemas")
            W.current_op = op
            if I2.branch_free():
                return STuple([mk_endpoint(op), grown(I2, k["schemas"], op), SOpaque("parameters", cls=object)])
            return STuple([mk_error(op, "fatal"), grown(I2, k["schemas"]), SOpaque("parameters", cls=object)])

        def need_endpoint(I2, ep, who):
            # precondition of the two later steps (checked at the call site): the argument is an Endpoint -- the real
            # functions read attributes a ParseError does not have
            if getattr(ep, "ghost_kind", None) != "endpoint":
                I2.raise_(AttributeError, f"{who} called with something that is not an Endpoint")

        def add_parameters(I2, a, k):
            ep = k["endpoint"]
            need_endpoint(I2, ep, "Endpoint.add_parameters")
            if not isinstance(k["schemas"], _Schemas):
                raise Unsupported("Endpoint.add_parameters called with something else than the threaded schemas")
            if I2.branch_free():
                return STuple([mk_endpoint(ep.ghost_op), grown(I2, k["schemas"]), SOpaque("parameters", cls=object)])
            return STuple([mk_error(ep.ghost_op, "fatal"), grown(I2, k["schemas"]), SOpaque("parameters", cls=object)])

        def sort_parameters(I2, a, k):
            ep = k["endpoint"]
            need_endpoint(I2, ep, "Endpoint.sort_parameters")
            if I2.branch_free():
                return mk_endpoint(ep.ghost_op)
            return mk_error(ep.ghost_op, "fatal")
        I.contracts["openapi_python_client.parser.openapi:Endpoint.from_data"] = ep_from_data
        I.contracts["openapi_python_client.parser.openapi:Endpoint.add_parameters"] = add_parameters
        I.contracts["openapi_python_client.parser.openapi:Endpoint.sort_parameters"] = sort_parameters

        tagdict = _TagDict(W)
        I.empty_dict_hook = lambda: tagdict
        W.tagdict = tagdict

        def in_E():
            return z3.IsMember(g, z3.Select(W.E, Tg))

        def in_P():
            return z3.IsMember(g, z3.Select(W.P, Tg))

        def done(loc):
            sch = loc.get("schemas")
            reg_ok = z3.IsMember(g, sch.reg) if isinstance(sch, _Schemas) else z3.BoolVal(False)
            return z3.And(z3.IsMember(Tg, W.dom), z3.Xor(in_E(), in_P()), z3.Implies(in_E(), reg_ok))

        def not_yet():
            return z3.And(z3.Not(in_E()), z3.Not(in_P()))

        def kept(loc):
            sch = loc.get("schemas")
            once = z3.And(W.cnt >= 0, W.cnt <= 1, z3.Implies(W.cnt >= 1, z3.IsMember(W.mstar, z3.Select(W.M, W.tstar))))
            return z3.And(once, z3.IsSubset(W.schemas0.reg, sch.reg)) if isinstance(sch, _Schemas) else z3.BoolVal(False)

        def outer_inv(I2, loc, seen):
            n = z3.Length(seen)
            W.io = n
            # the keys of a mapping are pairwise distinct (instance: the generic position against the position reached)
            I2.assume(z3.Implies(z3.And(n < z3.Length(base), n != ig), keyF(base[n]) != pg))
            return z3.And(kept(loc), z3.If(ig < n, done(loc), not_yet()))

        def inner_inv(I2, loc, seen):
            n = z3.Length(seen)
            processed = z3.Or(ig < W.io, z3.And(ig == W.io, jm < n))
            return z3.And(kept(loc), z3.If(processed, done(loc), not_yet()))

        snap = {}

        def warnings_inv(I2, loc, seen):
            if z3.is_app(seen) and seen.decl().kind() == z3.Z3_OP_SEQ_EMPTY:
                snap["E"], snap["P"], snap["dom"], snap["M"], snap["cnt"] = W.E, W.P, W.dom, W.M, W.cnt
            return z3.And(W.E == snap["E"], W.P == snap["P"], W.dom == snap["dom"], W.M == snap["M"], W.cnt == snap["cnt"])

        def havoc_world(I2):
            W.E = I2.fresh("E", z3.ArraySort(S, OpSet))
            W.P = I2.fresh("P", z3.ArraySort(S, OpSet))
            W.dom = I2.fresh("dom", z3.SetSort(S))
            W.M = I2.fresh("M", z3.ArraySort(S, z3.SetSort(S)))
            W.cnt = I2.fresh("cnt", z3.IntSort())
            return None

        def havoc_schemas(I2):
            return _Schemas(I2.fresh("reg", OpSet))

        def havoc_params(I2):
            return SOpaque("parameters", cls=object)
        hv = {"__ghost_world__": havoc_world, "schemas": havoc_schemas, "parameters": havoc_params}
        I.loop_specs[(Q, 0)] = LoopSpec(outer_inv, dict(hv))
        I.loop_specs[(Q, 1)] = LoopSpec(inner_inv, dict(hv))
        I.loop_specs[(Q, 3)] = LoopSpec(warnings_inv, {"__ghost_world__": havoc_world})
        config = SOpaque("config", attrs={"generate_all_tags": False, "field_prefix": "field_"})
        W.schemas0 = _Schemas(z3.Const("reg0", OpSet))
        kw = dict(data=data, schemas=W.schemas0, parameters=SOpaque("parameters", cls=object),
                  request_bodies=SOpaque("request_bodies", cls=dict), responses=SOpaque("responses", cls=dict), config=config)
        return SFunc("pyfunc", M.EndpointCollection.from_data), [], kw, {"W": W}

    def accounted(ctx):
        W = ctx.inputs["W"]
        v = ctx.value
        if not isinstance(v, STuple) or len(v.items) != 3 or v.items[0] is not W.tagdict:
            return False
        g, Tg = W.g, W.Tg
        e, p = z3.IsMember(g, z3.Select(W.E, Tg)), z3.IsMember(g, z3.Select(W.P, Tg))
        return z3.And(z3.IsMember(Tg, W.dom), z3.Xor(e, p))

    def survive(ctx):
        W = ctx.inputs["W"]
        v = ctx.value
        if not isinstance(v, STuple) or len(v.items) != 3 or not isinstance(v.items[1], _Schemas):
            return False
        g, Tg = W.g, W.Tg
        return z3.And(z3.Implies(z3.IsMember(g, z3.Select(W.E, Tg)), z3.IsMember(g, v.items[1].reg)),
                      z3.IsSubset(W.schemas0.reg, v.items[1].reg))

    def one_module(ctx):
        W = ctx.inputs["W"]
        return W.cnt <= 1

    clauses = [
        Clause("one-endpoint-per-module", one_module,
               statement="for every tag and every module name, at most one endpoint whose PythonIdentifier(name) is that module "
                         "name is filed under that tag: two operations of one tag never share api/<tag>/<module>.py (the later one "
                         "is reported instead)", props=["C09", "C07", "C01"]),
        Clause("every-operation-accounted", accounted,
               statement="every operation of every path item (generic g) ends, in the collection of its first tag (or default), as "
                         "an Endpoint or as a fatal ParseError -- exactly one of the two; the mapping returned is the one holding "
                         "these collections", props=["C07", "C08"]),
        Clause("registrations-survive", survive,
               statement="the Schemas returned holds everything the initial one held and what every kept operation registered",
               props=["C08", "C07"]),
    ]
    return FnContract(Q, [Case("any-number-of-paths-and-operations", make, clauses, raises=(), props=["C07", "C08", "C06"])])
