"""Endpoint.sort_parameters (C03: "path placeholders filled in their own slots"): fixed shape, symbolic names.

    placeholders = re.findall(_PATH_PARAM_REGEX, endpoint.path)     -- by summary: a list of 0..2 names (any strings)
    endpoint.path_parameters                                         -- 0..2 parameters with symbolic wire / python names

  post  an Endpoint is returned  <=>  the parameters can be arranged so that their wire names are exactly the placeholders, in
        order (same number, every placeholder declared, every declared parameter used); then they ARE arranged that way;
        otherwise a ParseError;  the argument endpoint is not modified (the function works on a copy)
The rewriting of the path text (`str.replace` per parameter) is not part of this contract (Engine F: schematic operations whose
placeholder names recur in fixed segments and in each other).
"""
from __future__ import annotations

import itertools

import z3

from pyvc.engine_b import Case, Clause, FnContract
from pyvc.symexec import SFunc, SList, SObj, SOpaque, SStr

Q = "openapi_python_client.parser.openapi:Endpoint.sort_parameters"


def sort_contract():
    def make(I):
        import re
        from openapi_python_client.parser import openapi as M
        S = z3.StringSort()
        k = I.choose(3)
        n = I.choose(3)
        ph = [SStr(z3.Const(f"placeholder{j}", S)) for j in range(k)]
        I.lib = dict(I.lib)
        I.lib[re.findall] = lambda I2, a, kw: SList(list(ph))
        params = [SOpaque(f"param{j}", cls=object, attrs={"name": SStr(z3.Const(f"name{j}", S)),
                                                          "python_name": SStr(z3.Const(f"python_name{j}", S))}) for j in range(n)]
        plist = SList(list(params))
        path = SStr(z3.Const("path", S))
        ep = SObj(M.Endpoint, {"path": path, "method": "get", "description": None, "name": "op", "requires_security": False,
                               "tags": SList(), "summary": "", "relative_imports": SOpaque("imports"),
                               "query_parameters": SList(), "path_parameters": plist, "header_parameters": SList(),
                               "cookie_parameters": SList(), "responses": SList(), "bodies": SList(), "errors": SList()})
        return SFunc("pyfunc", M.Endpoint.sort_parameters), [], {"endpoint": ep}, {"ph": ph, "params": params, "ep": ep, "plist": plist,
                                                                                 "path": path}

    def matches(I, ph, names):
        """z3: names (python list of terms) == ph pairwise"""
        if len(ph) != len(names):
            return z3.BoolVal(False)
        return z3.And(*[a == b for a, b in zip(ph, names)]) if ph else z3.BoolVal(True)

    def post(ctx):
        from openapi_python_client.parser.errors import ParseError
        I, i = ctx.I, ctx.inputs
        ph = [p.t for p in i["ph"]]
        names = [p.attrs["name"].t for p in i["params"]]
        arrangeable = z3.Or(*[matches(I, ph, list(perm)) for perm in itertools.permutations(names)]) if len(ph) == len(names) \
            else z3.BoolVal(False)
        res = ctx.value
        if isinstance(res, SObj) and res.cls is ParseError:
            return z3.Not(arrangeable)
        if not (isinstance(res, SObj) and res.cls.__name__ == "Endpoint"):
            return False
        got = res.fields["path_parameters"]
        if not isinstance(got, SList) or len(got.items) != len(names):
            return False
        got_names = [I.to_str_term(I.get_attr(p, "name")) for p in got.items]
        return z3.And(arrangeable, matches(I, ph, got_names))

    def frame(ctx):
        i = ctx.inputs
        ep = i["ep"]
        return ep.fields["path"] is i["path"] and ep.fields["path_parameters"] is i["plist"] \
            and all(a is b for a, b in zip(i["plist"].items, i["params"])) and len(i["plist"].items) == len(i["params"]) \
            and ctx.value is not ep

    clauses = [
        Clause("placeholders-and-parameters-agree", post,
               statement="an Endpoint is returned iff the declared path parameters can be arranged to spell exactly the placeholders of "
                         "the path, in order; then they are arranged so; otherwise a ParseError (0-2 placeholders x 0-2 parameters, "
                         "any names, duplicates included)", props=["C03", "C07"]),
        Clause("argument-not-modified", frame, statement="the endpoint argument keeps its path and the order of its parameters; the "
                                                         "result is another object", props=["C03", "C08"]),
    ]
    return FnContract(Q, [Case("up-to-two-placeholders", make, clauses, raises=(), props=["C03", "C07", "C08"])])
