"""Sidecar contracts for merge_properties and its helpers (C15; default handling of C13).

merge_properties(p1, p2) is checked for every ordered pair of property kinds (structure enumerated exhaustively over
the closed set of 16 classes, every leaf symbolic).  Posts from the statement of C15 (`narrowest`), DESIGN A.3.
`convert_value` of the result kind is used by *summary* (modular): an uninterpreted conversion conv(kind, ctx, raw)
that yields a Value or a PropertyError; its own contract is C13.
"""
from __future__ import annotations

import itertools

import z3

from pyvc.engine_b import Case, Clause, FnContract
from pyvc.symexec import SBool, SDict, SFunc, SList, SObj, SOpaque, SSet, SStr, STuple, SV, Sorts, Unsupported

M = "openapi_python_client.parser.properties.merge_properties:"

SIMPLE = ["AnyProperty", "BooleanProperty", "DateProperty", "DateTimeProperty", "FileProperty", "FloatProperty",
          "IntProperty", "NoneProperty", "StringProperty", "UuidProperty"]
ALL = SIMPLE + ["ConstProperty", "EnumProperty", "LiteralEnumProperty", "ListProperty", "UnionProperty", "ModelProperty"]


def _classes():
    import openapi_python_client.parser.properties as P
    return {n: getattr(P, n) if hasattr(P, n) else None for n in ALL} | {
        "BooleanProperty": __import__("openapi_python_client.parser.properties.boolean", fromlist=["x"]).BooleanProperty,
        "ConstProperty": __import__("openapi_python_client.parser.properties.const", fromlist=["x"]).ConstProperty,
        "DateProperty": __import__("openapi_python_client.parser.properties.date", fromlist=["x"]).DateProperty,
        "DateTimeProperty": __import__("openapi_python_client.parser.properties.datetime", fromlist=["x"]).DateTimeProperty,
        "FileProperty": __import__("openapi_python_client.parser.properties.file", fromlist=["x"]).FileProperty,
        "FloatProperty": __import__("openapi_python_client.parser.properties.float", fromlist=["x"]).FloatProperty,
        "IntProperty": __import__("openapi_python_client.parser.properties.int", fromlist=["x"]).IntProperty,
        "NoneProperty": __import__("openapi_python_client.parser.properties.none", fromlist=["x"]).NoneProperty,
        "StringProperty": __import__("openapi_python_client.parser.properties.string", fromlist=["x"]).StringProperty,
        "UuidProperty": __import__("openapi_python_client.parser.properties.uuid", fromlist=["x"]).UuidProperty,
        "ListProperty": __import__("openapi_python_client.parser.properties.list_property", fromlist=["x"]).ListProperty,
        "UnionProperty": __import__("openapi_python_client.parser.properties.union", fromlist=["x"]).UnionProperty,
    }


class AbsSet(SOpaque):
    """a value set known only as a z3 set term (enum `values`): supports .items(), set(), <=, ==, `in`"""

    def __init__(self, term, name, is_table=False):
        super().__init__(name)
        self.term = term
        self.is_table = is_table          # a {member name: value} dict (EnumProperty) rather than a set of values (LiteralEnum)

    def getattr(self, I, attr):
        if attr == "items":
            # the (name, value) pairs: the table itself, in full
            return SFunc("model", lambda I2, a, k: AbsSet(self.term, self.name + ".items()", is_table=False))
        if attr in ("keys", "values"):
            # a coarser view of the member table (its names / its values only): inclusion and equality of tables imply the same
            # relation between their views, never the converse
            return SFunc("model", lambda I2, a, k: _AbsView(self, attr))
        raise Unsupported(f"attribute {attr} of an abstract value set")

    def as_absset(self):
        # set(<dict>) / iteration over a dict is the set of its KEYS: a coarser view of the member table
        return _AbsView(self, "keys") if self.is_table else self

    def __opaque_cmp__(self, I, op, other):
        import ast
        if not isinstance(other, AbsSet):
            raise Unsupported("comparison of an abstract set with something else")
        if isinstance(op, ast.LtE):
            return z3.IsSubset(self.term, other.term)
        if isinstance(op, ast.GtE):
            return z3.IsSubset(other.term, self.term)
        raise Unsupported("set comparison")

    def opaque_eq(self, I, other):
        return isinstance(other, AbsSet) and (self.term == other.term)

    def contains(self, I, x):
        return z3.IsMember(I.to_jv(x), self.term)


class _AbsView(SOpaque):
    def __init__(self, table, which):
        super().__init__(f"{table.name}.{which}()")
        self.table, self.which = table, which

    def as_absset(self):
        return self

    def _rel(self, I, other, kind):
        if not isinstance(other, _AbsView) or other.which != self.which:
            raise Unsupported("comparison of a member-table view with something else")
        a, b = self.table.term, other.table.term
        coarse = z3.Function(f"{self.which}_{kind}", a.sort(), b.sort(), z3.BoolSort())(a, b)
        full = z3.IsSubset(a, b) if kind == "subset" else (a == b)
        I.fact(z3.Implies(full, coarse))
        return coarse

    def __opaque_cmp__(self, I, op, other):
        import ast
        if isinstance(op, ast.LtE):
            return self._rel(I, other, "subset")
        if isinstance(op, ast.GtE):
            return other._rel(I, self, "subset")
        raise Unsupported("set comparison")

    def opaque_eq(self, I, other):
        return self._rel(I, other, "equal")


class SymProps:
    def __init__(self, I):
        self.I = I
        self.C = _classes()
        self.n = itertools.count()

    def opt_str(self, hint):
        """Optional[str] as one dynamic value (None or a string): no fork"""
        I, Z = self.I, self.I.Z
        t = z3.Const(f"{hint}_{next(self.n)}", Z.JV)
        I.assume(z3.Or(Z.rec["none"](t), Z.rec["str"](t)))
        return SV(t)

    def default(self, hint):
        from openapi_python_client.parser.properties.protocol import Value
        I = self.I
        if I.branch_free():
            return None
        k = next(self.n)
        return SObj(Value, {"python_code": SStr(z3.Const(f"{hint}_code_{k}", z3.StringSort())),
                            "raw_value": SV(z3.Const(f"{hint}_raw_{k}", I.Z.JV))})

    def prop(self, kind, hint, depth=0):
        I, Z = self.I, self.I.Z
        cls = self.C[kind]
        k = next(self.n)
        f = {
            "name": SStr(z3.Const(f"{hint}_name_{k}", z3.StringSort())),
            "required": SBool(z3.Const(f"{hint}_required_{k}", z3.BoolSort())),
            "default": self.default(hint),
            "python_name": SStr(z3.Const(f"{hint}_pyname_{k}", z3.StringSort())),
            "description": self.opt_str(hint + "_descr"),
            "example": self.opt_str(hint + "_example"),
        }
        setsort = z3.SetSort(Z.JV)
        if kind == "ConstProperty":
            from openapi_python_client.parser.properties.protocol import Value
            f["value"] = SObj(Value, {"python_code": SStr(z3.Const(f"{hint}_constcode_{k}", z3.StringSort())),
                                      "raw_value": SV(z3.Const(f"{hint}_constraw_{k}", Z.JV))})
        if kind in ("EnumProperty", "LiteralEnumProperty"):
            f["values"] = AbsSet(z3.Const(f"{hint}_values_{k}", setsort), f"{hint}.values", is_table=(kind == "EnumProperty"))
            f["class_info"] = SOpaque(f"{hint}.class_info")
            f["value_type"] = str if I.branch_free() else int
        if kind == "ListProperty":
            if depth > 0:
                raise Unsupported("nested list")
            inner_kind = ["StringProperty", "DateProperty", "IntProperty", "FloatProperty"][self.choice(4)]
            f["inner_property"] = self.prop(inner_kind, hint + "_inner", depth + 1)
        if kind == "UnionProperty":
            f["inner_properties"] = SOpaque(f"{hint}.inner_properties")
        if kind == "ModelProperty":
            for name in ("class_info", "data", "roots", "required_properties", "optional_properties", "relative_imports",
                         "lazy_imports", "additional_properties"):
                f[name] = SOpaque(f"{hint}.{name}")
            f["is_multipart_body"] = False
            f.pop("default")
            f["default"] = None
        p = SObj(cls, f)
        # class invariants established by every builder: a stored default is the conversion of its raw value against
        # this very property (C13); raw values are never JSON null; enum value sets are non-empty and of value_type
        F = _conv_fns(Z)
        d = f.get("default")
        if d is not None:
            raw = I.to_jv(d.fields["raw_value"])
            cx = _ctx_id(p)
            if cx is None:
                cx = z3.EmptySet(Z.JV)
            I.assume(z3.Not(Z.rec["none"](raw)))
            I.assume(F["ok"](ALL.index(kind), cx, raw))
            I.assume(I.to_str_term(d.fields["python_code"]) == F["code"](ALL.index(kind), cx, raw))
        if kind in ("EnumProperty", "LiteralEnumProperty"):
            w = z3.Const(f"{hint}_member_{k}", Z.JV)
            vt = f["value_type"]
            rec = Z.rec["str"] if vt is str else Z.rec["int"]
            I.assume(z3.IsMember(w, f["values"].term))
            x = z3.Const("x!elem", Z.JV)
            I.assume(z3.ForAll([x], z3.Implies(z3.IsMember(x, f["values"].term), rec(x))))
        return p

    def choice(self, n):
        for i in range(n - 1):
            if self.I.branch_free():
                return i
        return n - 1


def _kind(p):
    return p.cls.__name__


def _ctx_id(p):
    """what besides the class determines validity of a default: the value set of an enum, the constant"""
    if _kind(p) in ("EnumProperty", "LiteralEnumProperty"):
        return p.fields["values"].term
    return None


_CONV = {}


def _conv_fns(Z):
    if not _CONV:
        setsort = z3.SetSort(Z.JV)
        _CONV["ok"] = z3.Function("conv_ok", z3.IntSort(), setsort, Z.JV, z3.BoolSort())
        _CONV["code"] = z3.Function("conv_code", z3.IntSort(), setsort, Z.JV, z3.StringSort())
    return _CONV


def convert_summary(I, prop, raw):
    """assumed contract of <prop>.convert_value(raw) (proved per kind under C13): None for None, otherwise a Value whose
    code is a function of (kind, value set, raw) or a PropertyError"""
    from openapi_python_client.parser.errors import PropertyError
    from openapi_python_client.parser.properties.protocol import Value
    Z = I.Z
    F = _conv_fns(Z)
    if raw is None:
        return None
    kid = ALL.index(_kind(prop))
    ctx = _ctx_id(prop)
    if ctx is None:
        ctx = z3.EmptySet(Z.JV)
    t = I.to_jv(raw)
    if isinstance(raw, SV) and I.branch(Z.rec["none"](t)):
        return None
    if I.branch(F["ok"](kid, ctx, t)):
        return SObj(Value, {"python_code": SStr(F["code"](kid, ctx, t)), "raw_value": raw})
    return SObj(PropertyError, {"detail": "invalid default", "level": None, "header": "", "data": None})


def install_summaries(I):
    C = _classes()
    for name, cls in C.items():
        fn = cls.__dict__.get("convert_value")
        if fn is None:
            continue
        raw_fn = fn.__func__ if isinstance(fn, (classmethod, staticmethod)) else fn
        qn = f"{raw_fn.__module__}:{raw_fn.__qualname__}"

        def summ(I2, args, kwargs, cls=cls, is_cm=isinstance(fn, classmethod)):
            recv = args[0]
            raw = args[1] if len(args) > 1 else kwargs.get("value")
            if is_cm and not isinstance(recv, SObj):
                recv = SObj(recv, {})
            return convert_summary(I2, recv, raw)
        I.contracts[qn] = summ
    # type strings only feed diagnostics here; their own contracts are C10/C11
    for name in ("UnionProperty", "ModelProperty", "ListProperty", "ConstProperty", "EnumProperty", "LiteralEnumProperty"):
        cls = C[name]
        for meth in ("get_type_string", "get_base_type_string"):
            fn = cls.__dict__.get(meth)
            if fn is not None:
                I.contracts[f"{fn.__module__}:{fn.__qualname__}"] = \
                    lambda I2, a, k: SStr(I2.fresh("type_string", z3.StringSort()))


NARROW_FMT = {"DateProperty", "DateTimeProperty", "FileProperty", "UuidProperty"}


def narrowest(k1, k2):
    """('kind', K) | ('enum',) decided on value sets | ('undefined',)   -- from the statement of C15"""
    if k1 == "AnyProperty":
        return ("kind", k2)
    if k2 == "AnyProperty":
        return ("kind", k1)
    enums = ("EnumProperty", "LiteralEnumProperty")
    if k1 in enums or k2 in enums:
        if k1 == k2:
            return ("enum-enum", k1)
        e, o = (k1, k2) if k1 in enums else (k2, k1)
        if o in enums:
            return ("undefined",)
        if o in ("IntProperty", "StringProperty"):
            return ("enum-base", e, o)
        return ("undefined",)
    if k1 == k2:
        return ("kind", k1)
    if {k1, k2} == {"IntProperty", "FloatProperty"}:
        return ("kind", "IntProperty")
    if "StringProperty" in (k1, k2):
        o = k2 if k1 == "StringProperty" else k1
        if o in NARROW_FMT:
            return ("kind", o)
    return ("undefined",)


def merge_contract(k1, k2):
    from openapi_python_client.parser.errors import PropertyError

    def make(I):
        import openapi_python_client.parser.properties.merge_properties as mp
        install_summaries(I)
        sp = SymProps(I)
        p1 = sp.prop(k1, "p1")
        p2 = sp.prop(k2, "p2")
        snap = {"p1": _snapshot(p1), "p2": _snapshot(p2)}
        return SFunc("pyfunc", mp.merge_properties), [p1, p2], {}, {"p1": p1, "p2": p2, "snap": snap}

    def is_err(ctx):
        return isinstance(ctx.value, SObj) and issubclass(ctx.value.cls, PropertyError)

    def kind_clause(ctx):
        I = ctx.I
        p1, p2 = ctx.inputs["p1"], ctx.inputs["p2"]
        n = narrowest(k1, k2)
        if is_err(ctx):
            if n[0] == "undefined":
                return True
            if ctx.value.fields.get("detail") == "invalid default":
                return True         # a default that is not valid for the merged property: a legitimate diagnostic
            if n[0] == "enum-enum":
                # an error is right exactly when neither value set contains the other
                a, b = p1.fields["values"].term, p2.fields["values"].term
                return z3.Not(z3.Or(z3.IsSubset(a, b), z3.IsSubset(b, a)))
            if n[0] == "enum-base":
                e = p1 if k1 in ("EnumProperty", "LiteralEnumProperty") else p2
                base = {"IntProperty": int, "StringProperty": str}[n[2]]
                return e.fields["value_type"] is not base
            return True         # "... or a diagnostic" (e.g. string with uuid): allowed by the statement
        r = ctx.value
        if not isinstance(r, SObj):
            return False
        if n[0] == "undefined":
            return False        # incompatible kinds must not be merged silently
        if n[0] == "kind":
            return _kind(r) == n[1]
        if n[0] == "enum-base":
            e = p1 if k1 in ("EnumProperty", "LiteralEnumProperty") else p2
            return _kind(r) == n[1] and (r.fields["values"].term == e.fields["values"].term)
        if n[0] == "enum-enum":
            a, b = p1.fields["values"].term, p2.fields["values"].term
            rv = r.fields["values"].term
            return z3.And(z3.BoolVal(_kind(r) == n[1]),
                          z3.Or(z3.And(z3.IsSubset(a, b), rv == a), z3.And(z3.IsSubset(b, a), rv == b)))
        return False

    def required_clause(ctx):
        if is_err(ctx):
            return True
        p1, p2 = ctx.inputs["snap"]["p1"], ctx.inputs["snap"]["p2"]
        return ctx.value.fields["required"].t == z3.Or(p1["required"].t, p2["required"].t) if isinstance(
            ctx.value.fields["required"], SBool) else _bool_eq(ctx.value.fields["required"], p1["required"], p2["required"])

    def default_clause(ctx):
        """later non-null default wins and is (re)validated against the RESULT kind"""
        I = ctx.I
        if is_err(ctx):
            return True
        Z = I.Z
        F = _conv_fns(Z)
        r = ctx.value
        s1, s2 = ctx.inputs["snap"]["p1"], ctx.inputs["snap"]["p2"]
        d1, d2 = s1["default"], s2["default"]
        rd = r.fields["default"]
        kid = ALL.index(_kind(r))
        cx = _ctx_id(r)
        if cx is None:
            cx = z3.EmptySet(Z.JV)

        def is_conv_of(rd, d):
            if rd is None:
                return Z.rec["none"](I.to_jv(d.fields["raw_value"]))
            raw = I.to_jv(d.fields["raw_value"])
            same_raw = I.py_eq(rd.fields["raw_value"], d.fields["raw_value"])      # python equality (1 == 1.0) ...
            same_raw = same_raw if not isinstance(same_raw, bool) else z3.BoolVal(same_raw)
            same_raw = z3.Or(same_raw, I.to_jv(rd.fields["raw_value"]) == raw)       # ... or the very same value
            return z3.And(F["ok"](kid, cx, raw), I.to_str_term(rd.fields["python_code"]) == F["code"](kid, cx, raw), same_raw)
        if d2 is not None:
            return is_conv_of(rd, d2)
        if d1 is not None:
            if rd is None:
                return False
            same = z3.And(I.to_str_term(rd.fields["python_code"]) == I.to_str_term(d1.fields["python_code"]),
                          I.to_jv(rd.fields["raw_value"]) == I.to_jv(d1.fields["raw_value"]))
            # kept as is only if the result has the kind (and value set) the default was validated against
            kept_ok = _kind(r) == k1 and (_ctx_id(r) is None or z3.eq(_ctx_id(r), _ctx_id(ctx.inputs["p1"]) if _ctx_id(ctx.inputs["p1"]) is not None else cx))
            return z3.Or(is_conv_of(rd, d1), z3.And(same, z3.BoolVal(bool(kept_ok)))) if not isinstance(kept_ok, z3.BoolRef) \
                else z3.Or(is_conv_of(rd, d1), z3.And(same, kept_ok))
        return rd is None

    def text_clause(field):
        def f(ctx):
            I = ctx.I
            Z = I.Z
            if is_err(ctx):
                return True
            s1, s2 = ctx.inputs["snap"]["p1"], ctx.inputs["snap"]["p2"]
            t1, t2 = I.to_jv(s1[field]), I.to_jv(s2[field])
            got = I.to_jv(ctx.value.fields[field])
            # "specified" = a non-empty text (the code treats None and "" alike); later specified text wins
            spec = lambda t: z3.And(Z.rec["str"](t), z3.Length(Z.acc["s"](t)) > 0)
            return z3.If(spec(t2), got == t2, z3.If(spec(t1), got == t1, z3.Not(spec(got))))
        return f

    def frame_clause(ctx):
        """neither argument is mutated"""
        I = ctx.I
        cs = []
        for key in ("p1", "p2"):
            now = _snapshot(ctx.inputs[key])
            before = ctx.inputs["snap"][key]
            for fld, v in before.items():
                if now.get(fld) is not v:
                    return False
        return True

    def same_validation_clause(ctx):
        """two properties of one kind that differ in an attribute that affects validation are not merged silently"""
        I = ctx.I
        if is_err(ctx) or k1 != k2:
            return True
        p1, p2 = ctx.inputs["p1"], ctx.inputs["p2"]
        if k1 == "ConstProperty":
            return I.py_eq(p1.fields["value"], p2.fields["value"])
        if k1 == "UnionProperty":
            return I.py_eq(p1.fields["inner_properties"], p2.fields["inner_properties"])
        if k1 == "ModelProperty":
            return I.py_eq(p1.fields["class_info"], p2.fields["class_info"])
        return True

    def _agree(inputs, I):
        p1, p2 = inputs["p1"], inputs["p2"]
        f = {"ConstProperty": "value", "UnionProperty": "inner_properties", "ModelProperty": "class_info"}[k1]
        e = I.py_eq(p1.fields[f], p2.fields[f])
        return z3.BoolVal(e) if isinstance(e, bool) else e

    def _equal_props(inputs, I):
        e = I.py_eq(inputs["p1"], inputs["p2"])
        return z3.BoolVal(e) if isinstance(e, bool) else e

    clauses = [
        Clause("narrowest-kind", kind_clause, statement=f"merge({k1}, {k2}) is a diagnostic or has kind narrowest({k1}, {k2}) "
                                                        f"(with the narrower enum's values); undefined => diagnostic", props=["C15"]),
        Clause("required-is-or", required_clause, statement="result.required == p1.required or p2.required", props=["C15"]),
        Clause("default-later-wins-revalidated", default_clause,
               statement="the later non-null default wins and is converted against the kind (and value set) of the result",
               props=["C15", "C13"]),
        Clause("description-later-wins", text_clause("description"), statement="later specified description wins", props=["C15"]),
        Clause("example-later-wins", text_clause("example"), statement="later specified example wins", props=["C15"]),
        Clause("arguments-not-mutated", frame_clause, statement="neither argument is mutated (frame)", props=["C15"],
               known=["C15-K2-list-merge-mutates-argument"] if k1 == k2 == "ListProperty" else [],
               restrict=_equal_props if k1 == k2 == "ListProperty" else None),
        Clause("same-kind-validation-attributes-agree", same_validation_clause,
               statement="same kind but different const value / union members / model class => diagnostic, not a silent "
                         "choice of the first", props=["C15"],
               known=["C15-K1-same-kind-different-validation-merged"] if k1 == k2 and k1 in ("ConstProperty", "UnionProperty", "ModelProperty") else [],
               restrict=_agree if k1 == k2 and k1 in ("ConstProperty", "UnionProperty", "ModelProperty") else None),
    ]
    case = Case(f"{k1}x{k2}", make, clauses, raises=(), props=["C15", "C13"])
    return FnContract(M + "merge_properties", [case])


def _bool_eq(got, a, b):
    if isinstance(got, bool):
        return z3.Or(a.t, b.t) == got
    return got.t == z3.Or(a.t, b.t)


def _snapshot(p):
    return dict(p.fields)


def symmetry_contract(k1, k2):
    """is_error / kind / required are independent of member order"""
    from openapi_python_client.parser.errors import PropertyError

    def make(I):
        import openapi_python_client.parser.properties.merge_properties as mp
        install_summaries(I)
        sp = SymProps(I)
        p1 = sp.prop(k1, "p1")
        p2 = sp.prop(k2, "p2")
        # second pair: fresh objects with the same leaves (merge may mutate)
        q1 = SObj(p1.cls, dict(p1.fields))
        q2 = SObj(p2.cls, dict(p2.fields))
        if "inner_property" in q1.fields:
            q1.fields["inner_property"] = SObj(q1.fields["inner_property"].cls, dict(q1.fields["inner_property"].fields))
        if "inner_property" in q2.fields:
            q2.fields["inner_property"] = SObj(q2.fields["inner_property"].cls, dict(q2.fields["inner_property"].fields))

        def target(I2, a, k):
            r12 = I2.call_pyfunc(mp.merge_properties, [p1, p2], {})
            r21 = I2.call_pyfunc(mp.merge_properties, [q2, q1], {})
            return STuple([r12, r21])
        return SFunc("model", target), [], {}, {}

    def sym(ctx):
        I = ctx.I
        a, b = ctx.value.items
        ea = isinstance(a, SObj) and issubclass(a.cls, PropertyError)
        eb = isinstance(b, SObj) and issubclass(b.cls, PropertyError)
        if ea != eb:
            return False
        if ea:
            return True
        if _kind(a) != _kind(b):
            return False
        cs = [_req(a) == _req(b)]
        if "values" in a.fields:
            cs.append(a.fields["values"].term == b.fields["values"].term)
        return z3.And(*cs)

    def _req(p):
        r = p.fields["required"]
        return r.t if isinstance(r, SBool) else z3.BoolVal(bool(r))
    cl = Clause("order-independent", sym, statement=f"merge({k1},{k2}) and merge({k2},{k1}) agree on diagnostic / kind / "
                                                    f"value set / required", props=["C15"])
    # default-validity may differ between orders (which default is 'later'); that is covered by default-later-wins
    case = Case(f"symmetry[{k1}x{k2}]", make, [cl], raises=(), props=["C15"])
    return FnContract(M + "merge_properties", [case])
