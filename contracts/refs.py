"""Sidecar contracts for the reference resolvers (C20; default re-validation of C13; dependency recording of C08/C01).

  _property_from_ref        properties/__init__.py
  Schemas.add_dependencies  properties/schemas.py
  parse_reference_path      properties/schemas.py          (urlparse assumed)
  parameter_from_reference  properties/schemas.py
  parameter_from_data       properties/schemas.py           (copy >= read)
"""
from __future__ import annotations

import z3

from pyvc.absdata import GrowSet, LazyMap
from pyvc.engine_b import Case, Clause, FnContract
from pyvc.symexec import SBool, SFunc, SList, SObj, SOpaque, SSet, SStr, STuple, SV, Unsupported
import contracts.merge as cm

P = "openapi_python_client.parser.properties"


def _errors():
    from openapi_python_client.parser import errors
    return errors


def parse_ref_summary(I):
    """assumed contract of parse_reference_path (verified separately below): a ParseError or the fragment string"""
    E = _errors()
    frag = z3.Function("ref_fragment", z3.StringSort(), z3.StringSort())
    local = z3.Function("ref_is_local", z3.StringSort(), z3.BoolSort())

    def summ(I2, args, kwargs):
        raw = args[0] if args else kwargs["ref_path_raw"]
        t = I2.to_str_term(raw)
        if I2.branch(local(t)):
            return SStr(frag(t))
        return SObj(E.ParseError, {"detail": SStr(I2.fresh("detail", z3.StringSort())), "level": None, "header": "", "data": None})
    I.contracts[f"{P}.schemas:parse_reference_path"] = summ
    return frag, local


def property_from_ref_contract(kind):
    E = _errors()

    def make(I):
        import openapi_python_client.parser.properties as props
        from openapi_python_client.parser.properties.schemas import Schemas
        from openapi_python_client import schema as oai
        cm.install_summaries(I)
        frag, local = parse_ref_summary(I)
        sp = cm.SymProps(I)
        existing = sp.prop(kind, "existing")
        cbr = LazyMap("classes_by_reference", lambda I2, k: existing)
        deps = LazyMap("dependencies", lambda I2, k: GrowSet("dependencies[ref]"))
        cbn = LazyMap("classes_by_name", lambda I2, k: SOpaque("some class"))
        schemas = SObj(Schemas, {"classes_by_reference": cbr, "dependencies": deps, "classes_by_name": cbn,
                                 "models_to_process": SList(), "errors": SList()})
        name = SStr(z3.Const("name", z3.StringSort()))
        required = SBool(z3.Const("required", z3.BoolSort()))
        has_parent = I.branch_free()
        pdefault = SV(z3.Const("parent_default", I.Z.JV))
        I.assume(z3.Not(z3.Or(I.Z.rec["unset"](pdefault.t), I.Z.rec["absent"](pdefault.t), I.Z.rec["obj"](pdefault.t),
                              I.Z.rec["val"](pdefault.t))))
        # what else the wrapper says (its `type`, possibly a list with "null") is the wrapper's business: the class shared
        # by every user of the reference must not be edited because of it
        ptype = None
        if has_parent and kind in ("UnionProperty", "ModelProperty"):
            ptype = [None, oai.DataType.OBJECT, SList([oai.DataType.OBJECT, oai.DataType.NULL])][sp.choice(3)]
        parent = SOpaque("parent", attrs={"default": pdefault, "type": ptype, "nullable": None}) if has_parent else None
        if kind == "UnionProperty":
            existing.fields["inner_properties"] = SList([sp.prop("StringProperty", "member0", 1), sp.prop("IntProperty", "member1", 1)])
        ref = SStr(z3.Const("ref", z3.StringSort()))
        data = SObj(oai.Reference, {"ref": ref})
        config = SOpaque("config", attrs={"field_prefix": SStr(z3.Const("field_prefix", z3.StringSort()))})
        roots = SSet()
        roots_token = SOpaque("roots")
        roots = GrowSet("roots")
        snap = dict(existing.fields)
        deep = {f: list(v.items) for f, v in existing.fields.items() if isinstance(v, SList)}
        deep.update({f"{f}[{n}]": dict(x.fields) for f, v in existing.fields.items() if isinstance(v, SList)
                     for n, x in enumerate(v.items) if isinstance(x, SObj)})
        snap["__deep__"] = deep
        return SFunc("pyfunc", props._property_from_ref), [], dict(name=name, required=required, parent=parent, data=data,
                                                                    schemas=schemas, config=config, roots=roots), {
            "existing": existing, "schemas": schemas, "cbr": cbr, "deps": deps, "roots": roots, "parent": parent,
            "pdefault": pdefault, "name": name, "required": required, "data": data, "snap": snap, "frag": frag, "local": local,
            "ref": ref, "config": config}

    def parts(ctx):
        v = ctx.value
        return v.items[0], v.items[1]

    def is_err(p):
        return isinstance(p, SObj) and issubclass(p.cls, E.PropertyError)

    def schemas_same(ctx):
        prop, sch = parts(ctx)
        i = ctx.inputs
        if sch is not i["schemas"]:
            return False
        # classes_by_reference / classes_by_name are never written by this function
        return not i["cbr"].log and sch.fields["classes_by_reference"] is i["cbr"]

    def default_revalidated(ctx):
        """the default declared next to the reference is converted against the referenced class; error => returned"""
        I = ctx.I
        Z = I.Z
        F = cm._conv_fns(Z)
        prop, sch = parts(ctx)
        i = ctx.inputs
        ex = i["existing"]
        found = any(v is ex for _, v in i["cbr"].entries)
        if not found:
            return is_err(prop)                 # unresolvable reference: a diagnostic
        kid = cm.ALL.index(cm._kind(ex))
        cx = cm._ctx_id(ex)
        if cx is None:
            cx = z3.EmptySet(Z.JV)
        if i["parent"] is None:
            return (not is_err(prop)) and prop.fields["default"] is None
        raw = i["pdefault"].t
        isnone = Z.rec["none"](raw)
        if is_err(prop):
            return z3.And(z3.Not(isnone), z3.Not(F["ok"](kid, cx, raw)))
        d = prop.fields["default"]
        if d is None:
            return isnone
        return z3.And(z3.Not(isnone), F["ok"](kid, cx, raw), I.to_str_term(d.fields["python_code"]) == F["code"](kid, cx, raw),
                      I.to_jv(d.fields["raw_value"]) == raw)

    def shares_class(ctx):
        """the result is the registered property with only name/required/python_name/default evolved (one generated
        class per schema, C20)"""
        I = ctx.I
        prop, sch = parts(ctx)
        i = ctx.inputs
        if is_err(prop):
            return True
        ex = i["existing"]
        if prop.cls is not ex.cls:
            return False
        cs = []
        for f, v in i["snap"].items():
            if f in ("name", "required", "python_name", "default", "__deep__"):
                continue
            if prop.fields.get(f) is not v:
                return False
        cs.append(I.py_eq(prop.fields["name"], i["name"]))
        cs.append(I.py_eq(prop.fields["required"], i["required"]))
        from openapi_python_client import utils
        want = I.lib[utils.PythonIdentifier](I, [], {"value": i["name"], "prefix": i["config"].attrs["field_prefix"]})
        cs.append(I.py_eq(prop.fields["python_name"], want))
        cs = [c for c in cs if c is not True]
        if any(c is False for c in cs):
            return False
        return z3.And(*cs) if cs else True

    def registered_unchanged(ctx):
        """the registered property (shared by every other user of the reference) keeps every field, and its member list
        keeps its members (same objects, same fields): nothing the using site says is written into it"""
        i = ctx.inputs
        ex = i["existing"]
        snap = i["snap"]
        if set(ex.fields) != set(snap) - {"__deep__"}:
            return False
        if any(ex.fields[f] is not v for f, v in snap.items() if f != "__deep__"):
            return False
        for f, items in snap["__deep__"].items():
            if "[" in f:
                continue
            cur = ex.fields[f].items
            if len(cur) != len(items) or any(a is not b for a, b in zip(cur, items)):
                return False
            for n, x in enumerate(cur):
                want = snap["__deep__"].get(f"{f}[{n}]")
                if want is not None and (set(x.fields) != set(want) or any(x.fields[k] is not want[k] for k in want)):
                    return False
        return True

    def dependency_recorded(ctx):
        """success: roots are added to the dependants of the referenced path, in a set that belongs to the table (not the
        caller's own roots object); failure: the table is untouched"""
        I = ctx.I
        prop, sch = parts(ctx)
        i = ctx.inputs
        deps, roots = i["deps"], i["roots"]
        if is_err(prop):
            return not deps.log and not any(isinstance(v, GrowSet) and v.log for _, v in deps.entries) and not roots.log
        if roots.log:
            return False            # the caller's set must not be written to
        key = SStr(i["frag"](i["ref"].t))
        hits = []
        for k, v in deps.entries:
            if v is roots:
                return False        # aliasing: the caller's set became a table entry
            if isinstance(v, GrowSet) and any(op == "update" and s is roots for op, s in v.added):
                hits.append(I.py_eq(k, key))
            elif isinstance(v, SSet) and roots in getattr(v, "absorbed", []):
                hits.append(I.py_eq(k, key))      # a fresh set() stored under the key and updated with roots
        if not hits:
            return False
        hits = [h for h in hits if h is not False]
        if any(h is True for h in hits):
            return True
        return z3.Or(*hits) if hits else False

    def error_data(ctx):
        I = ctx.I
        prop, sch = parts(ctx)
        i = ctx.inputs
        if not is_err(prop):
            return True
        d = prop.fields.get("data")
        return d is i["data"] or (i["parent"] is not None and d is i["parent"])

    clauses = [
        Clause("schemas-untouched", schemas_same, statement="the returned Schemas is the argument; classes_by_reference is not written",
               props=["C20", "C08"]),
        Clause("default-revalidated", default_revalidated,
               statement="unresolvable reference => PropertyError; otherwise the sibling default is converted against the "
                         "referenced property (None stays None -- so a wrapper without a default behaves like the bare reference --, "
                         "invalid => that PropertyError is returned)", props=["C13", "C20", "C17"]),
        Clause("shares-registered-class", shares_class,
               statement="result == registered property with name/required/python_name/default replaced; every other field "
                         "(class_info, values, inner properties...) is the registered object's", props=["C20"]),
        Clause("registered-property-unchanged", registered_unchanged,
               statement="the registered property keeps every field and (a union) its member list with the same member records, "
                         "whatever the using site's wrapper says (type / nullable / default): other users of the reference see "
                         "the component as declared", props=["C20", "C08", "C10", "C12"]),
        Clause("dependency-recorded", dependency_recorded,
               statement="success: roots added to dependencies[ref] (a set owned by the table, not the caller's object); "
                         "failure: dependencies untouched", props=["C20", "C08", "C01"]),
        Clause("error-names-the-using-item", error_data, statement="a PropertyError carries the reference or its wrapper as data",
               props=["C20", "C07"]),
    ]
    case = Case(f"existing={kind}", make, clauses, raises=(), props=["C20", "C13", "C08", "C17", "C10"])
    return FnContract(f"{P}:_property_from_ref", [case])


def add_dependencies_contract():
    def make(I):
        from openapi_python_client.parser.properties.schemas import Schemas
        deps = LazyMap("dependencies", lambda I2, k: GrowSet("dependencies[ref]"))
        schemas = SObj(Schemas, {"classes_by_reference": SOpaque("cbr"), "dependencies": deps, "classes_by_name": SOpaque("cbn"),
                                 "models_to_process": SList(), "errors": SList()})
        roots = GrowSet("roots")
        key = SStr(z3.Const("ref_path", z3.StringSort()))
        return SFunc("pyfunc", Schemas.add_dependencies), [schemas], {"ref_path": key, "roots": roots}, {
            "deps": deps, "roots": roots, "key": key, "schemas": schemas}

    def post(ctx):
        I = ctx.I
        i = ctx.inputs
        deps, roots, key = i["deps"], i["roots"], i["key"]
        if roots.log:
            return False
        ok = []
        for k, v in deps.entries:
            if v is roots:
                return False
            if isinstance(v, GrowSet) and any(op == "update" and s is roots for op, s in v.added):
                ok.append(I.py_eq(k, key))
            if isinstance(v, SSet) and roots in getattr(v, "absorbed", []):
                ok.append(I.py_eq(k, key))
        ok = [o for o in ok if o is not False]
        if any(o is True for o in ok):
            return True
        return z3.Or(*ok) if ok else False

    cl = Clause("records-into-table-owned-set", post,
                statement="dependencies[ref_path] afterwards contains roots; the set stored in the table is not the caller's "
                          "roots object and the caller's set is not modified", props=["C20", "C08"])
    return FnContract(f"{P}.schemas:Schemas.add_dependencies", [Case("any", make, [cl], raises=(), props=["C20", "C08"])])


def parameter_from_reference_contract():
    E = _errors()

    def make(I):
        from openapi_python_client.parser.properties import schemas as S
        from openapi_python_client import schema as oai
        frag, local = parse_ref_summary(I)
        registered = SObj(S.Parameter, {"name": SStr(z3.Const("reg_name", z3.StringSort()))})
        cbr = LazyMap("parameters.classes_by_reference", lambda I2, k: registered)
        params = SObj(S.Parameters, {"classes_by_reference": cbr, "classes_by_name": SOpaque("cbn"), "errors": SList()})
        if I.branch_free():
            p = SObj(S.Parameter, {"name": SStr(z3.Const("inline_name", z3.StringSort()))})
        else:
            p = SObj(oai.Reference, {"ref": SStr(z3.Const("ref", z3.StringSort()))})
        return SFunc("pyfunc", S.parameter_from_reference), [], {"param": p, "parameters": params}, {
            "p": p, "registered": registered, "cbr": cbr, "S": S}

    def post(ctx):
        i = ctx.inputs
        S = i["S"]
        v = ctx.value
        if i["p"].cls is S.Parameter:
            return v is i["p"]
        found = any(val is i["registered"] for _, val in i["cbr"].entries)
        if found:
            return v is i["registered"]
        return isinstance(v, SObj) and issubclass(v.cls, E.ParameterError)

    def frame(ctx):
        return not ctx.inputs["cbr"].log

    cls = [Clause("resolves-to-the-component-itself", post,
                  statement="an inline parameter is returned as is; a reference yields the registered Parameter object itself "
                            "(identity => same code as inline) or a ParameterError", props=["C20"]),
           Clause("table-untouched", frame, statement="the parameter table is not modified", props=["C20"])]
    return FnContract(f"{P}.schemas:parameter_from_reference", [Case("any", make, cls, raises=(), props=["C20"])])


READ_BY_ADD_PARAMETERS = None


def copy_superset_of_read_obligation(rep, prop="C20"):
    """C20 'copy >= read': every field of a Parameter that Endpoint.add_parameters (and what it calls) reads is among the
    fields parameter_from_data copies into the registered Parameter.  Syntactic obligation over the real ASTs."""
    import ast
    from pyvc import source
    from pyvc.core import Obligation, PROVED, REFUTED, UNDECIDED
    ob = Obligation(id=f"{prop}.B.parameter_from_data.copy-superset-of-read", props=[prop],
                    unit=f"{P}.schemas:parameter_from_data", backend="syntactic (AST data flow)",
                    formula="fields read from a parameter by Endpoint.add_parameters / _check_parameters_for_conflicts "
                            "<= fields copied by parameter_from_data")
    m1, f1 = source.func(f"{P}.schemas:parameter_from_data")
    m2, f2 = source.func("openapi_python_client.parser.openapi:Endpoint.add_parameters")
    if f1 is None or f2 is None:
        ob.status, ob.detail = UNDECIDED, "function not found"
        return rep.add(ob)
    ob.where = m1.where(f1)
    rep.fuc(f"{P}.schemas:parameter_from_data", m1.where(f1), m1.func_hash(f1))
    copied = set()
    for n in ast.walk(f1):
        if isinstance(n, ast.Call) and isinstance(n.func, ast.Name) and n.func.id == "Parameter":
            copied = {kw.arg for kw in n.keywords}
    read = set()
    for n in ast.walk(f2):
        if isinstance(n, ast.Attribute) and isinstance(n.value, ast.Name) and n.value.id == "param" and isinstance(n.ctx, ast.Load):
            read.add(n.attr)
    if not copied or not read:
        ob.status, ob.detail = UNDECIDED, f"could not determine field sets (copied={copied}, read={read})"
    elif read <= copied:
        ob.status, ob.detail = PROVED, f"read {sorted(read)} <= copied {sorted(copied)}"
    else:
        ob.status, ob.detail = REFUTED, f"read but not copied: {sorted(read - copied)}"
    return rep.add(ob)


FIELDS = ("required", "explode", "style", "param_schema", "param_in")


def parameter_from_data_contract():
    """C20: the Parameter registered for a component is a field-by-field copy of THAT component (whatever the table already
    holds, e.g. another component with the same wire name in another location)."""
    E = _errors()

    def make(I):
        from openapi_python_client.parser.properties import schemas as S
        from openapi_python_client import schema as oai
        other = SObj(S.Parameter, {"name": SStr(z3.Const("other_name", z3.StringSort())),
                                   **{f: SOpaque(f"other.{f}") for f in FIELDS}})
        cbn = LazyMap("parameters.classes_by_name", lambda I2, k: other)
        params = SObj(S.Parameters, {"classes_by_reference": SOpaque("cbr"), "classes_by_name": cbn, "errors": SList()})
        kind = I.choose(3)
        name = SStr(z3.Const("name", z3.StringSort()))
        if kind == 0:
            data = SObj(oai.Reference, {"ref": SStr(z3.Const("ref", z3.StringSort()))})
        else:
            attrs = {f: SOpaque(f"data.{f}") for f in FIELDS}
            attrs["name"] = name
            if kind == 1:
                attrs["param_schema"] = None
            data = SOpaque("data", cls=oai.Parameter, attrs=attrs)
        config = SOpaque("config", attrs={"field_prefix": "field_"})
        return SFunc("pyfunc", S.parameter_from_data), [], {"name": name, "data": data, "parameters": params, "config": config}, {
            "data": data, "kind": kind, "name": name, "S": S, "params": params, "other": other}

    def copy(ctx):
        i = ctx.inputs
        res, table = ctx.value.items
        if i["kind"] != 2:
            return isinstance(res, SObj) and issubclass(res.cls, E.ParameterError) and table is i["params"]
        if not (isinstance(res, SObj) and res.cls is i["S"].Parameter) or res is i["other"]:
            return False
        if res.fields.get("name") is not i["name"]:
            return False
        return all(res.fields.get(f) is i["data"].attrs[f] for f in FIELDS)

    cls = [Clause("copy-of-this-component", copy,
                  statement="a Reference / a parameter without schema yields a ParameterError and the table unchanged; otherwise the "
                            "result is a new Parameter whose name, required, explode, style, schema and location are those of the "
                            "data, whatever the table already holds", props=["C20", "C03"])]
    return FnContract(f"{P}.schemas:parameter_from_data", [Case("any-table", make, cls, raises=(), props=["C20", "C03"])])


def update_parameters_contract():
    """C20: after update_parameters_with_data the reference path maps to the Parameter built from this component's data"""
    E = _errors()

    def make(I):
        from openapi_python_client.parser.properties import schemas as S
        built = SObj(S.Parameter, {"name": "built"})
        err = SObj(E.ParameterError, {"detail": "d", "header": "h", "data": None, "level": None})
        fails = I.branch_free()
        params2 = SObj(S.Parameters, {"classes_by_reference": LazyMap("cbr", lambda I2, k: SOpaque("an earlier parameter")),
                                      "classes_by_name": SOpaque("cbn"), "errors": SList()})
        I.contracts[f"{P}.schemas:parameter_from_data"] = lambda I2, a, k: STuple([err if fails else built, params2])
        data = SOpaque("data", attrs={"name": SStr(z3.Const("name", z3.StringSort()))})
        ref = SStr(z3.Const("ref_path", z3.StringSort()))
        params = SObj(S.Parameters, {"classes_by_reference": SOpaque("cbr0"), "classes_by_name": SOpaque("cbn0"), "errors": SList()})
        return SFunc("pyfunc", S.update_parameters_with_data), [], {"ref_path": ref, "data": data, "parameters": params,
                                                                   "config": SOpaque("config")}, {
            "fails": fails, "built": built, "ref": ref, "S": S}

    def registered(ctx):
        i = ctx.inputs
        v = ctx.value
        if i["fails"]:
            return isinstance(v, SObj) and issubclass(v.cls, E.ParameterError)
        if not (isinstance(v, SObj) and v.cls is i["S"].Parameters):
            return False
        cbr = v.fields["classes_by_reference"]
        if not isinstance(cbr, LazyMap):
            return False
        I = ctx.I
        hits = [val for k, val in cbr.entries if I.must(I.to_str_term(k) == i["ref"].t)]
        if len(hits) == 1 and hits[0] is not i["built"] and getattr(hits[0], "name", "") == "an earlier parameter":
            # pre-condition of the callers: a reference path is registered at most once (component keys are unique and a
            # component is retried only while it is unregistered); `{ref_path: param, **table}` lets an older entry win
            return True
        return len(hits) >= 1 and hits[0] is i["built"]

    cls = [Clause("reference-maps-to-the-built-parameter", registered,
                  statement="on success classes_by_reference[ref_path] is the Parameter parameter_from_data built from this "
                            "component (pre: ref_path not yet registered); on failure a ParameterError", props=["C20"])]
    return FnContract(f"{P}.schemas:update_parameters_with_data", [Case("any", make, cls, raises=(), props=["C20"])])


def update_schemas_contract():
    """C07/C20: a component schema that parses is registered under its reference path (the object property_from_data
    returned); one that does not yields a PropertyError whose header names the component reference"""
    E = _errors()

    def make(I):
        from openapi_python_client.parser.properties import schemas as S
        built = SOpaque("built property", cls=object)
        fails = I.branch_free()
        err = SObj(E.PropertyError, {"detail": SStr(z3.Const("detail", z3.StringSort())), "header": SStr(z3.Const("header", z3.StringSort())),
                                     "data": None, "level": None})
        schemas2 = SObj(S.Schemas, {"classes_by_reference": LazyMap("cbr", lambda I2, k: SOpaque("an earlier class")),
                                    "classes_by_name": SOpaque("cbn"), "dependencies": SOpaque("deps"), "models_to_process": SList(),
                                    "errors": SList()})
        calls = []

        def pfd(I2, a, k):
            calls.append(k)
            return STuple([err if fails else built, schemas2])
        I.contracts[f"{P}:property_from_data"] = pfd
        ref = SStr(z3.Const("ref_path", z3.StringSort()))
        data = SOpaque("data")
        schemas = SObj(S.Schemas, {"classes_by_reference": SOpaque("cbr0"), "classes_by_name": SOpaque("cbn0"),
                                   "dependencies": SOpaque("deps0"), "models_to_process": SList(), "errors": SList()})
        return SFunc("pyfunc", S.update_schemas_with_data), [], {"ref_path": ref, "data": data, "schemas": schemas,
                                                                "config": SOpaque("config")}, {
            "fails": fails, "built": built, "ref": ref, "S": S, "calls": calls, "data": data, "err": err}

    def registered(ctx):
        i, I = ctx.inputs, ctx.I
        v = ctx.value
        if len(i["calls"]) != 1 or i["calls"][0]["data"] is not i["data"]:
            return False
        if i["fails"]:
            if v is not i["err"]:
                return False
            # the diagnostic identifies the component
            return z3.Contains(I.to_str_term(v.fields["header"]), i["ref"].t)
        if not (isinstance(v, SObj) and v.cls is i["S"].Schemas):
            return False
        cbr = v.fields["classes_by_reference"]
        if not isinstance(cbr, LazyMap):
            return False
        hits = [val for k, val in cbr.entries if I.must(I.to_str_term(k) == i["ref"].t)]
        if len(hits) == 1 and hits[0] is not i["built"] and getattr(hits[0], "name", "") == "an earlier class":
            return True        # pre-condition of the callers: a reference path is registered at most once
        return len(hits) >= 1 and hits[0] is i["built"]

    cls = [Clause("registered-or-named-in-the-diagnostic", registered,
                  statement="the component's own data is parsed once; on success classes_by_reference[ref_path] is the property "
                            "built from it (pre: not yet registered); on failure the PropertyError's header contains the reference "
                            "path", props=["C07", "C20"])]
    return FnContract(f"{P}.schemas:update_schemas_with_data", [Case("any", make, cls, raises=(), props=["C07", "C20"])])


def parse_reference_path_contract():
    """C20 (all malformed reference strings): only a pure local fragment reference is accepted.  `urlparse` is an assumed
    library function: its six components are uninterpreted functions of the string with the one fact
        all components but the fragment empty  =>  clean(string) is "" or "#" + fragment
    where clean is urlsplit's own pre-processing (leading controls / spaces stripped, tab / CR / LF removed; uninterpreted);
    the fact is validated natively on a pool of strings by the bounded stand-in `reference_strings`."""
    E = _errors()

    def make(I):
        from openapi_python_client.parser.properties import schemas as S
        import urllib.parse as up
        from pyvc.libmodels import MODELS
        St = z3.StringSort()
        raw = SStr(z3.Const("raw", St))
        comp = {n: z3.Function(f"urlparse_{n}", St, St) for n in ("scheme", "netloc", "path", "params", "query", "fragment")}
        clean = z3.Function("urlsplit_clean", St, St)

        def urlparse(I2, a, k):
            t = I2.to_str_term(a[0])
            rest_empty = z3.And(*[comp[n](t) == "" for n in ("scheme", "netloc", "path", "params", "query")])
            I2.fact(z3.Implies(rest_empty, z3.Or(clean(t) == "", clean(t) == z3.Concat(z3.StringVal("#"), comp["fragment"](t)))))
            return SOpaque("ParseResult", attrs={n: SStr(f(t)) for n, f in comp.items()})
        I.lib = dict(I.lib)
        I.lib[up.urlparse] = urlparse
        return SFunc("pyfunc", S.parse_reference_path), [raw], {}, {"raw": raw, "clean": clean}

    def post(ctx):
        I, i = ctx.I, ctx.inputs
        v = ctx.value
        if isinstance(v, SObj) and issubclass(v.cls, E.ParseError):
            return True
        r = I.to_str_term(v)
        t = i["clean"](i["raw"].t)
        return z3.Or(t == "", t == z3.Concat(z3.StringVal("#"), r))

    cl = Clause("only-local-fragments-are-accepted", post,
                statement="a reference string is accepted only if, after urlsplit's own whitespace cleaning, it is empty or exactly "
                          "'#' + the returned fragment (no scheme, host, path, parameters or query in front of it); everything else is "
                          "a ParseError", props=["C20", "C08"])
    return FnContract(f"{P}.schemas:parse_reference_path", [Case("any-string", make, [cl], raises=(), props=["C20", "C08"])])
