"""The top of the call chain (C06: "when the document as a whole is rejected nothing is written to the output location"; the
diagnostics of every stage reach the exit-status computation; C16: custom_template_path and config reach the Project unchanged).

  openapi_python_client._get_project_for_url_or_path(config, custom_template_path)
        the document is fetched from config.document_source with config.http_timeout; a GeneratorError of the loader or of
        GeneratorData.from_dict is returned AS IT IS and no Project is constructed; otherwise Project(openapi=<that data>,
        custom_template_path=<the argument>, config=<the argument>)
  openapi_python_client.generate(config, custom_template_path)
        a rejected document: returns [that error] and build() is never called (nothing is written); otherwise exactly the
        diagnostics project.build() returns
  openapi_python_client.cli.generate(...)
        the Config comes from _process_config with exactly the command line's values; generate() gets that Config and the
        custom template path; handle_errors gets exactly generate()'s diagnostics and the fail_on_warning flag
Callees by summary (own contracts: _get_document, GeneratorData.from_dict, Project.__init__, Project.build, _process_config,
handle_errors).
"""
from __future__ import annotations

import z3

from pyvc.engine_b import Case, Clause, FnContract
from pyvc.symexec import SBool, SFunc, SList, SObj, SOpaque, SStr

OPC = "openapi_python_client"


def _err():
    from openapi_python_client.parser.errors import GeneratorError
    return SObj(GeneratorError, {"detail": None, "level": None, "header": "rejected"})


def get_project_contract():
    def make(I):
        import openapi_python_client as opc
        log = {"doc": [], "from_dict": [], "project": []}
        e1, e2 = _err(), _err()
        doc, data, proj = SOpaque("document", cls=dict), SOpaque("GeneratorData", cls=object), SOpaque("Project", cls=object)
        stage = I.choose(3)         # 0: loader fails, 1: validation fails, 2: accepted

        def get_document(I2, a, k):
            log["doc"].append((list(a), dict(k)))
            return e1 if stage == 0 else doc
        I.contracts[f"{OPC}:_get_document"] = get_document

        def from_dict(I2, a, k):
            log["from_dict"].append((list(a), dict(k)))
            return e2 if stage == 1 else data
        I.contracts[f"{OPC}.parser.openapi:GeneratorData.from_dict"] = from_dict
        I.lib = dict(I.lib)

        def project(I2, a, k):
            log["project"].append((list(a), dict(k)))
            return proj
        I.lib[opc.Project] = project
        config = SOpaque("config", attrs={"document_source": SOpaque("source"), "http_timeout": SOpaque("timeout")})
        ctp = SOpaque("custom_template_path") if I.branch_free() else None
        kw = {"config": config, "custom_template_path": ctp}
        return SFunc("pyfunc", opc._get_project_for_url_or_path), [], kw, {
            "log": log, "stage": stage, "e1": e1, "e2": e2, "doc": doc, "data": data, "proj": proj, "config": config, "ctp": ctp}

    def post(ctx):
        i = ctx.inputs
        log = i["log"]
        if len(log["doc"]) != 1:
            return False
        a, k = log["doc"][0]
        if a or set(k) != {"source", "timeout"} or k["source"] is not i["config"].attrs["document_source"] \
                or k["timeout"] is not i["config"].attrs["http_timeout"]:
            return False
        if i["stage"] == 0:
            return ctx.value is i["e1"] and not log["from_dict"] and not log["project"]
        if len(log["from_dict"]) != 1:
            return False
        a, k = log["from_dict"][0]
        vals = list(a) + [k.get("data")] if "data" in k else list(a)
        if vals[:1] != [i["doc"]] or k.get("config") is not i["config"]:
            return False
        if i["stage"] == 1:
            return ctx.value is i["e2"] and not log["project"]
        if len(log["project"]) != 1 or ctx.value is not i["proj"]:
            return False
        a, k = log["project"][0]
        return not a and set(k) == {"openapi", "custom_template_path", "config"} and k["openapi"] is i["data"] \
            and k["custom_template_path"] is i["ctp"] and k["config"] is i["config"]
    cl = Clause("stages-and-rejection", post,
                statement="the loader gets config.document_source and config.http_timeout; an error of the loader or of the validator "
                          "is returned as it is and no Project is made; otherwise Project(openapi=data, custom_template_path, config)",
                props=["C06", "C16"])
    return FnContract(f"{OPC}:_get_project_for_url_or_path", [Case("three-stages", make, [cl], raises=(), props=["C06", "C16"])])


def generate_contract():
    def make(I):
        import openapi_python_client as opc
        rejected = bool(I.branch_free())
        e = _err()
        built = {"n": 0}
        diags = SOpaque("diagnostics of build()", cls=list)

        def build(I2, a, k):
            built["n"] += 1
            return diags
        proj = SOpaque("project", cls=object, attrs={"build": SFunc("model", build)})
        seen = []

        def get_project(I2, a, k):
            seen.append((list(a), dict(k)))
            return e if rejected else proj
        I.contracts[f"{OPC}:_get_project_for_url_or_path"] = get_project
        config = SOpaque("config")
        ctp = SOpaque("custom_template_path") if I.branch_free() else None
        return SFunc("pyfunc", opc.generate), [], {"config": config, "custom_template_path": ctp}, {
            "rejected": rejected, "e": e, "built": built, "diags": diags, "seen": seen, "config": config, "ctp": ctp}

    def post(ctx):
        i = ctx.inputs
        if len(i["seen"]) != 1:
            return False
        a, k = i["seen"][0]
        if a or k.get("config") is not i["config"] or k.get("custom_template_path") is not i["ctp"]:
            return False
        if i["rejected"]:
            v = ctx.value
            return i["built"]["n"] == 0 and isinstance(v, SList) and len(v.items) == 1 and v.items[0] is i["e"]
        return i["built"]["n"] == 1 and ctx.value is i["diags"]
    cl = Clause("rejected-document-writes-nothing", post,
                statement="a rejected document: the result is [that error] and Project.build is never called (nothing is written); "
                          "an accepted one: build() is called once and its diagnostics are returned unchanged", props=["C06", "C07"])
    return FnContract(f"{OPC}:generate", [Case("rejected-or-built", make, [cl], raises=(), props=["C06", "C07"])])


def cli_generate_contract():
    def make(I):
        import openapi_python_client as opc
        import openapi_python_client.cli as cli
        S = z3.StringSort()
        args = {"url": SOpaque("url"), "path": SOpaque("path"), "custom_template_path": SOpaque("custom_template_path"),
                "meta": SOpaque("meta"), "file_encoding": SStr(z3.Const("file_encoding", S)), "config_path": SOpaque("config_path"),
                "fail_on_warning": SBool(z3.Const("fail_on_warning", z3.BoolSort())),
                "overwrite": SBool(z3.Const("overwrite", z3.BoolSort())), "output_path": SOpaque("output_path")}
        config = SOpaque("Config")
        errors = SOpaque("diagnostics", cls=list)
        log = {"pc": [], "gen": [], "he": []}
        I.contracts[f"{OPC}.cli:_process_config"] = lambda I2, a, k: (log["pc"].append((list(a), dict(k))), config)[1]
        I.contracts[f"{OPC}:generate"] = lambda I2, a, k: (log["gen"].append((list(a), dict(k))), errors)[1]
        I.contracts[f"{OPC}.cli:handle_errors"] = lambda I2, a, k: log["he"].append((list(a), dict(k)))
        fn = cli.generate
        fn = getattr(fn, "__wrapped__", fn)
        return SFunc("pyfunc", fn), [], dict(args), {"args": args, "config": config, "errors": errors, "log": log}

    def post(ctx):
        i = ctx.inputs
        log, A = i["log"], i["args"]
        if [len(log[k]) for k in ("pc", "gen", "he")] != [1, 1, 1]:
            return False
        a, k = log["pc"][0]
        want = {"url": A["url"], "path": A["path"], "config_path": A["config_path"], "meta_type": A["meta"],
                "file_encoding": A["file_encoding"], "overwrite": A["overwrite"], "output_path": A["output_path"]}
        if a or set(k) != set(want) or any(k[n] is not want[n] for n in want):
            return False
        a, k = log["gen"][0]
        if a or set(k) != {"custom_template_path", "config"} or k["config"] is not i["config"] \
                or k["custom_template_path"] is not A["custom_template_path"]:
            return False
        a, k = log["he"][0]
        vals = list(a) + list(k.values())
        return len(vals) == 2 and vals[0] is i["errors"] and vals[1] is A["fail_on_warning"]
    cl = Clause("command-line-reaches-the-stages-unchanged", post,
                statement="_process_config gets exactly the command line's url / path / config / meta / file-encoding / overwrite / "
                          "output-path; generate() gets that Config and the custom template path; handle_errors gets generate()'s "
                          "diagnostics and fail_on_warning", props=["C06", "C16"])
    return FnContract(f"{OPC}.cli:generate", [Case("one-run", make, [cl], raises=(), props=["C06", "C16"])])


def all_contracts():
    return [get_project_contract(), generate_contract(), cli_generate_contract()]
