"""Forwarding contracts for property_from_data and the composite builders (C05: every record gets the ESCAPED name;
C01/C08: every inner build receives the caller's roots, so dependants of a failed schema can be removed; C16: the
literal_enums switch selects the enum builder and nothing else).

The builders are replaced by capturing summaries: what is verified is the call protocol of the function under contract
(modular), for every shape of schema the dispatch distinguishes.
"""
from __future__ import annotations

import z3

from pyvc import core, engine_b
from pyvc.absdata import GrowSet
from pyvc.engine_b import Case, Clause, FnContract
from pyvc.symexec import SBool, SFunc, SList, SObj, SOpaque, SStr, STuple, SV

P = "openapi_python_client.parser.properties"

BUILDERS = ["any:AnyProperty", "boolean:BooleanProperty", "const:ConstProperty", "date:DateProperty", "datetime:DateTimeProperty",
            "enum_property:EnumProperty", "file:FileProperty", "float:FloatProperty", "int:IntProperty",
            "list_property:ListProperty", "literal_enum_property:LiteralEnumProperty", "model_property:ModelProperty",
            "none:NoneProperty", "string:StringProperty", "union:UnionProperty", "uuid:UuidProperty"]
TAKES_ROOTS = {"ListProperty", "ModelProperty", "UnionProperty", "_property_from_ref", "property_from_data"}


def _install_captures(I, calls, skip=()):
    from openapi_python_client.parser.errors import PropertyError
    for b in BUILDERS:
        mod, cls = b.split(":")
        if cls in skip:
            continue

        def summ(I2, args, kwargs, cls=cls):
            calls.append((cls, dict(kwargs), list(args)))
            if I2.branch_free():
                res = SOpaque(f"built {cls}", cls=object)
            else:
                res = SObj(PropertyError, {"detail": None, "data": None, "header": "", "level": None})
            if cls in ("EnumProperty", "LiteralEnumProperty", "ListProperty", "ModelProperty", "UnionProperty"):
                return STuple([res, kwargs.get("schemas")])
            return res
        I.contracts[f"{P}.{mod}:{cls}.build"] = summ
    # NoneProperty is constructed directly (no build) in property_from_data
    import openapi_python_client.parser.properties.none as none_mod

    def none_ctor(I2, args, kwargs):
        calls.append(("NoneProperty", dict(kwargs), list(args)))
        return SOpaque("built NoneProperty", cls=object)
    I.lib = dict(I.lib)
    I.lib[none_mod.NoneProperty] = none_ctor


def _schema_shapes():
    """the shapes the dispatch of property_from_data distinguishes (each attribute over its relevant alternatives)"""
    from openapi_python_client import schema as oai
    DT = oai.DataType
    types = [None, DT.BOOLEAN, DT.STRING, DT.NUMBER, DT.INTEGER, DT.NULL, DT.ARRAY, DT.OBJECT, "list"]
    shapes = []
    for t in types:
        for enum in (False, True):
            for comb in ("none", "allOf-1ref", "anyOf-1ref", "oneOf-2", "allOf-inline"):
                for const in (False, True):
                    for props in (False, True):
                        shapes.append(dict(type=t, enum=enum, comb=comb, const=const, props=props))
    shapes.append(dict(reference=True))
    return shapes


def _nonempty(o):
    o.nonempty = True
    return o


def _mk_schema(I, shape, name="data"):
    from openapi_python_client import schema as oai
    ref = SObj(oai.Reference, {"ref": SStr(z3.Const(name + "_ref", z3.StringSort()))})
    if shape.get("reference"):
        return ref          # the schema position holds a bare $ref
    sub = SOpaque(name + ".member", cls=oai.Schema)
    allOf, anyOf, oneOf = SList(), SList(), SList()
    c = shape["comb"]
    if c == "allOf-1ref":
        allOf = SList([ref])
    elif c == "anyOf-1ref":
        anyOf = SList([ref])
    elif c == "oneOf-2":
        oneOf = SList([sub, ref])
    elif c == "allOf-inline":
        allOf = SList([sub])
    t = shape["type"]
    if t == "list":
        t = SList([oai.DataType.STRING, oai.DataType.NULL])
    fmt_choices = [None, "date", "date-time", "binary", "uuid", "other"]
    k = 0
    if shape["type"] == oai.DataType.STRING and not shape["enum"] and not shape["const"] and c in ("none", "allOf-inline"):
        while k < len(fmt_choices) - 1 and not I.branch_free():
            k += 1
    attrs = {
        "type": t, "enum": SList([SV(z3.Const("enum0", I.Z.JV))]) if shape["enum"] else None,
        "allOf": allOf, "anyOf": anyOf, "oneOf": oneOf,
        "const": SV(z3.Const("const", I.Z.JV)) if shape["const"] else None,
        "properties": _nonempty(SOpaque("properties", cls=dict)) if shape["props"] else None,
        "schema_format": fmt_choices[k], "default": SV(z3.Const("default", I.Z.JV)),
        "description": SOpaque("description"), "example": SOpaque("example"), "title": None,
    }
    if shape["const"]:
        I.assume(z3.Not(I.Z.rec["none"](attrs["const"].t)))
    # pydantic's record of which keywords the document wrote on this schema (a concrete set per shape)
    given = {"default", "description", "example"}
    given |= {k for k in ("type", "enum", "const", "properties", "schema_format") if attrs[k] is not None}
    given |= {k for k, v in (("allOf", allOf), ("anyOf", anyOf), ("oneOf", oneOf)) if v.items}
    attrs["model_fields_set"] = set(given)
    return SOpaque(name, attrs=attrs, cls=oai.Schema)


def property_from_data_contract(shape, idx):
    def make(I):
        import openapi_python_client.parser.properties as props
        calls = []
        _install_captures(I, calls)

        def from_ref(I2, args, kwargs):
            calls.append(("_property_from_ref", dict(kwargs), list(args)))
            return STuple([SOpaque("prop-from-ref", cls=object), kwargs.get("schemas")])
        I.contracts[f"{P}:_property_from_ref"] = from_ref
        data = _mk_schema(I, shape)
        name = SStr(z3.Const("name", z3.StringSort()))
        roots = GrowSet("roots") if I.branch_free() else None
        config = SOpaque("config", attrs={"field_prefix": SStr(z3.Const("field_prefix", z3.StringSort())),
                                          "literal_enums": SBool(z3.Const("literal_enums", z3.BoolSort()))})
        schemas = SOpaque("schemas")
        kw = dict(name=name, required=SBool(z3.Const("required", z3.BoolSort())), data=data, schemas=schemas,
                  parent_name=SStr(z3.Const("parent_name", z3.StringSort())), config=config,
                  process_properties=SBool(z3.Const("process_properties", z3.BoolSort())))
        if roots is not None:
            kw["roots"] = roots
        return SFunc("pyfunc", props.property_from_data), [], kw, {"calls": calls, "name": name, "roots": roots, "config": config,
                                                                   "schemas": schemas}

    def escaped_name(ctx):
        I = ctx.I
        calls = ctx.inputs["calls"]
        import openapi_python_client.utils as U
        want = I.call_pyfunc(U.remove_string_escapes, [ctx.inputs["name"]], {})
        cs = []
        for cls, kw, args in calls:
            if "name" not in kw:
                return False
            e = I.py_eq(kw["name"], want)
            if e is False:
                return False
            if e is not True:
                cs.append(e)
        if not calls:
            return False
        return z3.And(*cs) if cs else True

    def one_builder(ctx):
        return len(ctx.inputs["calls"]) == 1

    def roots_forwarded(ctx):
        roots = ctx.inputs["roots"]
        conds = []
        for cls, kw, args in ctx.inputs["calls"]:
            if cls in TAKES_ROOTS:
                got = kw.get("roots")
                if roots is None:
                    if got is None:
                        return False
                    continue
                if got is roots:
                    continue
                # `roots or set()`: an EMPTY set may be replaced by a fresh empty set
                from pyvc.symexec import SSet
                if isinstance(got, SSet) and not got.items and not getattr(got, "absorbed", None):
                    conds.append(z3.Not(roots.nonempty))
                    continue
                return False
        return z3.And(*conds) if conds else True

    def enum_style(ctx):
        calls = ctx.inputs["calls"]
        flag = ctx.inputs["config"].attrs["literal_enums"].t
        for cls, kw, args in calls:
            if cls == "LiteralEnumProperty":
                return flag
            if cls == "EnumProperty":
                return z3.Not(flag)
        return True

    def single_ref_passthrough(ctx):
        """a wrapper (allOf/anyOf/oneOf) around exactly one reference goes to _property_from_ref with the wrapper as parent;
        a bare reference with parent None"""
        calls = ctx.inputs["calls"]
        comb = shape.get("comb")
        if shape.get("reference"):
            return len(calls) == 1 and calls[0][0] == "_property_from_ref" and calls[0][1].get("parent") is None
        if comb in ("allOf-1ref", "anyOf-1ref"):
            return len(calls) == 1 and calls[0][0] == "_property_from_ref" and isinstance(calls[0][1].get("parent"), SOpaque) \
                and calls[0][1]["parent"].name == "data" and calls[0][1].get("data") is not None
        return all(c[0] != "_property_from_ref" for c in calls)

    def const_builder(ctx):
        """a plain schema (no enum, no union / reference wrapper, no type list) that declares a const -- ANY non-null const,
        0, "" and false included -- is built as a ConstProperty"""
        if not shape.get("const") or shape.get("enum") or shape.get("reference") or shape.get("type") == "list" or \
                shape.get("comb") not in ("none", "allOf-inline"):
            return True
        calls = ctx.inputs["calls"]
        return len(calls) == 1 and calls[0][0] == "ConstProperty"

    clauses = [
        Clause("const-goes-to-the-const-builder", const_builder,
               statement="a plain schema that declares a const (any non-null value, falsy ones included) is handed to "
                         "ConstProperty.build", props=["C14"]),
        Clause("single-reference-passthrough", single_ref_passthrough,
               statement="single-member allOf/anyOf/oneOf around a $ref is resolved as that reference (wrapper as parent, so a "
                         "sibling default is kept); a bare $ref with parent None; nothing else goes to _property_from_ref",
               props=["C17", "C20"]),
        Clause("one-builder", one_builder, statement="every path hands the schema to exactly one builder", props=["C02", "C05"]),
        Clause("name-escaped", escaped_name, statement="the name given to the builder is remove_string_escapes(name) on every path "
                                                       "(incl. direct and single-member $ref)", props=["C05"]),
        Clause("roots-forwarded", roots_forwarded, statement="list/model/union builders and _property_from_ref receive the "
                                                             "caller's roots (a set even when none was given)", props=["C01", "C08"]),
        Clause("enum-style-by-config", enum_style, statement="EnumProperty is chosen iff not config.literal_enums", props=["C16"]),
    ]
    return FnContract(f"{P}:property_from_data", [Case(f"shape{idx}", make, clauses, raises=(), props=["C05", "C01", "C08", "C16", "C02", "C17", "C20", "C14"])])


def inner_forwarding_contract(which):
    """ListProperty.build / UnionProperty.build: the inner property_from_data calls get roots"""
    modname = {"ListProperty": "list_property", "UnionProperty": "union"}[which]

    def make(I):
        from openapi_python_client import schema as oai
        import importlib
        calls = []
        cls = getattr(importlib.import_module(f"{P}.{modname}"), which)

        built = []

        def pfd(I2, args, kwargs):
            calls.append(("property_from_data", dict(kwargs), list(args)))
            from openapi_python_client.parser.errors import PropertyError
            if I2.branch_free():
                if which == "UnionProperty" and I2.branch_free():
                    # the member is itself a union (e.g. a $ref to a oneOf schema): its members take its place, in order
                    from openapi_python_client.parser.properties.union import UnionProperty as _UP
                    inner = [SOpaque(f"nested{len(built)}a", cls=object), SOpaque(f"nested{len(built)}b", cls=object)]
                    res = SObj(_UP, {"name": "n", "required": True, "default": None, "python_name": "n", "description": None,
                                     "example": None, "inner_properties": SList(list(inner))})
                    built.append(inner)
                else:
                    res = SOpaque(f"inner{len(built)}", cls=object)
                    built.append([res])
            else:
                res = SObj(PropertyError, {"detail": None, "data": None, "header": "", "level": None})
            return STuple([res, kwargs.get("schemas")])
        I.contracts[f"{P}:property_from_data"] = pfd
        roots = GrowSet("roots")
        item = SOpaque("items", cls=oai.Schema)
        shape = {}
        if which == "ListProperty":
            # items only / prefixItems only / both (then the element type is the union of all of them)
            pre = [SOpaque(f"prefix{j}", cls=oai.Schema) for j in range(I.choose(3))]
            has_items = True if not pre else bool(I.branch_free())
            shape["pre"], shape["items"] = pre, item if has_items else None
            shape["prelist"] = SList(list(pre))
            data = SOpaque("data", cls=oai.Schema, attrs={"items": item if has_items else None, "prefixItems": shape["prelist"],
                                                           "default": None, "description": None, "example": None})
        else:
            data = SOpaque("data", cls=oai.Schema, attrs={"type": None, "anyOf": SList([item]), "oneOf": SList([SOpaque("m2", cls=oai.Schema)]),
                                                           "default": None, "description": None, "example": None})
        kw = dict(data=data, name=SStr(z3.Const("name", z3.StringSort())), required=SBool(z3.Const("required", z3.BoolSort())),
                  schemas=SOpaque("schemas"), parent_name=SStr(z3.Const("parent", z3.StringSort())),
                  config=SOpaque("config", attrs={"field_prefix": SStr(z3.Const("fp", z3.StringSort()))}), roots=roots)
        if which == "ListProperty":
            kw["process_properties"] = SBool(z3.Const("process_properties", z3.BoolSort()))
        return SFunc("pyfunc", cls.build.__func__, self_val=cls), [], kw, {"calls": calls, "roots": roots, "shape": shape, "data": data,
                                                                            "item": item, "built": built}

    def members(ctx):
        """ListProperty: the element schema handed on is the one schema given, or anyOf of ALL of them in order; the document's
        own schema object is not edited.  UnionProperty: one inner build per member, in order, until the first failure."""
        i = ctx.inputs
        calls = i["calls"]
        if which == "ListProperty":
            sh = i["shape"]
            want = list(sh["pre"]) + ([sh["items"]] if sh["items"] is not None else [])
            # frame: parsing does not change the document
            if i["data"].attrs["prefixItems"] is not sh["prelist"] or list(sh["prelist"].items) != list(sh["pre"]) \
                    or i["data"].attrs["items"] is not sh["items"]:
                return False
            if len(calls) != 1:
                return False
            d = calls[0][1].get("data")
            if len(want) == 1:
                return d is want[0]
            got = d.fields.get("anyOf") if isinstance(d, SObj) else getattr(d, "attrs", {}).get("anyOf")
            return isinstance(got, SList) and len(got.items) == len(want) and all(a is b for a, b in zip(got.items, want))
        want = [i["item"]] + [m for m in i["data"].attrs["oneOf"].items]
        datas = [kw.get("data") for _, kw, _ in calls]
        if len(datas) > len(want) or any(a is not b for a, b in zip(datas, want)):
            return False
        if len(datas) < len(want):
            # stopped early: only after a member failed
            return isinstance(ctx.value, STuple) and isinstance(ctx.value.items[0], SObj) and ctx.value.items[0].cls.__name__ == "PropertyError"
        res = ctx.value.items[0] if isinstance(ctx.value, STuple) else None
        if isinstance(res, SObj) and res.cls.__name__ == "UnionProperty":
            # the members of the result are the built members in DOCUMENT order, a nested union replaced by its own members in
            # place (the decoder tries them in this order: first match wins)
            flat = [x for group in i["built"] for x in group]
            got = res.fields.get("inner_properties")
            if not isinstance(got, SList) or len(got.items) != len(flat) or any(a is not b for a, b in zip(got.items, flat)):
                return False
        return True

    def forwarded(ctx):
        calls = ctx.inputs["calls"]
        if not calls:
            return False
        return all(kw.get("roots") is ctx.inputs["roots"] for _, kw, _ in calls)
    cl = Clause("inner-roots-forwarded", forwarded, any_outcome=True,
                statement=f"every inner property_from_data call of {which}.build receives the caller's roots", props=["C01", "C08"])
    cl2 = Clause("every-member-schema-built-once-and-document-unchanged", members,
                 statement=("the element schema is the single item schema or anyOf(prefixItems + [items]) with every one of them, in "
                            "order; the schema object of the document (its prefixItems list) is left as it was") if which == "ListProperty"
                 else "every member of anyOf + oneOf is built exactly once, in order (none dropped or merged before it is resolved); the "
                      "result lists the built members in document order, a nested union replaced in place by its own members",
                 props=["C17", "C20", "C12", "C07", "C02"])
    return FnContract(f"{P}.{modname}:{which}.build", [Case("generic", make, [cl, cl2], raises=(),
                                                            props=["C01", "C08", "C17", "C20", "C12", "C07", "C02"])])


def discharge(rep, kf, prop, tier, seed):
    shapes = _schema_shapes()
    tasks = []
    chunk = 24
    for i in range(0, len(shapes), chunk):
        def task(lo=i):
            r = core.Report(prop, tier, seed)
            cs = [property_from_data_contract(s, lo + j) for j, s in enumerate(shapes[lo:lo + chunk])]
            engine_b.discharge(r, kf, cs, prop, tier, seed)
            return r
        tasks.append(task)

    def inner():
        r = core.Report(prop, tier, seed)
        engine_b.discharge(r, kf, [inner_forwarding_contract("ListProperty"), inner_forwarding_contract("UnionProperty")], prop, tier, seed)
        return r
    if prop in ("C01", "C08", "C17", "C20", "C12", "C07", "C02"):
        tasks.append(inner)
    for r in core.run_parallel(tasks):
        r.obligations = [o for o in r.obligations if prop in o.props or o.id.endswith("no-exception-escapes")]
        rep.merge(r)
