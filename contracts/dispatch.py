def discharge(rep, kf, prop, tier, seed):
    return
