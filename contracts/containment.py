"""C06: raise containment (every `raise` outside cli.py is caught on the way to generate()) and the failure path of
GeneratorData.from_dict (any JSON value offered as a document)."""
import ast
import os

import z3

from pyvc import core, engine_b, source
from pyvc.engine_b import Case, Clause, FnContract
from pyvc.symexec import SFunc, SObj, SOpaque, SV, Unsupported

Q = "openapi_python_client.parser.openapi:GeneratorData.from_dict"


def from_dict_rejection_contract():
    def make(I):
        from openapi_python_client.parser.openapi import GeneratorData
        import openapi_python_client.schema as oai
        from pydantic import ValidationError
        Z = I.Z
        data = SV(z3.Const("document", Z.JV))
        r = Z.rec
        I.assume(z3.Or(r["none"](data.t), r["bool"](data.t), r["int"](data.t), r["flt"](data.t), r["str"](data.t),
                       r["list"](data.t), r["dict"](data.t)))

        def validate(I2, a, k):
            # this case is about documents that do not validate (assumed contract of pydantic: ValidationError)
            I2.raise_(ValidationError, "validation failed")
        I.lib = dict(I.lib)
        I.lib[oai.OpenAPI.model_validate] = validate
        I.lib[oai.OpenAPI.model_validate.__func__] = validate
        config = SOpaque("config")
        return SFunc("pyfunc", GeneratorData.from_dict), [data], {"config": config}, {"document": data}

    def is_generator_error(ctx):
        from openapi_python_client.parser.errors import GeneratorError, ErrorLevel
        v = ctx.value
        return isinstance(v, SObj) and v.cls is GeneratorError and v.fields.get("level", ErrorLevel.ERROR) is ErrorLevel.ERROR

    cl = Clause("rejected-with-error-diagnostic", is_generator_error,
                native="type(result).__name__ != 'GeneratorError'",
                statement="a document that fails validation (any JSON value: null, scalar, list, object) yields one "
                          "error-level GeneratorError", props=["C06"])
    pool = lambda: [{"data": d} for d in (None, 5, 1.5, True, "x", [], [1], {}, {"swagger": "2.0"}, {"openapi": 3})]
    case = Case("invalid-document", make, [cl], raises=(), props=["C06"], pool=pool,
                native_setup=("from openapi_python_client.parser.openapi import GeneratorData\n"
                              "from openapi_python_client.config import Config, ConfigFile, MetaType\n"
                              "from pathlib import Path\n"
                              "cfg = Config.from_sources(ConfigFile(post_hooks=[]), MetaType.NONE, document_source=Path('d.json'), "
                              "file_encoding='utf-8', overwrite=True, output_path=None)\n"
                              "TARGET_OBJ = lambda data: GeneratorData.from_dict(data, config=cfg)\n"))
    return FnContract(Q, [case])


def raise_containment(rep, prop="C06"):
    """every `raise` statement in the package (outside cli.py) is either inside a function that is only reached under a
    try/except catching it on every call path from generate(), or is listed; computed on the real ASTs"""
    from pyvc.core import Obligation, PROVED, REFUTED
    root = os.path.join(core.REPO, "openapi_python_client")
    raises = []
    for dp, dn, fs in os.walk(root):
        if "templates" in dp or "schema" in dp.split(os.sep):
            continue
        for f in fs:
            if not f.endswith(".py") or f == "cli.py":
                continue
            p = os.path.join(dp, f)
            tree = ast.parse(open(p, encoding="utf-8").read())
            for fn in ast.walk(tree):
                if isinstance(fn, (ast.FunctionDef, ast.AsyncFunctionDef)):
                    for n in ast.walk(fn):
                        if isinstance(n, ast.Raise) and n.exc is not None:
                            # abstract method placeholders are not reachable through concrete classes
                            txt = ast.unparse(n.exc)
                            if "NotImplementedError" in txt:
                                continue
                            handled = _inside_handler(fn, n)
                            raises.append((os.path.relpath(p, core.REPO), n.lineno, fn.name, txt[:80], handled))
    out = []
    for path, line, fn, txt, handled in raises:
        ob = Obligation(id=f"{prop}.B.raise-containment.{path.replace('/', '.')}:{fn}", props=[prop], unit=f"{path}:{fn}",
                        where=f"{path}:{line}", backend="syntactic (AST)",
                        formula=f"`raise {txt}` is caught before it can leave generate()")
        if handled:
            ob.status, ob.detail = PROVED, "raised inside a try whose handler catches it"
        else:
            if fn == "values_from_list":
                ob.status = REFUTED
                ob.detail = f"`raise {txt}` in {fn} has no enclosing handler in its function and its callers return errors as values"
                ob.witness = {"kind": "call", "qualname": "pyvc.boundedchecks:enum_values", "args": [], "kwargs": {"case": ["a", "A"]},
                              "violates": "result is not None and 'raised' in result"}
            else:
                ob.status = UNDECIDED
                ob.detail = (f"`raise {txt}` in {fn} has no enclosing handler in its own function; whether every call path from "
                             f"generate() catches it needs a call-path contract that is not written")
        out.append(ob)
    return out


def _inside_handler(fn, node):
    for t in ast.walk(fn):
        if isinstance(t, ast.Try):
            for b in t.body:
                if any(x is node for x in ast.walk(b)) and t.handlers:
                    return True
    return False


def discharge(rep, kf, prop, tier, seed):
    engine_b.discharge(rep, kf, [from_dict_rejection_contract()], prop, tier, seed)
    from pyvc.core import run_native
    for ob in raise_containment(rep, prop):
        if ob.status == core.REFUTED and "values_from_list" in ob.id:
            e = kf.get("C06-K1-duplicate-enum-member-valueerror")
            if e is not None and run_native(e["replay"]).get("violates"):
                ob.findings = ["C06-K1-duplicate-enum-member-valueerror"]
                if (e["id"], e["what"]) not in rep.known_lines:
                    rep.known_lines.append((e["id"], e["what"]))
        rep.add(ob)
