"""Engine F contracts for generated model classes (C02 round trip, C10 tri-state, C14 enums/consts).

The schematic document below has one model per (property kind x required/optional x default) combination.  The
behavioural contract of every generated class M, from the statement of C02:

    for every JSON object src valid for the schema:   M.from_dict(src).to_dict() == src,
    the encoded form is plain JSON, no exception escapes, src itself is not mutated.

Keys are the document's wire names (they need pythonisation: "a-prop" -> a_prop), so a template that writes the python
name fails the equality.
"""
from __future__ import annotations

import copy

import z3

from pyvc import fragments
from pyvc.engine_b import Case, Clause, FnContract
from pyvc.symexec import SDict, SFunc, SList, SObj, SSeq, STuple, SV, Unsupported

SCALARS = {
    "str": {"type": "string"},
    "int": {"type": "integer"},
    "num": {"type": "number"},
    "bool": {"type": "boolean"},
    "date": {"type": "string", "format": "date"},
    "datetime": {"type": "string", "format": "date-time"},
    "uuid": {"type": "string", "format": "uuid"},
    "any": {},
    "strenum": {"$ref": "#/components/schemas/Flavor"},
    "intenum": {"$ref": "#/components/schemas/Level"},
    "inline-enum": {"type": "string", "enum": ["x", "y z", 'q"uote']},
    "nullable-enum": {"type": ["string", "null"], "enum": ["p", "q", None]},
    "const": {"const": "fixed"},
    "nullable-str": {"type": "string", "nullable": True},
    "nullable-int": {"type": "integer", "nullable": True},
    "model": {"$ref": "#/components/schemas/Leaf"},
    "nullable-model": {"allOf": [{"$ref": "#/components/schemas/Leaf"}], "nullable": True},
    "list-str": {"type": "array", "items": {"type": "string"}},
    "list-date": {"type": "array", "items": {"type": "string", "format": "date"}},
    "list-enum": {"type": "array", "items": {"$ref": "#/components/schemas/Flavor"}},
    "list-model": {"type": "array", "items": {"$ref": "#/components/schemas/Leaf"}},
    "union-str-model": {"oneOf": [{"type": "string"}, {"$ref": "#/components/schemas/Leaf"}]},
    "union-model-str": {"oneOf": [{"$ref": "#/components/schemas/Leaf"}, {"type": "string"}]},
    "union-model-int-null": {"oneOf": [{"$ref": "#/components/schemas/Leaf"}, {"type": "integer"}, {"type": "null"}]},
    "union-models": {"oneOf": [{"$ref": "#/components/schemas/Leaf"}, {"$ref": "#/components/schemas/Leaf2"}]},
    "union-date-int": {"oneOf": [{"type": "string", "format": "date"}, {"type": "integer"}]},
    "typelist": {"type": ["string", "integer", "null"]},
    "nullable-composed": {"type": ["object", "null"], "allOf": [{"$ref": "#/components/schemas/Base"},
                                                                {"type": "object", "properties": {"c-two": {"type": "string"}}}]},
    "union-consts": {"oneOf": [{"const": "asc"}, {"const": "desc"}, {"const": "natural"}]},
    "union-int-const": {"anyOf": [{"type": "integer"}, {"const": "x"}]},
    "union-const-model": {"oneOf": [{"const": "none"}, {"$ref": "#/components/schemas/Leaf"}]},
    # an enumeration next to its own plain value type: the encoder must tell the member from the plain value
    "union-strenum-str": {"anyOf": [{"$ref": "#/components/schemas/Flavor"}, {"type": "string"}]},
    "union-intenum-int": {"anyOf": [{"$ref": "#/components/schemas/Level"}, {"type": "integer"}]},
    # lists whose items are unions with a member that needs a transform (the encoder's loop variable takes several types)
    "list-union-model-str": {"type": "array", "items": {"oneOf": [{"$ref": "#/components/schemas/Leaf"}, {"type": "string"}]}},
    "list-nullable-date": {"type": "array", "items": {"type": ["string", "null"], "format": "date"}},
    # members that are all passed through undecoded today: a member that starts to "construct" would claim its neighbours' values
    "union-bool-str": {"oneOf": [{"type": "boolean"}, {"type": "string"}]},
    "union-num-str-bool": {"type": ["number", "string", "boolean"]},
    # items whose python type is narrower than their JSON type (a literal): lists are invariant for the type checker
    "list-const": {"type": "array", "items": {"const": "only"}},
    "list-intenum": {"type": "array", "items": {"$ref": "#/components/schemas/Level"}},
}
DEFAULTS = {"str": "dflt", "int": 7, "num": 1.5, "bool": True, "strenum": "a", "const": "fixed", "date": "2020-01-02"}


def _class_name(kind, req, dflt):
    return "M" + "".join(w.capitalize() for w in kind.replace("-", " ").split()) + ("Req" if req else "Opt") + ("Dflt" if dflt else "")


def document(openapi="3.0.3"):
    comps = {
        "Flavor": {"type": "string", "enum": ["a", "B c", "1st", "", 'say "hi"', "it's"]},
        "Level": {"type": "integer", "enum": [-4, 0, 2]},
        "Leaf": {"type": "object", "required": ["x"], "properties": {"x": {"type": "integer"}, "y-y": {"type": "string"}},
                 "additionalProperties": False},
        "Leaf2": {"type": "object", "required": ["z"], "properties": {"z": {"type": "string"}}, "additionalProperties": False},
        "Base": {"type": "object", "required": ["b-one"], "properties": {"b-one": {"type": "integer"}, "shared": {"type": "number"}}},
        "Composed": {"allOf": [{"$ref": "#/components/schemas/Base"},
                               {"type": "object", "required": ["shared"], "properties": {"shared": {"type": "integer"}, "c-two": {"type": "string", "format": "date"}}}]},
        "TypedExtra": {"type": "object", "properties": {"k": {"type": "string"}},
                       "additionalProperties": {"type": "string", "format": "date"}},
        "ModelExtra": {"type": "object", "additionalProperties": {"$ref": "#/components/schemas/Leaf"}},
        "NoExtra": {"type": "object", "properties": {"k": {"type": "string"}}, "additionalProperties": False},
        "Format": {"type": "string", "enum": ["csv", "json"]},          # class name whose snake case is a reserved word
        "UsesFormat": {"type": "object", "properties": {"f": {"$ref": "#/components/schemas/Format"},
                                                        "t": {"type": "string", "enum": ["x", "y"], "title": "Type"}}},
        "Layout": {"type": "object", "required": ["a-dflt", "b-plain"], "properties": {
            "a-dflt": {"type": "string", "default": "x"}, "b-plain": {"type": "integer"},
            "c-opt-dflt": {"type": "integer", "default": 3}, "d-opt": {"type": "string", "format": "date"}}},
        # class names that are suffixes of the class names they use (import filtering must not confuse them)
        "Item": {"type": "object", "properties": {"order": {"$ref": "#/components/schemas/OrderItem"},
                                                  "more": {"type": "array", "items": {"$ref": "#/components/schemas/OrderItem"}}}},
        "OrderItem": {"type": "object", "required": ["n"], "properties": {"n": {"type": "integer"}}, "additionalProperties": False},
        "Kind": {"type": "object", "properties": {"my-kind": {"type": "string", "enum": ["on", "off"]}}},     # inline enum KindMyKind
        "Two": {"type": "object", "required": ["first-p"], "properties": {
            "first-p": {"type": "string", "format": "date"}, "second_p": {"type": "string", "format": "date"},
            "third p": {"type": "integer", "default": 3}}},
    }
    cases = []
    for kind, schema in SCALARS.items():
        for req in (True, False):
            for dflt in ((False, True) if kind in DEFAULTS else (False,)):
                name = _class_name(kind, req, dflt)
                ps = copy.deepcopy(schema)
                if dflt:
                    if "$ref" in ps:
                        ps = {"allOf": [ps], "default": DEFAULTS[kind]}
                    else:
                        ps["default"] = DEFAULTS[kind]
                m = {"type": "object", "properties": {"a-prop": ps}}
                if req:
                    m["required"] = ["a-prop"]
                comps[name] = m
                cases.append((name, kind, req, dflt))
    if openapi.startswith("3.0"):
        for c in comps.values():
            _downgrade(c)
    doc = {"openapi": openapi, "info": {"title": "frag", "version": "1"}, "paths": {}, "components": {"schemas": comps}}
    extra = ["Leaf", "Leaf2", "Composed", "TypedExtra", "ModelExtra", "NoExtra", "Two", "Layout", "UsesFormat", "Item", "Kind"]
    return doc, cases, extra


def _downgrade(s):
    """3.0 spelling: type lists and null members are not available; use nullable"""
    if isinstance(s, dict):
        if isinstance(s.get("type"), list):
            ts = [t for t in s["type"] if t != "null"]
            if "null" in s["type"]:
                s["nullable"] = True
            if len(ts) == 1:
                s["type"] = ts[0]
            else:
                s.pop("type")
                s["oneOf"] = [{"type": t} for t in ts]
        for key in ("oneOf", "anyOf"):
            if key in s and any(m == {"type": "null"} for m in s[key]):
                s[key] = [m for m in s[key] if m != {"type": "null"}]
                s["nullable"] = True
        if "const" in s:
            s["enum"] = [s.pop("const")]
        for v in list(s.values()):
            if isinstance(v, dict):
                _downgrade(v)
            elif isinstance(v, list):
                for x in v:
                    _downgrade(x)


def _copy_value(v):
    if isinstance(v, SDict):
        d = SDict({k: _copy_value(x) for k, x in v.items.items()}, v.rest)
        return d
    if isinstance(v, STuple):
        return v
    if isinstance(v, SList):
        return SList([_copy_value(x) for x in v.items])
    return v


def roundtrip_contract(pkg, components, class_name, module_name, label):
    def make(I):
        mod = pkg.module(f"models.{module_name}")
        cls = getattr(mod, class_name)
        wb = fragments.WireBuilder(I, components)
        src = wb.object(wb.resolve(components[class_name]), "src", 0)
        keep = _copy_value(src)

        def target(I, args, kwargs):
            obj = I.call(I.get_attr(cls, "from_dict"), [src], {})
            out = I.call(I.get_attr(obj, "to_dict"), [], {})
            return STuple([obj, out, src])
        return SFunc("model", target), [], {}, {"src": keep}

    def eq(ctx):
        I = ctx.I
        out = ctx.value.items[1]
        I.in_clause = True
        try:
            return I.py_eq(out, ctx.inputs["src"])
        finally:
            I.in_clause = False

    def plain(ctx):
        return fragments.plain_json(ctx.I, ctx.value.items[1])

    def unmutated(ctx):
        I = ctx.I
        I.in_clause = True
        try:
            return I.py_eq(ctx.value.items[2], ctx.inputs["src"])
        finally:
            I.in_clause = False

    NV = "result is not None"
    clauses = [
        Clause("roundtrip", eq, native=NV, statement=f"{class_name}.from_dict(src).to_dict() == src for every schema-valid src "
                                          f"(keys are the document's wire names; undeclared keys preserved)",
               props=["C02"]),
        Clause("plain-json", plain, native=NV, statement="the encoded form contains only JSON data (no UNSET, no rich objects)",
               props=["C02"]),
        Clause("input-not-mutated", unmutated, native=NV, statement="from_dict leaves its argument unchanged", props=["C02"]),
    ]
    version = label.split("[")[1].rstrip("]") if "[" in label else "3.1.0"
    from pyvc import fragnative
    case = Case(label, make, clauses, raises=(), props=["C02"],
                pool=lambda: fragnative.roundtrip_pool(version, class_name),
                native_target="pyvc.fragnative:roundtrip_violation")
    c = FnContract(f"{pkg.name}.models.{module_name}:{class_name}.from_dict", [case])
    return c


# ---- C10 / C14: what happens at the edges of the wire domain ----------------------------------------------------------

def schema_values(components, schema):
    """the listed values of an enum / const schema (through one $ref / single-member wrapper), or None"""
    s = schema
    for _ in range(4):
        if "$ref" in s:
            s = components[s["$ref"].rsplit("/", 1)[1]]
        elif "allOf" in s and len(s["allOf"]) == 1:
            s = s["allOf"][0]
        else:
            break
    if "enum" in s:
        return list(s["enum"])
    if "const" in s:
        return [s["const"]]
    return None


def tristate_contract(pkg, components, class_name, module_name, kind, required, has_default, label, outside=True):
    """absent / null / present for the single property `a-prop` of a schematic model (C10), and rejection of values
    outside an enum / const (C14)."""
    import z3 as _z3
    from pyvc.symexec import SStr as _SStr

    schema = components[class_name]["properties"]["a-prop"]

    def resolved(I):
        wb = fragments.WireBuilder(I, components)
        return wb, wb.resolve(schema)

    def nullable(rs):
        if rs.get("nullable"):
            return True
        if isinstance(rs.get("type"), list) and "null" in rs["type"]:
            return True
        if "enum" in rs and None in rs["enum"]:
            return True
        return any(m == {"type": "null"} for m in (rs.get("oneOf") or rs.get("anyOf") or []))

    def make(I):
        mod = pkg.module(f"models.{module_name}")
        cls = getattr(mod, class_name)
        wb, rs = resolved(I)
        src = SDict()
        state = "absent"
        outside_term = None
        if I.branch_free():
            state = "absent"
        elif I.branch_free():
            state = "null"
            src.items["a-prop"] = None
        elif I.branch_free():
            state = "present"
            src.items["a-prop"] = wb.value(schema, "v", 0)
        else:
            state = "outside"
            if not outside:
                from pyvc.symexec import Infeasible
                raise Infeasible()
            # a JSON string that is not one of the listed values / not the constant
            vals = rs.get("enum") if "enum" in rs else ([rs["const"]] if "const" in rs else None)
            if vals is None or not all(isinstance(v, (str, int)) or v is None for v in vals):
                from pyvc.symexec import Infeasible
                raise Infeasible()
            # ANY JSON scalar that is not one of the listed values: a string, an integer or a number that equals none of them
            # (2.0 is the JSON number 2), or a boolean (for integer lists python's True == 1 makes IntEnum(True) the member 1: that
            # is known finding C14-K3, the restricted form of the clause leaves booleans out for integer lists)
            from pyvc.symexec import SV as _SV
            Z = I.Z
            t = _z3.Const("outside_value", Z.JV)
            r, acc = Z.rec, Z.acc
            strs = [v for v in vals if isinstance(v, str)]
            ints = [v for v in vals if isinstance(v, int) and not isinstance(v, bool)]
            alts = [_z3.And(r["str"](t), *[acc["s"](t) != _z3.StringVal(v) for v in strs]),
                    _z3.And(r["int"](t), *[acc["i"](t) != v for v in ints]),
                    _z3.And(r["flt"](t), acc["fk"](t) == Z.fk["fin"], *[acc["r"](t) != v for v in ints])]
            alts.append(r["bool"](t))       # a boolean is never a listed value (for integer lists: known finding C14-K3)
            I.assume(_z3.Or(*alts))
            src.items["a-prop"] = _SV(t)
            outside_term = t

        def target(I, args, kwargs):
            return I.call(I.get_attr(cls, "from_dict"), [src], {})
        return SFunc("model", target), [], {}, {"state": state, "nullable": nullable(rs), "mod": mod, "outside_term": outside_term}

    def attr(ctx):
        return ctx.value.fields["a_prop"]

    def clause(ctx):
        I = ctx.I
        st = ctx.inputs["state"]
        unset = pkg.module("types").UNSET
        if st == "absent":
            if required:
                return ctx.kind == "raise" and ctx.value.cls is KeyError       # not a silent default
            return ctx.kind == "return" and attr(ctx) is unset
        if st == "null":
            if ctx.inputs["nullable"]:
                return ctx.kind == "return" and attr(ctx) is None
            return True        # null for a non-nullable schema is outside the quantifier
        if st == "present":
            if ctx.kind != "return":
                return False
            v = attr(ctx)
            return v is not unset and (v is not None or ctx.inputs["nullable"])
        if st == "outside":
            return ctx.kind == "raise"          # never passed through
        return False

    if kind == "nullable-enum":
        known = ["C14-K2-nullable-enum-passthrough"]
        restrict = lambda inputs, I: z3.BoolVal(inputs["state"] != "outside")
    elif any(isinstance(v, int) and not isinstance(v, bool) for v in (schema_values(components, schema) or [])):
        # integer lists: a boolean is looked up with python equality (False == 0, True == 1)
        known = ["C14-K3-boolean-decoded-as-integer-member"]
        restrict = lambda inputs, I: (z3.BoolVal(True) if inputs.get("outside_term") is None
                                      else z3.Not(I.Z.rec["bool"](inputs["outside_term"])))
    else:
        known, restrict = [], None
    cl = Clause("absent-null-present-outside", clause, any_outcome=True, native="result is not None", known=known, restrict=restrict,
                statement="absent optional key -> attribute is UNSET; absent required key -> KeyError; null -> None iff the "
                          "schema is nullable; present -> a value that is neither UNSET nor (unless nullable) None; a "
                          "JSON scalar (string / integer / number; boolean for string lists) that is none of the listed values of an "
                          "enum / const -> an exception, never passed through or mapped onto a member", props=["C10", "C14"])
    case = Case(label, make, [cl], raises=(Exception,), props=["C10", "C14"])
    return FnContract(f"{pkg.name}.models.{module_name}:{class_name}.from_dict", [case])


def signature_obligations(pkg, cases, version, prop="C10"):
    """constructor signatures of the generated classes: required and no default <=> mandatory argument; optional
    without default <=> default UNSET (read natively from the imported class: a syntactic obligation on the output)"""
    import inspect
    from openapi_python_client import utils
    from pyvc.core import Obligation, PROVED, REFUTED
    out = []
    unset = pkg.module("types").UNSET
    for name, kind, req, dflt in cases:
        cls = getattr(pkg.module("models." + utils.snake_case(name)), name)
        p = inspect.signature(cls).parameters.get("a_prop")
        ob = Obligation(id=f"{prop}.F.{name}.signature[{version}]", props=[prop], unit=f"model.py.jinja class body for {name}",
                        where="openapi_python_client/templates/model.py.jinja", backend="native reflection of generated code",
                        formula="required and no default <=> mandatory constructor argument; optional and no default <=> "
                                "default is UNSET; declared default <=> that default")
        if p is None:
            ob.status, ob.detail = REFUTED, "constructor has no parameter a_prop"
        else:
            if req and not dflt:
                ok = p.default is inspect.Parameter.empty
            elif not dflt:
                ok = p.default is unset
            else:
                ok = p.default is not inspect.Parameter.empty and p.default is not unset
            ob.status = PROVED if ok else REFUTED
            ob.detail = f"default of a_prop is {p.default!r}"
        out.append(ob)
    return out
