"""C03 (last sentence: "an operation with security requirements demands an authenticated client, and that client adds its
credential header"): contract on the GENERATED client module (Engine F: client.py as rendered by the real client.py.jinja).

  AuthenticatedClient.get_httpx_client / get_async_httpx_client
      pre   an AuthenticatedClient built by its real constructor (symbolic base_url / token / prefix, default or custom
            auth_header_name, one extra header), whose PUBLIC attributes token / prefix / auth_header_name may have been
            re-assigned afterwards (they are documented attributes of a mutable attrs class), no httpx client made yet
      post  exactly one httpx.(Async)Client is constructed; its `headers` carry, under the CURRENT auth_header_name, the
            CURRENT credential  (prefix + " " + token  if prefix else  token)  and keep the caller's other headers;
            base_url / cookies / timeout / verify / follow_redirects are the client's own; the object constructed is
            returned and remembered (a second call returns it without constructing another one)
  Client.get_httpx_client / get_async_httpx_client: the same without a credential (headers are the caller's).
httpx.Client / httpx.AsyncClient themselves are outside /repo: modelled as constructors that record their keyword arguments.
"""
from __future__ import annotations

import z3

from pyvc.engine_b import Case, Clause, FnContract
from pyvc.symexec import SBool, SDict, SFunc, SObj, SOpaque, SStr


def client_contract(pkg, cls_name, getter):
    is_async = "async" in getter
    authed = cls_name == "AuthenticatedClient"

    def make(I):
        import httpx
        mod = pkg.module("client")
        cls = getattr(mod, cls_name)
        S = z3.StringSort()
        made = []
        I.lib = dict(I.lib)

        def recorder(kind):
            def f(I2, a, k):
                o = SOpaque(f"{kind} instance", cls=object)
                made.append((kind, list(a), dict(k), o))
                return o
            return f
        I.lib[httpx.Client] = recorder("httpx.Client")
        I.lib[httpx.AsyncClient] = recorder("httpx.AsyncClient")
        base = SStr(z3.Const("base_url", S))
        extra = SStr(z3.Const("extra_header_value", S))
        kw = {"base_url": base, "headers": SDict({"X-Extra": extra}), "cookies": SDict({"c": SStr(z3.Const("cookie_value", S))}),
              "follow_redirects": SBool(z3.Const("follow_redirects", z3.BoolSort()))}
        cur = {}
        if authed:
            cur["token"] = SStr(z3.Const("token", S))
            kw["token"] = cur["token"]
            if I.branch_free():
                cur["prefix"] = SStr(z3.Const("prefix", S))
                kw["prefix"] = cur["prefix"]
            else:
                cur["prefix"] = "Bearer"
            if I.branch_free():
                cur["name"] = "X-Api-Key"
                kw["auth_header_name"] = "X-Api-Key"
            else:
                cur["name"] = "Authorization"
        obj = I.construct(cls, [], kw)
        if authed:
            # public attributes may be re-assigned between construction and the first request
            if I.branch_free():
                cur["token"] = SStr(z3.Const("token_assigned_later", S))
                obj.fields["token"] = cur["token"]
            if I.branch_free():
                cur["prefix"] = SStr(z3.Const("prefix_assigned_later", S))
                obj.fields["prefix"] = cur["prefix"]
            if I.branch_free():
                cur["name"] = "X-Other-Key"
                obj.fields["auth_header_name"] = "X-Other-Key"
        return SFunc("pyfunc", getattr(cls, getter), self_val=obj), [], {}, \
            {"made": made, "obj": obj, "cur": cur, "base": base, "extra": extra, "kw": kw}

    def built(ctx):
        I, i = ctx.I, ctx.inputs
        made = i["made"]
        want_kind = "httpx.AsyncClient" if is_async else "httpx.Client"
        if len(made) != 1 or made[0][0] != want_kind or made[0][1]:
            return False
        k = made[0][2]
        h = k.get("headers")
        if not isinstance(h, SDict) or h.rest is not None:
            return False
        conds = []
        want_keys = {"X-Extra"} | ({i["cur"]["name"]} if authed else set())
        if set(h.items) != want_keys:
            return False
        conds.append(I.py_eq(h.items["X-Extra"], i["extra"]))
        if authed:
            tok, pre = i["cur"]["token"], i["cur"]["prefix"]
            tt = I.to_str_term(tok)
            pt = I.to_str_term(pre) if not isinstance(pre, str) else z3.StringVal(pre)
            want = z3.If(z3.Length(pt) > 0, z3.Concat(pt, z3.StringVal(" "), tt), tt)
            got = h.items[i["cur"]["name"]]
            conds.append(I.to_str_term(got) == want)
        conds.append(I.py_eq(k.get("base_url"), i["base"]))
        ck = k.get("cookies")
        if not isinstance(ck, SDict) or set(ck.items) != {"c"}:
            return False
        conds.append(I.py_eq(ck.items["c"], i["kw"]["cookies"].items["c"]))
        conds.append(I.py_eq(k.get("follow_redirects"), i["kw"]["follow_redirects"]))
        if k.get("verify") is not True or k.get("timeout") is not None:
            return False
        if ctx.value is not made[0][3]:
            return False
        field = "_async_client" if is_async else "_client"
        if i["obj"].fields.get(field) is not made[0][3]:
            return False
        conds = [c for c in conds if c is not True]
        if any(c is False for c in conds):
            return False
        return z3.And(*conds) if conds else True

    def remembered(ctx):
        # calling the getter again returns the same object and constructs nothing
        I, i = ctx.I, ctx.inputs
        n = len(i["made"])
        mod = pkg.module("client")
        again = I.call_pyfunc(getattr(getattr(mod, cls_name), getter), [i["obj"]], {})
        return again is ctx.value and len(i["made"]) == n

    what = "the current credential under the current header name and " if authed else ""
    clauses = [
        Clause("one-client-with-the-documented-settings", built,
               statement=f"{cls_name}.{getter} constructs exactly one httpx.{'Async' if is_async else ''}Client whose headers are "
                         f"{what}the caller's headers, with the client's base_url / cookies / timeout / verify / follow_redirects; "
                         f"returns and remembers it", props=["C03"]),
        Clause("second-call-returns-the-same-client", remembered,
               statement="a second call returns the remembered client and constructs nothing", props=["C03"]),
    ]
    return FnContract(f"{pkg.name}.client:{cls_name}.{getter}",
                      [Case("constructed-then-attributes-possibly-reassigned" if authed else "constructed", make, clauses, raises=(),
                            props=["C03"])])


def all_contracts(pkg):
    return [client_contract(pkg, c, g) for c in ("AuthenticatedClient", "Client")
            for g in ("get_httpx_client", "get_async_httpx_client")]
