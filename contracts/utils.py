"""Sidecar contracts for openapi_python_client/utils.py (Engine A: Hoare triples over regular languages).

Posts are written from the property statements (C09: valid non-keyword identifiers; C19: path components; C05: what
may stand inside a string literal), pre-conditions from the call sites.  Restricted triples (`restricts=`) exclude a
*known-finding input class* from the pre-condition; they are only consulted when the unrestricted triple fails and
the finding is listed in known_findings.json with a witness that still fails natively.
"""
from pyvc.automata import Lang
from pyvc.strabs import PList, StrContract, Triple
from pyvc.vocab import Spec

U = "openapi_python_client.utils:"


def build(reg):
    S = Spec.get()
    A = S.A
    n = Spec.named
    ALL = S.SIGMA
    XIDC_NO_US = S.XIDC - A.chars("_")
    nodelim_word = n(Lang.sym(S.WORD - A.chars("_")).plus(), "(\\w minus _)+")
    nodelim_xidc = n(Lang.sym(XIDC_NO_US).plus(), "(XID_Continue minus _)+")
    KEEP_NOK1 = n(Lang.over(S.XIDC | S.DELIM), "[XID_Continue . _-]*")
    KEEP_NOK1_NODELIM = n(Lang.over(S.XIDC), "XID_Continue*")
    letter_then_keep = n(Lang.sym(S.ASCII_LETTERS) + S.KEEP, "[A-Za-z][\\w. _-]*")
    letter_then_keep_nok1 = n(Lang.sym(S.ASCII_LETTERS) + KEEP_NOK1, "[A-Za-z][XID_Continue . _-]*")
    word_star = n(Lang.over(S.WORD | S.XIDC), "[\\w XID_Continue]*")
    WX = S.WORD | S.XIDC          # lower()/upper()/title() images of \\w characters may be combining marks (XID_Continue)
    letter_wx = n(Lang.sym(S.ASCII_LETTERS) + Lang.over(WX), "[A-Za-z][\\w XID_Continue]*")
    KEEPX = n(Lang.over(WX | S.DELIM), "[\\w XID_Continue . _-]*")
    WORDS_NOUS = S.WORD - A.chars("_")

    reg.add(StrContract(U + "sanitize", [
        Triple("keep", {"value": ALL}, S.KEEP, prop=["C09", "C05", "C19"]),
        Triple("keep-noK1", {"value": S.NO_K1}, KEEP_NOK1, prop=["C09"]),
        Triple("keep-noK1-nodelim", {"value": S.NO_K1_NO_RAWDELIM}, KEEP_NOK1_NODELIM, prop=["C09"]),
        Triple("keeps-leading-letter", {"value": n(Lang.sym(S.ASCII_LETTERS) + ALL, "[A-Za-z].*")}, letter_then_keep,
               prop=["C09"]),
        Triple("keeps-leading-letter-noK1", {"value": n(Lang.sym(S.ASCII_LETTERS) + S.NO_K1, "[A-Za-z]NO_K1*")},
               letter_then_keep_nok1, prop=["C09"]),
    ]))
    nodelim_any = n(Lang.sym(S.ALLC - S.DELIM).plus(), "(any character but . space _ -)+")
    reg.add(StrContract(U + "split_words", [
        Triple("words-any", {"value": ALL}, PList(nodelim_any, nodelim_any, True), prop=["C09", "C19"]),
        Triple("words", {"value": S.KEEP}, PList(nodelim_word, nodelim_word, True), prop=["C09"]),
        Triple("words-noK1", {"value": KEEP_NOK1}, PList(nodelim_xidc, nodelim_xidc, True), prop=["C09"]),
        Triple("first-word-leading-letter", {"value": letter_then_keep},
               PList(n(Lang.sym(S.ASCII_LETTERS) + Lang.over(WORDS_NOUS), "[A-Za-z](\\w minus _)*"), nodelim_word, False),
               prop=["C09"]),
        Triple("first-word-leading-letter-noK1", {"value": letter_then_keep_nok1},
               PList(n(Lang.sym(S.ASCII_LETTERS) + Lang.over(XIDC_NO_US), "[A-Za-z](XID_Continue minus _)*"), nodelim_xidc,
                     False), prop=["C09"]),
    ]))
    reg.add(StrContract(U + "fix_reserved_words", [
        Triple("not-keyword", {"value": ALL}, n(~S.KEYWORDS, "not a keyword"), prop=["C09"]),
        Triple("ident-stays-ident", {"value": S.ISIDENT}, S.IDENT, prop=["C09"]),
        Triple("xidc-stays-xidc", {"value": S.XIDC_STAR}, n(S.XIDC_STAR - S.KEYWORDS, "XID_Continue* and not a keyword"),
               prop=["C09"]),
        Triple("word-stays-word", {"value": word_star}, n(word_star - S.KEYWORDS, "[\\w XID_Continue]* and not a keyword"),
               prop=["C09"]),
        Triple("keep-stays-keep", {"value": KEEPX}, n(KEEPX - S.KEYWORDS, "[\\w XID_Continue . _-]* and not a keyword"),
               prop=["C09"]),
        Triple("keep-noK1-stays", {"value": KEEP_NOK1}, n(KEEP_NOK1 - S.KEYWORDS, "[XID_Continue . _-]* and not a keyword"),
               prop=["C09"]),
        Triple("letter-wx-stays", {"value": letter_wx}, n(letter_wx - S.KEYWORDS, "[A-Za-z][\\w XID_Continue]* and not a keyword"),
               prop=["C09"]),
        Triple("letter-first", {"value": n(Lang.sym(S.ASCII_LETTERS) + S.XIDC_STAR, "[A-Za-z]XID_Continue*")}, S.IDENT,
               prop=["C09"]),
    ]))
    reg.add(StrContract(U + "snake_case", [
        Triple("word-chars", {"value": ALL}, word_star, prop=["C09", "C19"]),
        Triple("xidc-noK1", {"value": S.NO_K1}, S.XIDC_STAR, prop=["C09"]),
    ]))
    reg.add(StrContract(U + "pascal_case", [
        Triple("word-chars", {"value": ALL}, word_star, prop=["C09", "C19"]),
        Triple("xidc-noK1", {"value": S.NO_K1}, S.XIDC_STAR, prop=["C09"]),
        Triple("leading-letter", {"value": letter_then_keep}, letter_wx, prop=["C09", "C19"]),
        Triple("leading-letter-noK1", {"value": letter_then_keep_nok1},
               n(Lang.sym(S.ASCII_LETTERS) + S.XIDC_STAR, "[A-Za-z]XID_Continue*"), prop=["C09"]),
    ]))
    kebab = n(Lang.over((WX - A.chars("_")) | A.chars("-")), "[\\w XID_Continue -]* without _")
    reg.add(StrContract(U + "kebab_case", [
        Triple("kebab-chars", {"value": ALL}, kebab, prop=["C19"]),
        Triple("path-safe", {"value": ALL}, S.PATH_COMPONENT_OR_EMPTY, prop=["C19"]),
    ]))
    ident_viol = "not (result.isidentifier() and not iskeyword(result))"
    reg.add(StrContract(U + "PythonIdentifier.__new__", [
        Triple("ident", {"value": ALL, "prefix": S.SAFE_PREFIX, "skip_snake_case": False}, S.IDENT, prop=["C09", "C01", "C05"],
               native_violates=ident_viol),
        Triple("ident-raw", {"value": ALL, "prefix": S.SAFE_PREFIX, "skip_snake_case": True}, S.IDENT, prop=["C09", "C01", "C05"],
               native_violates=ident_viol),
        Triple("ident[K1]", {"value": S.NO_K1, "prefix": S.SAFE_PREFIX, "skip_snake_case": False}, S.IDENT,
               restricts="ident", known=["C09-K1-word-not-xid"], prop=["C09", "C01", "C05"], native_violates=ident_viol),
        Triple("ident-raw[K1,K2]", {"value": S.NO_K1_NO_RAWDELIM, "prefix": S.SAFE_PREFIX, "skip_snake_case": True}, S.IDENT,
               restricts="ident-raw", known=["C09-K1-word-not-xid", "C09-K2-raw-name-delimiter"], prop=["C09", "C01", "C05"],
               native_violates=ident_viol),
        Triple("path-component", {"value": ALL, "prefix": S.SAFE_PREFIX, "skip_snake_case": False}, S.PATH_COMPONENT,
               prop=["C19"], native_violates="result in ('', '.', '..') or any(c in result for c in '/\\\\\\x00')"),
        Triple("underscore-prefixed", {"value": n(Lang.text("_") + ALL, "_.*"), "prefix": S.SAFE_PREFIX,
                                       "skip_snake_case": False},
               n(S.SAFE_PREFIX + ALL, "SAFE_PREFIX.*"), prop=["C09"],
               native_violates="not result.startswith(kwargs['prefix'])"),
    ]))
    reg.add(StrContract(U + "ClassName.__new__", [
        Triple("ident", {"value": ALL, "prefix": S.SAFE_PREFIX}, S.IDENT, prop=["C09", "C01", "C05"], native_violates=ident_viol),
        Triple("ident[K1]", {"value": S.NO_K1, "prefix": S.SAFE_PREFIX}, S.IDENT, restricts="ident",
               known=["C09-K1-word-not-xid"], prop=["C09", "C01", "C05"], native_violates=ident_viol),
        Triple("path-component", {"value": ALL, "prefix": S.SAFE_PREFIX}, S.PATH_COMPONENT, prop=["C19"],
               native_violates="result in ('', '.', '..') or any(c in result for c in '/\\\\\\x00')"),
    ]))
    # remove_string_escapes: what IS guaranteed for every input (used by the docstring sites of C05) ...
    reg.add(StrContract(U + "remove_string_escapes", [
        Triple("no-adjacent-quotes", {"value": ALL}, S.NO_ADJ_DQ, prop=["C05"],
               native_violates="'\"\"' in result"),
        Triple("no-leading-quote", {"value": ALL}, S.NO_LEADING_DQ, prop=["C05"],
               native_violates="result.startswith('\"')"),
        Triple("every-quote-escaped", {"value": ALL},
               n(~(((ALL + Lang.sym(S.ALLC - A.chars("\\"))) | Lang.eps()) + Lang.text('"') + ALL),
                 'every " is directly preceded by a backslash'), prop=["C05"],
               native_violates="any(c == '\"' and (i == 0 or result[i-1] != '\\\\') for i, c in enumerate(result))"),
        # ... and what is NOT: being a faithful body of a "..." literal.  Fails for backslash, CR, LF (known finding).
        Triple("dq-body", {"value": ALL}, S.DQ_BODY, prop=["C05"],
               native_violates="not lang('DQ_BODY').accepts_text(result)"),
        Triple("dq-body[K]", {"value": n(Lang.over(S.ALLC - A.chars("\\\n\r")), "no backslash, CR or LF")}, S.DQ_BODY,
               restricts="dq-body", known=["C05-K1-wire-name-backslash-newline"], prop=["C05"],
               native_violates="not lang('DQ_BODY').accepts_text(result)"),
    ]))
