"""Contract of the scalar `XProperty.build` classmethods (C13: the declared default is re-validated by convert_value and
a rejected default is a diagnostic, never an emitted declaration; C06: no exception): for all argument values, with
`convert_value` entering by a capturing summary (its own contract: contracts/convert_value.py).

  default-validated-or-rejected   the result is the PropertyError convert_value returned, or a property of the class whose
                                  default IS the converted value and whose name, required, python_name, description and
                                  example are the arguments (nothing else is consulted)"""
from __future__ import annotations

import importlib

import z3

from pyvc.engine_b import Case, Clause, FnContract
from pyvc.symexec import SBool, SFunc, SObj, SOpaque, SStr, SV

P = "openapi_python_client.parser.properties."
KINDS = ["int.IntProperty", "float.FloatProperty", "boolean.BooleanProperty", "string.StringProperty", "date.DateProperty",
         "datetime.DateTimeProperty", "uuid.UuidProperty", "none.NoneProperty", "any.AnyProperty", "file.FileProperty"]


def build_contract(kind):
    mod, clsname = kind.split(".")

    def make(I):
        from openapi_python_client.parser.errors import PropertyError
        C = getattr(importlib.import_module(P + mod), clsname)
        # StringProperty / AnyProperty: convert_value is total (never a PropertyError: its own contract), build does not test
        fails = I.branch_free() if clsname not in ("StringProperty", "AnyProperty") else False
        err = SObj(PropertyError, {"detail": "rejected default", "header": "", "data": None, "level": None})
        converted = SOpaque("converted default (Value or None)", cls=object)
        calls = []

        def conv(I2, a, k):
            calls.append(a[1] if len(a) > 1 else k.get("value"))
            return err if fails else converted
        fn = C.__dict__["convert_value"]
        raw = fn.__func__ if isinstance(fn, (classmethod, staticmethod)) else fn
        I.contracts[f"{raw.__module__}:{raw.__qualname__}"] = conv
        S = z3.StringSort()
        args = {"name": SStr(z3.Const("name", S)), "required": SBool(z3.Const("required", z3.BoolSort())),
                "default": SV(z3.Const("default", I.Z.JV)), "python_name": SStr(z3.Const("python_name", S)),
                "description": SStr(z3.Const("description", S)) if I.branch_free() else None,
                "example": SStr(z3.Const("example", S)) if I.branch_free() else None}
        return SFunc("pyfunc", C.build.__func__, self_val=C, name="build"), [], dict(args), {
            "C": C, "fails": fails, "err": err, "converted": converted, "calls": calls, "args": args}

    def post(ctx):
        i = ctx.inputs
        v = ctx.value
        if len(i["calls"]) != 1 or i["calls"][0] is not i["args"]["default"]:
            return False
        if i["fails"]:
            return v is i["err"]
        if not (isinstance(v, SObj) and v.cls is i["C"]):
            return False
        if v.fields.get("default") is not i["converted"]:
            return False
        return all(v.fields.get(k) is i["args"][k] for k in ("name", "required", "python_name", "description", "example"))

    cl = Clause("default-validated-or-rejected", post,
                statement=f"{clsname}.build: convert_value is applied once to the declared default; its PropertyError is returned, or "
                          "a property whose default is the converted value and whose other attributes are the arguments")
    return FnContract(f"{P}{mod}:{clsname}.build", [Case("any-arguments", make, [cl], raises=(), props=["C13", "C06"])])


def all_contracts():
    return [build_contract(k) for k in KINDS]
