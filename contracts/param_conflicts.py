"""Contract of Endpoint._check_parameters_for_conflicts (C09 scope uniqueness of an operation's parameters, C01): Engine B
with an inductive loop invariant, for ANY number of parameters.

State model (ghost): parameters are references (integers) into a symbolic heap `H: id -> python_name`; `name(id)` and
`loc(id)` are immutable.  `modified_params` is a set term over pairs (location, name) (pyvc.absdata.SymSet, aliasing =
object identity), `used_python_names` a map term python_name -> id (SymDict).  `Property.set_python_name` is the REAL method
(executed symbolically; `PythonIdentifier` by its Engine-A contract: a deterministic function); the attribute write lands
in the heap and sets two ghost flags:
    renamed_any      some parameter was renamed in this pass
    renamed_unrec    some parameter was renamed whose (location, name) was NOT in the set the pass started with (P0)
    conflict         some lookup in used_python_names found an entry (two parameters with one python name met)

Loop invariant (seen = the parameters visited so far; ia < ib two generic positions chosen by the harness):
    P0 subseteq M                                              (the set only grows)
    renamed_unrec  =>  M != P0                                 (a rename of an unrecorded parameter is always recorded)
    conflict       =>  M != P0                                 (so is every clash that did not end in a ParseError)
    not renamed_any and not conflict  =>  H == H0  and for g in {ia, ib}:  g < |seen|  =>  used[H0[id_g]] == id_g  and  H0[id_g] not reserved

Clauses (what the callers rely on):
  fixpoint-discipline   the function returns `self` without recursing only if in this pass no unrecorded parameter was
                        renamed and no clash was met (otherwise names produced by the renames would never be re-checked)
  final-pass-distinct   returns `self` and nothing was renamed in this pass  =>  the two generic parameters have different
                        python names and neither is `client`/`url`
  recursion-progress    a recursive call is made only with a strictly larger set (termination: the set is bounded by
                        locations x names) and its result is returned unchanged
Residual (not proved, covered by the bounded stand-in): a parameter that was already recorded is renamed by the
reserved-name branch in the last pass (needs a history invariant over all earlier passes).
Assumed: iter_all_parameters yields every parameter once as (location, property), parameter objects are pairwise distinct.
"""
from __future__ import annotations

import z3

from pyvc.absdata import SymDict, SymSet
from pyvc.engine_b import Case, Clause, FnContract
from pyvc.symexec import LoopSpec, SFunc, SInt, SObj, SOpaque, SSeq, SStr, STuple, SV, Unsupported

Q = "openapi_python_client.parser.openapi:Endpoint._check_parameters_for_conflicts"
LOCS = ["path", "query", "header", "cookie"]


class _World:
    pass


class PropRef(SOpaque):
    """a Property object as a reference into the symbolic heap"""

    def __init__(self, W, idt):
        super().__init__(f"prop[{idt}]", cls=object)
        self.W, self.idt = W, idt

    def getattr(self, I, name):
        W = self.W
        if name == "python_name":
            return SStr(z3.Select(W.H, self.idt))
        if name == "name":
            return SStr(W.nameF(self.idt))
        if name == "set_python_name":
            from openapi_python_client.parser.properties.protocol import PropertyProtocol
            return SFunc("pyfunc", PropertyProtocol.set_python_name, self_val=self, name=name)
        raise Unsupported(f"attribute {name} of a parameter property")

    def setattr(self, I, name, v):
        W = self.W
        if name != "python_name":
            raise Unsupported(f"write to {name} of a parameter property")
        W.H = z3.Store(W.H, self.idt, I.to_str_term(v))
        key = W.LN.constructor(0)(W.locF(self.idt), W.nameF(self.idt))
        W.renamed_any = z3.BoolVal(True)
        W.renamed_unrec = z3.Or(W.renamed_unrec, z3.Not(z3.IsMember(key, W.P0)))

    def opaque_eq(self, I, other):
        return isinstance(other, PropRef) and self.idt == other.idt


def _world(I):
    W = _World()
    S, Int = z3.StringSort(), z3.IntSort()
    W.LN, mk, (W.ln_loc, W.ln_name) = z3.TupleSort("LocName", [S, S])
    W.nameF = z3.Function("param_name", Int, S)
    W.locF = z3.Function("param_loc", Int, S)
    W.H0 = z3.Const("H0", z3.ArraySort(Int, S))
    W.H = W.H0
    W.renamed_any = z3.BoolVal(False)
    W.renamed_unrec = z3.BoolVal(False)
    W.conflict = z3.BoolVal(False)         # some lookup in used_python_names found an entry (a name clash) in this pass
    W.calls = []
    return W


def _contract(prev_kind):
    def make(I):
        from openapi_python_client.parser import openapi as M
        Z = I.Z
        W = _world(I)
        mkLN = W.LN.constructor(0)

        def enc_pair(I2, v):
            loc, name = v.items
            return mkLN(I2.to_str_term(loc), I2.to_str_term(name))

        def param(idt):
            return STuple([SStr(W.locF(idt)), PropRef(W, idt)])

        def enc_param(I2, v):
            return v.items[1].idt

        base = z3.Const("params", z3.SeqSort(Z.JV))
        ia, ib = z3.Int("ia"), z3.Int("ib")
        I.assume(z3.And(0 <= ia, ia < ib, ib < z3.Length(base)))
        id_a, id_b = Z.acc["i"](base[ia]), Z.acc["i"](base[ib])
        I.assume(id_a != id_b)                       # parameter objects are pairwise distinct (no aliasing in the lists)
        W.pair = (id_a, id_b)

        def dom(x):
            i = Z.acc["i"](x)
            return z3.And(Z.rec["int"](x), i >= 0, z3.Or(*[W.locF(i) == l for l in LOCS]))

        I.assume(z3.And(dom(base[ia]), dom(base[ib])))       # the two generic positions hold elements of the sequence
        seq = SSeq(base, dom, [lambda v: param(Z.acc["i"](v.t))])
        if prev_kind in ("none", "absent"):
            prev = None
            W.P0 = z3.EmptySet(W.LN)
        else:
            W.P0 = z3.Const("P0", z3.SetSort(W.LN))
            prev = SymSet("previously_modified_params", W.LN, enc_pair, W.P0)
        I.empty_set_hook = lambda: SymSet("set()", W.LN, enc_pair)
        def found(I2, t):
            W.conflict = z3.BoolVal(True)
            return param(t)
        made_dicts = []

        def new_dict():
            d = SymDict("used_python_names", z3.IntSort(), z3.IntVal(-1), enc_param, found)
            made_dicts.append(d)
            return d
        I.empty_dict_hook = new_dict

        def recursive(I2, a, k):
            arg = k["previously_modified_params"]
            W.calls.append(arg.term if isinstance(arg, SymSet) else None)
            W.rec_result = SOpaque("result-of-recursive-call", cls=object)
            return W.rec_result

        endpoint = SOpaque("endpoint", cls=M.Endpoint, attrs={
            "iter_all_parameters": SFunc("model", lambda I2, a, k: seq),
            "_check_parameters_for_conflicts": SFunc("model", recursive)})
        W.endpoint = endpoint
        config = SOpaque("config", attrs={"field_prefix": "field_"})
        reserved = ["client", "url"]

        def working(loc):
            """the set and the dict the function works on, whatever they are called: the set is the one local set that is
            not the argument object (or the argument itself when the code aliases it), the dict is the one the function made"""
            sets = [v for v in loc.values() if isinstance(v, SymSet)]
            other = [v for v in sets if v is not prev]
            return (other[-1] if other else prev), made_dicts[-1]

        def inv(I2, loc, seen):
            Mset, U = working(loc)
            parts = [z3.IsSubset(W.P0, Mset.term), z3.Implies(W.renamed_unrec, Mset.term != W.P0)]
            quiet = [W.H == W.H0]
            for g, idg in ((ia, id_a), (ib, id_b)):
                n0 = z3.Select(W.H0, idg)
                quiet.append(z3.Implies(g < z3.Length(seen),
                                        z3.And(z3.Select(U.term, n0) == idg, *[n0 != r for r in reserved])))
            parts.append(z3.Implies(W.conflict, Mset.term != W.P0))
            parts.append(z3.Implies(z3.And(z3.Not(W.renamed_any), z3.Not(W.conflict)), z3.And(*quiet)))
            return z3.And(*parts)

        def havoc_world(I2):
            W.H = I2.fresh("H", z3.ArraySort(z3.IntSort(), z3.StringSort()))
            W.renamed_any = I2.fresh("renamed_any", z3.BoolSort())
            W.renamed_unrec = I2.fresh("renamed_unrec", z3.BoolSort())
            W.conflict = I2.fresh("conflict", z3.BoolSort())
            return None

        # the set and the dict are havocked in place by type (engine default), the ghost world by its own generator
        I.loop_specs[(Q, 0)] = LoopSpec(inv, {"__ghost_world__": havoc_world})
        kw = dict(config=config)
        if prev_kind != "absent":
            kw["previously_modified_params"] = prev
        return SFunc("pyfunc", M.Endpoint._check_parameters_for_conflicts), [endpoint], kw, {"W": W}

    def outcome(ctx):
        W = ctx.inputs["W"]
        v = ctx.value
        if v is W.endpoint:
            return "self"
        if getattr(W, "rec_result", None) is not None and v is W.rec_result:
            return "recursive"
        if isinstance(v, SObj) and v.cls.__name__ == "ParseError":
            return "error"
        return "other"

    def shape(ctx):
        return outcome(ctx) != "other"

    def discipline(ctx):
        W = ctx.inputs["W"]
        if outcome(ctx) != "self":
            return True
        return z3.And(z3.Not(W.renamed_unrec), z3.Not(W.conflict))

    def distinct(ctx):
        W = ctx.inputs["W"]
        if outcome(ctx) != "self":
            return True
        a, b = W.pair
        na, nb = z3.Select(W.H, a), z3.Select(W.H, b)
        return z3.Implies(z3.Not(W.renamed_any), z3.And(na != nb, na != "client", na != "url", nb != "client", nb != "url"))

    def progress(ctx):
        W = ctx.inputs["W"]
        if not W.calls:
            return outcome(ctx) != "recursive"
        if len(W.calls) != 1 or outcome(ctx) != "recursive" or W.calls[0] is None:
            return False
        arg = W.calls[0]
        return z3.And(z3.IsSubset(W.P0, arg), arg != W.P0)

    clauses = [
        Clause("result-shape", shape, statement="the result is self, a ParseError or the result of the recursive call"),
        Clause("fixpoint-discipline", discipline,
               statement="returns self without recursing only if no parameter outside the set the pass started with was "
                         "renamed in this pass (every such rename is re-checked by another pass)"),
        Clause("final-pass-distinct", distinct,
               statement="returns self and nothing was renamed in this pass => any two parameters have different python "
                         "names and none is client/url (generic pair ia < ib)"),
        Clause("recursion-progress", progress,
               statement="the recursive call gets a strictly larger modified set (termination measure) and its result is "
                         "returned unchanged"),
    ]
    return Case(f"previously-{prev_kind}", make, clauses, raises=(), props=["C09", "C01"])


def conflicts_contract():
    return FnContract(Q, [_contract("absent"), _contract("none"), _contract("some")])


def iter_all_parameters_contract():
    """Endpoint.iter_all_parameters (assumed by the contract above, proved here): it yields, in this order, every path, query,
    header and cookie parameter exactly once, each paired with its location -- for lists of any length."""
    QI = "openapi_python_client.parser.openapi:Endpoint.iter_all_parameters"

    def make(I):
        from openapi_python_client.parser import openapi as M
        Z = I.Z
        seqs = {l: SSeq(z3.Const(f"{l}_parameters", z3.SeqSort(Z.JV)), None, []) for l in ("path", "query", "header", "cookie")}
        ep = SObj(M.Endpoint, {f"{l}_parameters": s for l, s in seqs.items()})
        return SFunc("pyfunc", M.Endpoint.iter_all_parameters, self_val=ep), [], {}, {"seqs": seqs}

    def post(ctx):
        from pyvc.symexec import SGenerated
        from openapi_python_client import schema as oai
        v = ctx.value
        seqs = ctx.inputs["seqs"]
        if not isinstance(v, SGenerated) or len(v.pieces) != 4:
            return False
        I = ctx.I
        for piece, loc in zip(v.pieces, ("path", "query", "header", "cookie")):
            if not isinstance(piece, SSeq) or not z3.eq(piece.base, seqs[loc].base) or len(piece.maps) != 1:
                return False
            x = SV(z3.Const("some_parameter", I.Z.JV))
            img = piece.maps[0](x)
            if not isinstance(img, STuple) or len(img.items) != 2 or img.items[0] is not getattr(oai.ParameterLocation, loc.upper()) \
                    or img.items[1] is not x:
                return False
        return True

    cl = Clause("every-parameter-once-with-its-location", post,
                statement="the generator yields the element-wise images (location, parameter) of the path, query, header and cookie "
                          "lists, in this order, nothing else")
    return FnContract(QI, [Case("lists-of-any-length", make, [cl], raises=(), props=["C09", "C03", "C01"])])
