"""EnumProperty.convert_value / LiteralEnumProperty.convert_value (C13: "a default that is not a valid value of the property's
type produces a diagnostic and is never emitted"; C06: never an exception, whatever JSON value the document offers as default).

  pre   an enumeration with two members (string members "a", "b c"  or integer members 1, 2); value: any JSON value
        (null, boolean, integer, number, string, array, object) or an already converted Value
  post  None -> None; a Value -> itself;
        a listed value of the enumeration's type -> Value(python_code = "<Class>.<MEMBER>" resp. repr(value), raw_value = value);
        anything else (an unlisted value, a value of another type, a boolean offered to an integer enumeration, an array, an
        object) -> PropertyError;  no exception escapes
"""
from __future__ import annotations

import z3

from pyvc.engine_b import Case, Clause, FnContract
from pyvc.symexec import SDict, SFunc, SObj, SOpaque, SSet, SStr, SV

P = "openapi_python_client.parser.properties"


def convert_contract(literal, vtype):
    def make(I):
        if literal:
            from openapi_python_client.parser.properties.literal_enum_property import LiteralEnumProperty as C
            values = SSet({"a", "b c"} if vtype is str else {1, 2})
        else:
            from openapi_python_client.parser.properties.enum_property import EnumProperty as C
            values = SDict({"A": "a", "B_C": "b c"} if vtype is str else {"VALUE_1": 1, "VALUE_2": 2})
        info = SOpaque("class_info", attrs={"name": "E", "module_name": "e"})
        me = SObj(C, {"name": "e", "required": True, "default": None, "python_name": "e", "description": None, "example": None,
                      "values": values, "class_info": info, "value_type": vtype})
        v = SV(z3.Const("value", I.Z.JV))
        return SFunc("pyfunc", C.convert_value, self_val=me), [v], {}, {"value": v, "vtype": vtype}

    def pre(inputs, I):
        r, t = I.Z.rec, inputs["value"].t
        return z3.Or(r["none"](t), r["bool"](t), r["int"](t), r["flt"](t), r["str"](t), r["list"](t), r["dict"](t), r["val"](t))

    def post(ctx):
        from openapi_python_client.parser.errors import PropertyError
        from openapi_python_client.parser.properties.protocol import Value
        I, Z = ctx.I, ctx.Z
        t = ctx.inputs["value"].t
        r, acc = Z.rec, Z.acc
        res = ctx.value
        if ctx.inputs["vtype"] is str:
            listed = z3.And(r["str"](t), z3.Or(acc["s"](t) == "a", acc["s"](t) == "b c"))
            code = {"a": "E.A", "b c": "E.B_C"} if not literal else {"a": "'a'", "b c": "'b c'"}
            key = lambda x: acc["s"](t) == x          # noqa: E731
        else:
            listed = z3.And(r["int"](t), z3.Or(acc["i"](t) == 1, acc["i"](t) == 2))
            code = {1: "E.VALUE_1", 2: "E.VALUE_2"} if not literal else {1: "1", 2: "2"}
            key = lambda x: acc["i"](t) == x          # noqa: E731
        if res is None:
            return r["none"](t)
        if isinstance(res, SObj) and res.cls is PropertyError:
            return z3.And(z3.Not(r["none"](t)), z3.Not(r["val"](t)), z3.Not(listed))
        if isinstance(res, SObj) and res.cls is Value:
            pc, raw = res.fields.get("python_code"), res.fields.get("raw_value")
            if pc is None:
                return False
            conds = []
            for k, c in code.items():
                if not literal:           # (literal style: python_code is repr(value), an assumed library function)
                    conds.append(z3.Implies(key(k), I.to_str_term(pc) == z3.StringVal(c)))
            raw_ok = I.py_eq(raw, ctx.inputs["value"])
            return z3.Or(r["val"](t), z3.And(listed, *conds, raw_ok if not isinstance(raw_ok, bool) else z3.BoolVal(raw_ok)))
        if isinstance(res, SV):
            return z3.And(z3.Or(r["val"](t), r["none"](t)), res.t == t)
        return False
    kind = ("Literal" if literal else "") + "EnumProperty"
    cl = Clause("listed-or-diagnostic", post,
                statement="None -> None; a Value -> itself; a listed value of the enumeration's type -> the Value naming that member "
                          "(raw_value kept); every other JSON value (unlisted, another type, a boolean for an integer enumeration, an "
                          "array, an object) -> PropertyError", props=["C13", "C14"])
    mod = "literal_enum_property" if literal else "enum_property"
    return FnContract(f"{P}.{mod}:{kind}.convert_value",
                      [Case(f"any-json[{vtype.__name__}]", make, [cl], pre=pre, raises=(), props=["C13", "C06", "C14"])])


def all_contracts():
    return [convert_contract(lit, vt) for lit in (False, True) for vt in (str, int)]


def const_convert_contract(cval):
    """ConstProperty.convert_value (C13 / C14: "a const property accepts only its constant"): for a const of value `cval` (a string,
    an integer or a boolean) and ANY JSON value offered as default: None -> None; the constant itself (same JSON type, same value)
    -> a Value; anything else -- in particular a value python merely considers EQUAL (True for 1, 1.0 for 1, 0 for False) -> a
    PropertyError.  No exception escapes."""
    def make(I):
        from openapi_python_client.parser.properties.const import ConstProperty as C
        from openapi_python_client.parser.properties.protocol import Value
        code = repr(cval) if isinstance(cval, str) else str(cval)
        me = SObj(C, {"name": "c", "required": True, "default": None, "python_name": "c", "description": None, "example": None,
                      "value": SObj(Value, {"python_code": code, "raw_value": cval})})
        v = SV(z3.Const("value", I.Z.JV))
        return SFunc("pyfunc", C.convert_value, self_val=me), [v], {}, {"value": v}

    def pre(inputs, I):
        r, t = I.Z.rec, inputs["value"].t
        return z3.Or(r["none"](t), r["bool"](t), r["int"](t), r["flt"](t), r["str"](t))

    def post(ctx):
        from openapi_python_client.parser.errors import PropertyError
        from openapi_python_client.parser.properties.protocol import Value
        Z = ctx.Z
        t = ctx.inputs["value"].t
        r, acc = Z.rec, Z.acc
        if isinstance(cval, bool):
            same = z3.And(r["bool"](t), acc["b"](t) == cval)
        elif isinstance(cval, int):
            same = z3.And(r["int"](t), acc["i"](t) == cval)
        else:
            same = z3.And(r["str"](t), acc["s"](t) == z3.StringVal(cval))
        # what the claim covers: values of another JSON type class (boolean / integer / string) and integers or booleans with
        # another value.  (Whether str(1.0) differs from str(1), and repr() of strings, are assumed library functions: a number
        # offered to an integer const and a string offered to a string const are left to the bounded stand-in enum_default.)
        if isinstance(cval, bool):
            other = z3.Or(r["int"](t), r["str"](t), z3.And(r["bool"](t), acc["b"](t) != cval))
        elif isinstance(cval, int):
            other = z3.Or(r["bool"](t), r["str"](t), z3.And(r["int"](t), acc["i"](t) != cval))
        else:
            other = z3.Or(r["bool"](t), r["int"](t), r["flt"](t))
        res = ctx.value
        if res is None:
            return r["none"](t)
        if isinstance(res, SV):
            return z3.And(r["none"](t), res.t == t)
        if isinstance(res, SObj) and res.cls is PropertyError:
            return z3.Not(r["none"](t))
        if isinstance(res, SObj) and res.cls is Value:
            return z3.Not(other)
        return False
    cl = Clause("only-the-constant-itself", post,
                statement=f"const {cval!r}: None -> None; a JSON value of another type class (boolean / integer / string) or another "
                          f"integer / boolean is never accepted -- also not one python considers equal (True for 1, 0 for False)",
                props=["C13", "C14"])
    return FnContract(f"{P}.const:ConstProperty.convert_value",
                      [Case(f"any-json[const {cval!r}]", make, [cl], pre=pre, raises=(), props=["C13", "C06", "C14"])])


def const_contracts():
    return [const_convert_contract(c) for c in ("k", 1, True, 0)]
