"""Contract of Endpoint.from_data (C03: method, path, security flag; C07: every request media type of a generated
operation is handled or named in a warning, the operation is generated iff some media type is usable or none is declared;
summary/description are not constrained here: docstrings are covered for any content) for ANY number of request media types.

`add_parameters`, `_add_responses`, `body_from_data` enter by capturing summaries (own contracts elsewhere);
`body_from_data` returns a sequence of symbolic length whose elements are Body objects or ParseErrors.
`endpoint.bodies`, `endpoint.errors` and `body_errors` are lists known by the set of their elements (ElemList).
Invariant (seen = the entries visited; g a generic position):
     g < |seen|  =>  (entry_g is an error ? entry_g in body_errors : entry_g in result.bodies)   (+ count facts)
Clauses:
  identity            the Endpoint handed to add_parameters has the path, method and tags of the call, name = operationId or
                      generate_operation_id(path, method), requires_security <=> the operation declares security
  steps-short-circuit a ParseError of add_parameters / _add_responses is returned as it is
  body-accounting     an Endpoint is returned => every parseable entry is in its bodies and every unparseable one in its errors;
                      a ParseError after the body step => no entry was parseable (and there was at least one)"""
from __future__ import annotations

import z3

from pyvc.absdata import ElemList, GrowSet
from pyvc.engine_b import Case, Clause, FnContract
from pyvc.symexec import LoopSpec, SBool, SFunc, SList, SObj, SOpaque, SSeq, SStr, STuple, SV

Q = "openapi_python_client.parser.openapi:Endpoint.from_data"


def from_data_contract():
    def make(I):
        from openapi_python_client.parser import openapi as M
        from openapi_python_client.parser.errors import ParseError
        Z = I.Z
        S = z3.StringSort()
        W = type("W", (), {})()
        esc = z3.Function("remove_string_escapes", S, S)
        opid = z3.Function("generate_operation_id", S, S, S)
        I.contracts["openapi_python_client.utils:remove_string_escapes"] = lambda I2, a, k: SStr(esc(I2.to_str_term(a[0] if a else k["value"])))
        I.contracts["openapi_python_client.parser.openapi:generate_operation_id"] = \
            lambda I2, a, k: SStr(opid(I2.to_str_term(k["path"]), I2.to_str_term(k["method"])))
        is_err = z3.Function("entry_is_error", Z.JV, z3.BoolSort())
        base = z3.Const("bodies", z3.SeqSort(Z.JV))
        g = z3.Int("g")
        has_entries = I.branch_free()
        if has_entries:
            I.assume(z3.And(0 <= g, g < z3.Length(base)))
        else:
            I.assume(z3.And(z3.Length(base) == 0, g == 0))
        made = {}

        def elem(v):
            k = v.t.get_id()
            if k not in made:
                if I.branch(is_err(v.t)):
                    e = SObj(ParseError, {"detail": SStr(I.fresh("detail", S)) if I.branch_free() else None, "header": "", "data": None,
                                          "level": None})
                else:
                    tstr = z3.Function("type_string_of_body", Z.JV, S)       # two media types may well share one schema / type
                    prop = SOpaque("body property", attrs={"get_imports": SFunc("model", lambda I2, a, k: SOpaque("imports")),
                                                           "get_lazy_imports": SFunc("model", lambda I2, a, k: SOpaque("lazy")),
                                                           "get_type_string": SFunc("model", lambda I2, a, k, t=v.t: SStr(tstr(t)))})
                    e = SOpaque("body", cls=object, attrs={"prop": prop})
                e.term = v.t
                made[k] = e
            return made[k]
        seq = SSeq(base, None, [elem])
        W.steps = {}

        def err(tag):
            return SObj(ParseError, {"detail": tag, "header": "", "data": None, "level": None})

        def add_parameters(I2, a, k):
            W.steps["add_parameters"] = k
            W.endpoint = k["endpoint"]
            # the fresh Endpoint's (empty) bodies / errors lists, in the representation the invariant talks about
            for fld in ("bodies", "errors"):
                cur = k["endpoint"].fields[fld]
                if not (isinstance(cur, SList) and not cur.items):
                    raise RuntimeError(f"a new Endpoint is expected to have an empty {fld} list")
                k["endpoint"].fields[fld] = new_list()
            k["endpoint"].fields["relative_imports"] = GrowSet("relative_imports")
            if I2.branch_free():
                W.params_error = err("parameters")
                return STuple([W.params_error, SOpaque("schemas1"), SOpaque("parameters1")])
            return STuple([k["endpoint"], SOpaque("schemas1"), SOpaque("parameters1")])

        def add_responses(I2, a, k):
            W.steps["add_responses"] = k
            if I2.branch_free():
                W.resp_error = err("responses")
                return STuple([W.resp_error, SOpaque("schemas2")])
            return STuple([k["endpoint"], SOpaque("schemas2")])

        def bodies(I2, a, k):
            W.steps["body_from_data"] = k
            return STuple([seq, SOpaque("schemas3")])
        I.contracts["openapi_python_client.parser.openapi:Endpoint.add_parameters"] = add_parameters
        I.contracts["openapi_python_client.parser.openapi:Endpoint._add_responses"] = add_responses
        I.contracts["openapi_python_client.parser.bodies:body_from_data"] = bodies

        def err_witness(I2):
            return SObj(ParseError, {"detail": SStr(I2.fresh("some_detail", S)), "header": "", "data": None, "level": None})
        lists = []

        def new_list():
            l = ElemList(f"list{len(lists)}", Z.JV, witness=err_witness)
            lists.append(l)
            return l
        I.empty_list_hook = new_list
        # a set the function may make for itself (of strings): an abstract set, havocked by the loop rule like the lists
        from pyvc.absdata import SymSet
        I.empty_set_hook = lambda: SymSet("a set made by the function", S, lambda I2, v: I2.to_str_term(v))
        W.lists = lists
        has_id = I.branch_free()
        has_sum = I.branch_free()
        has_desc = I.branch_free()
        sec = SBool(z3.Const("declares_security", z3.BoolSort()))
        sec_obj = SOpaque("security requirements", cls=list)
        sec_obj.__dict__["nonempty"] = sec.t
        data = SOpaque("operation", attrs={
            "operationId": SStr(z3.Const("operationId", S)) if has_id else None,
            "summary": SStr(z3.Const("summary", S)) if has_sum else None,
            "description": SStr(z3.Const("description", S)) if has_desc else None,
            "security": sec_obj, "responses": SOpaque("responses data")})
        I.assume(z3.And(z3.Length(z3.Const("summary", S)) > 0, z3.Length(z3.Const("description", S)) > 0))
        path, method = SStr(z3.Const("path", S)), SStr(z3.Const("method", S))
        tags = SList([SStr(z3.Const("tag", S))])

        def inv(I2, loc, seen):
            # the endpoint under construction and the list of body errors the function made (the last list it created),
            # whatever the locals are called
            res, be = W.endpoint, lists[-1]
            bl = res.fields["bodies"]
            e = base[g]
            return z3.And(z3.Implies(g < z3.Length(seen), z3.If(is_err(e), z3.IsMember(e, be.members), z3.IsMember(e, bl.members))),
                          be.facts(e), bl.facts(e),
                          z3.Implies(z3.Length(seen) == 0, z3.And(be.count == 0, bl.count == W.bodies0)))

        def havoc_list(I2, cur):
            cur.members = I2.fresh("members", z3.SetSort(Z.JV))
            cur.count = I2.fresh("count", z3.IntSort())
            return cur

        def havoc_ghost(I2):
            havoc_list(I2, W.endpoint.fields["bodies"])
            havoc_list(I2, lists[-1])
            return None
        I.loop_specs[(Q, 0)] = LoopSpec(inv, {"__ghost__": havoc_ghost})
        W.bodies0 = z3.IntVal(0)
        kw = dict(data=data, path=path, method=method, tags=tags, schemas=SOpaque("schemas"), parameters=SOpaque("parameters"),
                  request_bodies=SOpaque("request_bodies"), responses=SOpaque("responses"), config=SOpaque("config"))
        return SFunc("pyfunc", M.Endpoint.from_data), [], kw, {
            "W": W, "data": data, "path": path, "method": method, "tags": tags, "sec": sec, "esc": esc, "opid": opid, "base": base,
            "g": g, "is_err": is_err, "has_entries": has_entries, "has": (has_id, has_sum, has_desc)}

    def identity(ctx):
        i, W, I = ctx.inputs, ctx.inputs["W"], ctx.I
        ep = getattr(W, "endpoint", None)
        if ep is None or not isinstance(ep, SObj):
            return False
        f = ep.fields
        has_id, has_sum, has_desc = i["has"]
        conds = [f["path"] is i["path"], f["method"] is i["method"], f["tags"] is i["tags"]]
        if not all(conds):
            return False
        S = z3.StringVal
        name_ok = (f["name"] is i["data"].attrs["operationId"]) if has_id else \
            I.to_str_term(f["name"]) == i["opid"](i["path"].t, i["method"].t)
        # summary / description are deliberately not constrained: they only reach docstrings, which the safe_docstring
        # contract covers for ANY content (an escaping change there is behaviour-preserving for C05)
        rs = f["requires_security"]
        rs = rs.t if isinstance(rs, SBool) else z3.BoolVal(bool(rs))
        out = [rs == i["sec"].t]
        if name_ok is False:
            return False
        if name_ok is not True:
            out.append(name_ok)
        return z3.And(*out)

    def short_circuit(ctx):
        W = ctx.inputs["W"]
        r = ctx.value.items[0]
        if getattr(W, "params_error", None) is not None:
            return r is W.params_error and "add_responses" not in W.steps
        if getattr(W, "resp_error", None) is not None:
            return r is W.resp_error and "body_from_data" not in W.steps
        return True

    def accounting(ctx):
        i, W = ctx.inputs, ctx.inputs["W"]
        if "body_from_data" not in W.steps:
            return True
        r = ctx.value.items[0]
        e = i["base"][i["g"]]
        if isinstance(r, SObj) and r.cls.__name__ == "Endpoint":
            if r is not W.endpoint:
                return False
            if not i["has_entries"]:
                return True
            return z3.If(i["is_err"](e), z3.IsMember(e, r.fields["errors"].members), z3.IsMember(e, r.fields["bodies"].members))
        if isinstance(r, SObj) and r.cls.__name__ == "ParseError":
            if not i["has_entries"]:
                return False                   # nothing declared, nothing failed: an Endpoint must come back
            return i["is_err"](e)
        return False

    clauses = [
        Clause("identity", identity,
               statement="the Endpoint has the call's path, method, tags; name = operationId or generate_operation_id(path, method); "
                         "requires_security <=> the operation declares security",
               props=["C03"]),
        Clause("steps-short-circuit", short_circuit, statement="a ParseError of add_parameters / _add_responses is returned as it is "
                                                               "and the later steps are not run", props=["C07", "C06"]),
        Clause("body-accounting", accounting,
               statement="Endpoint returned => every parseable media type entry is in its bodies and every unparseable one in its "
                         "errors; ParseError after the body step => no entry was parseable and at least one was declared",
               props=["C07", "C03"]),
    ]
    return FnContract(Q, [Case("any-number-of-media-types", make, clauses, raises=(), props=["C03", "C07", "C06"])])
