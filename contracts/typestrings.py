"""C11 / C10: type-string builders (Engine B).

  PropertyProtocol.get_type_string / to_string for the scalar kinds: the declared type admits Unset exactly when the
  property is optional (and no_optional is not requested); a declaration has no default iff required and no default,
  `= UNSET` iff optional and no default, `= <python_code>` otherwise.
  UnionProperty: every inner type string is requested with the SAME json / multipart flags as the union's (truthful
  annotation of the encoded form), Unset is a member iff optional.
"""
from __future__ import annotations

import z3

import contracts.merge as cm
from pyvc.engine_b import Case, Clause, FnContract
from pyvc.symexec import SBool, SFunc, SList, SObj, SOpaque, SSet, SStr

P = "openapi_python_client.parser.properties"


def scalar_type_string_contract(kind):
    def make(I):
        sp = cm.SymProps(I)
        p = sp.prop(kind, "p")
        flags = {n: SBool(z3.Const(n, z3.BoolSort())) for n in ("no_optional", "json", "multipart", "quoted")}
        return SFunc("pyfunc", p.cls.get_type_string, self_val=p), [], dict(flags), {"p": p, **flags}

    def post(ctx):
        I = ctx.I
        i = ctx.inputs
        r = I.to_str_term(ctx.value)
        opt = z3.And(z3.Not(i["p"].fields["required"].t), z3.Not(i["no_optional"].t))
        cls = i["p"].cls
        base = z3.If(i["json"].t, z3.StringVal(cls._json_type_string),
                     z3.If(i["multipart"].t, z3.StringVal("tuple[None, bytes, str]"), z3.StringVal(cls._type_string)))
        return z3.And(z3.Contains(r, z3.StringVal("Unset")) == opt,
                      z3.If(opt, r == z3.Concat(z3.StringVal("Union[Unset, "), base, z3.StringVal("]")), r == base))
    cl = Clause("unset-iff-optional", post,
                statement=f"{kind}.get_type_string: the base type (python / json / multipart form), wrapped in Union[Unset, ...] "
                          f"exactly when the property is optional and no_optional is not requested", props=["C11", "C10"])
    return FnContract(f"{P}.protocol:PropertyProtocol.get_type_string", [Case(kind, make, [cl], raises=(), props=["C11", "C10"])])


def to_string_contract(kind):
    def make(I):
        sp = cm.SymProps(I)
        p = sp.prop(kind, "p")
        return SFunc("pyfunc", p.cls.to_string, self_val=p), [], {}, {"p": p}

    def post(ctx):
        I = ctx.I
        p = ctx.inputs["p"]
        r = I.to_str_term(ctx.value)
        d = p.fields["default"]
        req = p.fields["required"].t
        name = I.to_str_term(p.fields["python_name"])
        T = I.to_str_term(I.call(I.get_attr(p, "get_type_string"), [], {"quoted": True}))
        decl = z3.Concat(name, z3.StringVal(": "), T)
        if d is not None:
            return r == z3.Concat(decl, z3.StringVal(" = "), I.to_str_term(d.fields["python_code"]))
        return z3.If(req, r == decl, r == z3.Concat(decl, z3.StringVal(" = UNSET")))
    cl = Clause("declaration-default", post,
                statement=f"{kind}.to_string: `name: type` with no default iff required and no default, `= UNSET` iff optional and "
                          f"no default, `= <python_code>` when a default is declared", props=["C10", "C13", "C11"])
    return FnContract(f"{P}.protocol:PropertyProtocol.to_string", [Case(kind, make, [cl], raises=(), props=["C10", "C13", "C11"])])


def union_inner_flags_contract():
    def make(I):
        import openapi_python_client.parser.properties.union as U
        calls = []

        def inner(i):
            def gts(I2, a, k):
                calls.append(dict(k))
                return f"T{i}"
            o = SOpaque(f"inner{i}", cls=object, attrs={"get_type_string": SFunc("model", gts), "is_base_type": True})
            return o
        u = SObj(U.UnionProperty, {"name": "u", "required": SBool(z3.Const("required", z3.BoolSort())), "default": None,
                                   "python_name": "u", "description": None, "example": None,
                                   "inner_properties": SList([inner(0), inner(1)])})
        flags = {n: SBool(z3.Const(n, z3.BoolSort())) for n in ("no_optional", "json", "multipart")}
        return SFunc("pyfunc", U.UnionProperty.get_type_strings_in_union, self_val=u), [], dict(flags), {"calls": calls, "u": u, **flags}

    def post(ctx):
        I = ctx.I
        i = ctx.inputs
        if len(i["calls"]) != 2:
            return False
        cs = []
        for k in i["calls"]:
            for f in ("json", "multipart"):
                v = k.get(f)
                if v is None:
                    return False        # flag not forwarded: the inner property answers for the wrong form
                cs.append((v.t if isinstance(v, SBool) else z3.BoolVal(bool(v))) == i[f].t)
            if k.get("no_optional") is not True:
                return False
        r = ctx.value
        has_unset = "Unset" in r.items if isinstance(r, SSet) else False
        want_unset = z3.And(z3.Not(i["u"].fields["required"].t), z3.Not(i["no_optional"].t))
        cs.append(z3.BoolVal(has_unset) == want_unset)
        return z3.And(*cs)
    cl = Clause("inner-flags-forwarded", post,
                statement="get_type_strings_in_union asks every member for its type with the union's own json and multipart "
                          "flags (and no_optional=True); Unset is a member iff the union is optional and no_optional is false",
                props=["C11", "C10"])
    return FnContract(f"{P}.union:UnionProperty.get_type_strings_in_union", [Case("two-members", make, [cl], raises=(), props=["C11", "C10"])])


def composite_type_string_contract(kind):
    """ModelProperty / ListProperty / ConstProperty override get_type_string: same Unset discipline, base type from their own
    base-type functions (stubbed: arbitrary strings without 'Unset')."""
    def make(I):
        mod = {"ModelProperty": "model_property", "ListProperty": "list_property", "ConstProperty": "const"}[kind]
        import importlib
        C = getattr(importlib.import_module(f"{P}.{mod}"), kind)
        S = z3.StringSort()
        base_py, base_json = z3.Const("base_python", S), z3.Const("base_json", S)
        I.assume(z3.And(z3.Not(z3.Contains(base_py, z3.StringVal("Unset"))), z3.Not(z3.Contains(base_json, z3.StringVal("Unset")))))
        for meth, term in (("get_base_type_string", base_py), ("get_base_json_type_string", base_json)):
            fn = C.__dict__.get(meth)
            if fn is not None:
                I.contracts[f"{fn.__module__}:{fn.__qualname__}"] = lambda I2, a, k, term=term: SStr(term)
        fields = {"name": "p", "required": SBool(z3.Const("required", z3.BoolSort())), "default": None, "python_name": "p",
                  "description": None, "example": None}
        if kind == "ModelProperty":
            fields["class_info"] = SOpaque("class_info", attrs={"name": SStr(z3.Const("class_name", S))})
            I.assume(z3.Not(z3.Contains(z3.Const("class_name", S), z3.StringVal("Unset"))))
        if kind == "ConstProperty":
            code = z3.Const("python_code", S)
            I.assume(z3.Not(z3.Contains(code, z3.StringVal("Unset"))))
            fields["value"] = SOpaque("value", attrs={"python_code": SStr(code)})
        p = SObj(C, fields)
        flags = {n: SBool(z3.Const(n, z3.BoolSort())) for n in ("no_optional", "json", "multipart", "quoted")}
        return SFunc("pyfunc", C.get_type_string, self_val=p), [], dict(flags), {"p": p, **flags}

    def post(ctx):
        I = ctx.I
        i = ctx.inputs
        r = I.to_str_term(ctx.value)
        opt = z3.And(z3.Not(i["p"].fields["required"].t), z3.Not(i["no_optional"].t))
        U = z3.StringVal("Union[")
        return z3.And(z3.Contains(r, z3.StringVal("Unset")) == opt, z3.Implies(opt, z3.PrefixOf(U, r)))
    cl = Clause("unset-iff-optional", post,
                statement=f"{kind}.get_type_string admits Unset (as a Union member) exactly when the property is optional and "
                          f"no_optional is not requested", props=["C11", "C10"])
    mod = {"ModelProperty": "model_property", "ListProperty": "list_property", "ConstProperty": "const"}[kind]
    return FnContract(f"{P}.{mod}:{kind}.get_type_string", [Case("any-flags", make, [cl], raises=(), props=["C11", "C10"])])
