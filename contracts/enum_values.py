"""Contract of EnumProperty.values_from_list (C14 parser side: every listed value gets exactly one member holding the
(escaped) value; C09: different positions never share a member name silently): Engine B with an inductive loop invariant
over a list of ANY length.

`output` is a map term (pyvc.absdata.SymDict).  Ghost function key_of_position(i) = the key stored by iteration i (defined
by the store itself).  g < h are two generic positions.  Invariant (seen = the prefix visited so far):
      p in {g, h}, p < |seen|   =>   output[key_of_position(p)] == stored(values[p])
      h < |seen|                =>   key_of_position(g) != key_of_position(h)        (ints: if values[g] != values[h])
where stored(v) = remove_string_escapes(v) for strings and v for integers.  `utils.snake_case` and
`utils.remove_string_escapes` enter by their contracts (deterministic functions; their output languages are Engine-A
triples).  Duplicate member names end in ValueError (finding C06-K1 under C06; allowed here)."""
from __future__ import annotations

import z3

from pyvc.absdata import SymDict
from pyvc.engine_b import Case, Clause, FnContract
from pyvc.symexec import LoopSpec, SFunc, SOpaque, SSeq, SStr, SV

Q = "openapi_python_client.parser.properties.enum_property:EnumProperty.values_from_list"


class _Out(SymDict):
    def __init__(self, I, key_of):
        Z = I.Z
        super().__init__("output", Z.JV, Z.con["absent"](), lambda I2, v: I2.to_jv(v), lambda I2, t: SV(t))
        self.key_of = key_of

    def setitem(self, I, k, v):
        from pyvc.absdata import _key_term
        idx = getattr(I, "loop_index", None)
        self.last_key = _key_term(I, k)
        if idx is not None:
            I.assume(self.key_of(idx) == _key_term(I, k))       # ghost definition: the key iteration idx stores under
        super().setitem(I, k, v)


def _case(kind, pair):
    def make(I):
        from openapi_python_client.parser.properties import enum_property as EP
        Z = I.Z
        S = z3.StringSort()
        base = z3.Const("values", z3.SeqSort(Z.JV))
        g, h = z3.Int("g"), z3.Int("h")
        key_of = z3.Function("key_of_position", z3.IntSort(), S)
        esc = z3.Function("remove_string_escapes", S, S)
        snake = z3.Function("snake_case", S, S)
        I.contracts["openapi_python_client.utils:snake_case"] = lambda I2, a, k: SStr(snake(I2.to_str_term(a[0] if a else k["value"])))
        I.contracts["openapi_python_client.utils:remove_string_escapes"] = \
            lambda I2, a, k: SStr(esc(I2.to_str_term(a[0] if a else k["value"])))
        dom = (lambda x: Z.rec["str"](x)) if kind == "str" else (lambda x: Z.rec["int"](x))
        if pair:
            I.assume(z3.And(0 <= g, g < h, h < z3.Length(base), dom(base[g]), dom(base[h])))
        else:
            I.assume(z3.And(0 <= g, g < z3.Length(base), dom(base[g])))
        stored = (lambda x: Z.con["str"](esc(Z.acc["s"](x)))) if kind == "str" else (lambda x: x)
        positions = (g, h) if pair else (g,)
        class_info = SOpaque("class_info", attrs={"module_name": SStr(z3.Const("module_name", S)), "name": SStr(z3.Const("class_name", S))})
        # integers: the member name does not depend on the position.  The name the code gives to values[p] is obtained by
        # running the real function on the one-element list [values[p]] (a mechanically derived invariant candidate: if the
        # name did depend on the position, preservation of the invariant below would fail)
        key_spec = {}
        if kind == "int":
            for p in positions:
                pre = _Out(I, key_of)
                I.empty_dict_hook = lambda pre=pre: pre
                I.loop_index = None
                from pyvc.symexec import SList
                I.call(SFunc("pyfunc", EP.EnumProperty.values_from_list), [SList([SV(base[p])]), class_info], {})
                key_spec[p] = pre.last_key
        out = _Out(I, key_of)
        I.empty_dict_hook = lambda: out

        def facts(term, n):
            parts = [z3.Implies(p < n, z3.Select(term, key_of(p)) == stored(base[p])) for p in positions]
            parts += [z3.Implies(p < n, key_of(p) == key_spec[p]) for p in positions if p in key_spec]
            if pair:
                differ = key_of(g) != key_of(h)
                if kind == "int":
                    differ = z3.Implies(base[g] != base[h], differ)
                parts.append(z3.Implies(h < n, differ))
            return z3.And(*parts)

        def inv(I2, loc, seen):
            return facts(out.term, z3.Length(seen))          # `out` is the dict the function creates, whatever it is called
        I.loop_specs[(Q, 0)] = LoopSpec(inv, {})               # the body's variables are havocked by type (in place)
        seq = SSeq(base, dom, [])
        inputs = {"facts": facts, "base": base, "out": out}
        return SFunc("pyfunc", EP.EnumProperty.values_from_list), [seq, class_info], {}, inputs

    def members(ctx):
        if ctx.value is not ctx.inputs["out"]:
            return False
        return ctx.inputs["facts"](ctx.value.term, z3.Length(ctx.inputs["base"]))

    stmt = ("every listed value is held (escaped) by the member its position created" +
            ("; two positions" + (" with different values" if kind == "int" else "") + " never share a member name" if pair else ""))
    return Case(f"{kind}-{'pair' if pair else 'single'}", make,
                [Clause("one-member-per-listed-value", members, statement=stmt)], raises=(ValueError,), props=["C14", "C09"])


def values_contract():
    return FnContract(Q, [_case("str", True), _case("str", False), _case("int", True), _case("int", False)])
