"""C01-O4 import closure and metadata validity, natively on every schematic package (finite, exhaustive over the schematic
family): every generated module imports in a fresh interpreter with only the declared runtime dependencies; pyproject.toml
parses; plus Project._get_errors (C07: nothing filtered)."""
from __future__ import annotations

import time

import z3

from pyvc.core import Obligation, PROVED, REFUTED, UNDECIDED
from pyvc.engine_b import Case, Clause, FnContract
from pyvc.symexec import SFunc, SList, SObj, SOpaque


def import_closure_obligations(rep, prop="C01"):
    import contracts.endpoints_f as ef
    import contracts.models_f as mf
    from pyvc import sites
    from pyvc.replay import generate_tree, import_all, py_syntax_errors
    import shutil
    import tomllib
    docs = [("models-3.1", mf.document("3.1.0")[0], {}, "none"), ("models-3.0", mf.document("3.0.3")[0], {}, "poetry"),
            ("models-literal-enums", mf.document("3.1.0")[0], {"literal_enums": True}, "pdm"),
            ("models-attr-docstrings", mf.document("3.0.3")[0], {"docstrings_on_attributes": True}, "setup"),
            ("endpoints-3.0", ef.document("3.0.3")[0], {}, "none"), ("endpoints-3.1", ef.document("3.1.0")[0], {"literal_enums": True}, "poetry"),
            ("slots", sites.slot_document(), {}, "setup")]
    for name, doc, cfg, meta in docs:
        t0 = time.time()
        ob = Obligation(id=f"{prop}.F.import-closure.{name}[{meta}]", props=[prop], unit="generate() + all templates",
                        where="openapi_python_client/templates/", backend="cpython (fresh interpreter import of every module)",
                        formula=f"schematic document {name} (meta {meta}, config {cfg}): every generated .py compiles, every "
                                f"module of the package imports, pyproject.toml is valid TOML")
        errors, out, files, tmp = generate_tree(document=doc, config=cfg, meta=meta)
        try:
            bad = py_syntax_errors(files)
            problems = []
            if errors:
                problems.append(f"diagnostics for a valid schematic document: {[(e.header, (e.detail or '')[:80]) for e in errors][:2]}")
            if bad:
                problems.append(f"syntax errors: {bad}")
            else:
                root = out if meta == "none" else out
                imp = import_all(out.parent if meta == "none" else out)
                if imp:
                    problems.append(f"import errors: {imp[:300]}")
            for f, text in files.items():
                if f.endswith("pyproject.toml"):
                    try:
                        tomllib.loads(text)
                    except tomllib.TOMLDecodeError as e:
                        problems.append(f"pyproject.toml is not valid TOML: {e}")
            if problems:
                ob.status, ob.detail = REFUTED, "; ".join(problems)
                ob.witness = {"kind": "generate", "document": doc, "config": cfg, "meta": meta,
                              "violates": "py_syntax_errors(files) != {} or bool(import_all(out.parent if %r == 'none' else out))" % meta,
                              "observe": "str(py_syntax_errors(files)) + import_all(out.parent if %r == 'none' else out)[:300]" % meta}
            else:
                ob.status, ob.detail = PROVED, f"{len(files)} files; all modules import"
        finally:
            shutil.rmtree(tmp, ignore_errors=True)
        ob.time_s = time.time() - t0
        rep.add(ob)


def get_errors_contract():
    def make(I):
        import openapi_python_client as opc
        from pyvc.absdata import LazyMap
        # two warnings of ONE generated operation carry the same header (it names the operation, not the problem); an operation
        # under two tags has its warning in both collections
        hdr = ["WARNING parsing GET /x within a.", "WARNING parsing GET /x within a.", "WARNING parsing GET /y within b.", "", "", ""]
        e = [SOpaque(f"err{i}", attrs={"header": hdr[i], "detail": f"d{i}"}) for i in range(6)]
        c1 = SOpaque("coll1", attrs={"parse_errors": SList([e[0], e[1]])})
        c2 = SOpaque("coll2", attrs={"parse_errors": SList([e[5]])})
        e[5].attrs["header"] = "WARNING parsing GET /y within b."
        e[2].attrs["header"] = "Unable to parse schema /components/schemas/X"
        by_tag = LazyMap("by_tag", None, [("a", c1), ("b", c2)], complete=True)
        openapi = SOpaque("openapi", attrs={"endpoint_collections_by_tag": by_tag, "errors": SList([e[2], e[3]])})
        proj = SObj(opc.Project, {"openapi": openapi, "errors": SList([e[4]])})
        return SFunc("pyfunc", opc.Project._get_errors), [proj], {}, {"all": e}

    def post(ctx):
        v = ctx.value
        return isinstance(v, SList) and len(v.items) == 6 and all(any(x is y for y in v.items) for x in ctx.inputs["all"])
    cl = Clause("all-sources-concatenated", post, statement="the returned list contains every endpoint parse error of every tag, "
                                                            "every schema/parameter error and every project error (nothing "
                                                            "filtered -- in particular not by header: several warnings of one "
                                                            "operation share it)", props=["C07"])
    return FnContract("openapi_python_client:Project._get_errors", [Case("generic", make, [cl], raises=(), props=["C07"])])


def macro_presence_obligations(rep, prop="C06"):
    """every macro that a template calls on an imported property template WITHOUT first testing that it exists is defined
    by every property template (otherwise jinja2 raises UndefinedError out of generate() for that kind)"""
    import os
    from jinja2 import Environment, nodes
    from pyvc import core
    root = os.path.join(core.REPO, "openapi_python_client", "templates")
    env = Environment(trim_blocks=True, lstrip_blocks=True, extensions=["jinja2.ext.loopcontrols"])
    prop_dir = os.path.join(root, "property_templates")
    defined = {}
    for f in sorted(os.listdir(prop_dir)):
        if f.endswith("_property.py.jinja"):
            tree = env.parse(open(os.path.join(prop_dir, f), encoding="utf-8").read())
            defined[f] = {m.name for m in tree.find_all(nodes.Macro)}
    unguarded = {}          # macro name -> [(template, line)]

    def alias_attr(t, aliases):
        return t.attr if isinstance(t, nodes.Getattr) and isinstance(t.node, nodes.Name) and t.node.name in aliases else None

    def walk_list(stmts, guards, fname, aliases):
        g = set(guards)
        for st in stmts:
            if isinstance(st, nodes.If):
                pos, neg = set(), set()
                t = st.test
                if isinstance(t, nodes.Not) and alias_attr(t.node, aliases):
                    neg.add(alias_attr(t.node, aliases))
                else:
                    for x in ([t] if isinstance(t, nodes.Getattr) else list(t.find_all(nodes.Getattr))):
                        if alias_attr(x, aliases) and not isinstance(t, (nodes.Or,)):
                            pos.add(alias_attr(x, aliases))
                walk_expr(st.test, g, fname, aliases)
                walk_list(st.body, g | pos, fname, aliases)
                for e in st.elif_:
                    walk_list([e], g, fname, aliases)
                walk_list(st.else_, g | neg, fname, aliases)
                # `{% if not t.X %}...{% continue %}{% endif %}`: X exists for the rest of this iteration
                if neg and any(isinstance(n, nodes.Continue) for n in st.body):
                    g |= neg
            elif isinstance(st, (nodes.For, nodes.Macro, nodes.CallBlock, nodes.FilterBlock, nodes.With)):
                for f in ("iter", "call"):
                    if getattr(st, f, None) is not None:
                        walk_expr(getattr(st, f), g, fname, aliases)
                walk_list(st.body, g, fname, aliases)
                if isinstance(st, nodes.For):
                    walk_list(st.else_, g, fname, aliases)
            else:
                walk_expr(st, g, fname, aliases)

    def walk_expr(node, guards, fname, aliases):
        for c in [node] + list(node.find_all(nodes.Call)):
            if isinstance(c, nodes.Call) and alias_attr(c.node, aliases) and alias_attr(c.node, aliases) not in guards:
                unguarded.setdefault(alias_attr(c.node, aliases), []).append((fname, c.lineno))

    def walk(node, guards, fname, aliases):
        walk_list(node.body, guards, fname, aliases)

    for dp, _, fs in os.walk(root):
        for f in sorted(fs):
            if not f.endswith(".jinja"):
                continue
            p = os.path.join(dp, f)
            tree = env.parse(open(p, encoding="utf-8").read())
            aliases = set()
            for imp in tree.find_all(nodes.Import):
                src = imp.template
                txt = src.left.value if isinstance(src, nodes.Add) and isinstance(src.left, nodes.Const) else (src.value if isinstance(src, nodes.Const) else "")
                if "property_templates/" in str(txt) and isinstance(src, nodes.Add):
                    aliases.add(imp.target)
            if aliases:
                walk(tree, set(), os.path.relpath(p, core.REPO), aliases)
    for macro, sites in sorted(unguarded.items()):
        missing = sorted(f for f, ms in defined.items() if macro not in ms)
        ob = Obligation(id=f"{prop}.C.macro-presence.{macro}", props=[prop], unit=f"templates calling <property template>.{macro} unguarded",
                        where=f"{sites[0][0]}:{sites[0][1]}", backend="syntactic (jinja AST)",
                        formula=f"macro {macro} is called without an existence test at {sites[:3]}: every property template defines it")
        if missing:
            ob.status, ob.detail = REFUTED, f"not defined by {missing}: rendering a property of that kind raises jinja2 UndefinedError"
        else:
            ob.status, ob.detail = PROVED, f"defined by all {len(defined)} property templates"
        rep.add(ob)
