"""C01-O4 import closure and metadata validity, natively on every schematic package (finite, exhaustive over the schematic
family): every generated module imports in a fresh interpreter with only the declared runtime dependencies; pyproject.toml
parses; plus Project._get_errors (C07: nothing filtered)."""
from __future__ import annotations

import time

import z3

from pyvc.core import Obligation, PROVED, REFUTED, UNDECIDED
from pyvc.engine_b import Case, Clause, FnContract
from pyvc.symexec import SFunc, SList, SObj, SOpaque


def import_closure_obligations(rep, prop="C01"):
    import contracts.endpoints_f as ef
    import contracts.models_f as mf
    from pyvc import sites
    from pyvc.replay import generate_tree, import_all, py_syntax_errors
    import shutil
    import tomllib
    docs = [("models-3.1", mf.document("3.1.0")[0], {}, "none"), ("models-3.0", mf.document("3.0.3")[0], {}, "poetry"),
            ("models-literal-enums", mf.document("3.1.0")[0], {"literal_enums": True}, "pdm"),
            ("models-attr-docstrings", mf.document("3.0.3")[0], {"docstrings_on_attributes": True}, "setup"),
            ("endpoints-3.0", ef.document("3.0.3")[0], {}, "none"), ("endpoints-3.1", ef.document("3.1.0")[0], {"literal_enums": True}, "poetry"),
            ("slots", sites.slot_document(), {}, "setup")]
    for name, doc, cfg, meta in docs:
        t0 = time.time()
        ob = Obligation(id=f"{prop}.F.import-closure.{name}[{meta}]", props=[prop], unit="generate() + all templates",
                        where="openapi_python_client/templates/", backend="cpython (fresh interpreter import of every module)",
                        formula=f"schematic document {name} (meta {meta}, config {cfg}): every generated .py compiles, every "
                                f"module of the package imports, pyproject.toml is valid TOML")
        errors, out, files, tmp = generate_tree(document=doc, config=cfg, meta=meta)
        try:
            bad = py_syntax_errors(files)
            problems = []
            if errors:
                problems.append(f"diagnostics for a valid schematic document: {[(e.header, (e.detail or '')[:80]) for e in errors][:2]}")
            if bad:
                problems.append(f"syntax errors: {bad}")
            else:
                root = out if meta == "none" else out
                imp = import_all(out.parent if meta == "none" else out)
                if imp:
                    problems.append(f"import errors: {imp[:300]}")
            for f, text in files.items():
                if f.endswith("pyproject.toml"):
                    try:
                        tomllib.loads(text)
                    except tomllib.TOMLDecodeError as e:
                        problems.append(f"pyproject.toml is not valid TOML: {e}")
            if problems:
                ob.status, ob.detail = REFUTED, "; ".join(problems)
                ob.witness = {"kind": "generate", "document": doc, "config": cfg, "meta": meta,
                              "violates": "py_syntax_errors(files) != {} or bool(import_all(out.parent if %r == 'none' else out))" % meta,
                              "observe": "str(py_syntax_errors(files)) + import_all(out.parent if %r == 'none' else out)[:300]" % meta}
            else:
                ob.status, ob.detail = PROVED, f"{len(files)} files; all modules import"
        finally:
            shutil.rmtree(tmp, ignore_errors=True)
        ob.time_s = time.time() - t0
        rep.add(ob)


def get_errors_contract():
    def make(I):
        import openapi_python_client as opc
        from pyvc.absdata import LazyMap
        e = [SOpaque(f"err{i}") for i in range(5)]
        c1 = SOpaque("coll1", attrs={"parse_errors": SList([e[0]])})
        c2 = SOpaque("coll2", attrs={"parse_errors": SList([e[1]])})
        by_tag = LazyMap("by_tag", None, [("a", c1), ("b", c2)], complete=True)
        openapi = SOpaque("openapi", attrs={"endpoint_collections_by_tag": by_tag, "errors": SList([e[2], e[3]])})
        proj = SObj(opc.Project, {"openapi": openapi, "errors": SList([e[4]])})
        return SFunc("pyfunc", opc.Project._get_errors), [proj], {}, {"all": e}

    def post(ctx):
        v = ctx.value
        return isinstance(v, SList) and len(v.items) == 5 and all(any(x is y for y in v.items) for x in ctx.inputs["all"])
    cl = Clause("all-sources-concatenated", post, statement="the returned list contains every endpoint parse error of every tag, "
                                                            "every schema/parameter error and every project error (nothing "
                                                            "filtered)", props=["C07"])
    return FnContract("openapi_python_client:Project._get_errors", [Case("generic", make, [cl], raises=(), props=["C07"])])
