"""Engine F contracts for generated endpoint modules (C03 request construction, C04 response decoding, C10 for
parameters).  The schematic document has operations covering every parameter location x kind x required/optional,
every body type, and the response shapes; names need pythonisation and several share a name across locations.

Contract of `_get_kwargs` (from the statement of C03), for all argument values:
    result == {"method": M, "url": PATH with every {wire-name} replaced by str(argument of that parameter),
               "params":  {wire: enc(v) for query arguments v that are neither UNSET nor None},
               "cookies": {wire: v for cookie arguments that are not UNSET},
               "headers": {wire: hdr(v) for header arguments that are not UNSET} + Content-Type (not for multipart),
               "json" | "data" | "files" | "content": enc(body)}          -- and nothing else.
The expected dict is built by the spec functions below from the *document* (wire names, locations, media types), not
from the templates.
"""
from __future__ import annotations

import string

import z3

from pyvc import fragments
from pyvc.engine_b import Case, Clause, FnContract
from pyvc.libmodels import Domains
from pyvc.symexec import (SBool, SDict, SFloat, SFunc, SInt, SList, SObj, SOpaque, SSeq, SStr, STuple, SV, Unsupported)

KINDS = {
    "str": {"type": "string"},
    "int": {"type": "integer"},
    "num": {"type": "number"},
    "bool": {"type": "boolean"},
    "date": {"type": "string", "format": "date"},
    "datetime": {"type": "string", "format": "date-time"},
    "uuid": {"type": "string", "format": "uuid"},
    "enum": {"$ref": "#/components/schemas/Color"},
    "liststr": {"type": "array", "items": {"type": "string"}},
    "listdate": {"type": "array", "items": {"type": "string", "format": "date"}},
    "nullstr": {"type": "string", "nullable": True},
    "const": {"const": "csv"},                                          # Literal[...] in the signature: needs its own import
    "unionstrint": {"oneOf": [{"type": "string"}, {"type": "integer"}]},
    "listenum": {"type": "array", "items": {"$ref": "#/components/schemas/Color"}},
    "nullint": {"type": "integer", "nullable": True},
    "booldflt": {"type": "boolean", "default": True},         # optional with a declared default: UNSET passed explicitly is still "not sent"
    "intdflt": {"type": "integer", "default": 50},
    "model": {"$ref": "#/components/schemas/Item"},          # an object as query parameter: its properties are spread into the query
}
HEADER_KINDS = ["str", "int", "num", "bool", "enum", "booldflt", "intdflt"]
PATH_KINDS = ["str", "int", "enum", "date"]
COOKIE_KINDS = ["str", "int"]


def _param(name, loc, kind, required):
    return {"name": name, "in": loc, "required": required, "schema": KINDS[kind]}


def document(version="3.0.3"):
    comps = {
        "Color": {"type": "string", "enum": ["red", "dark blue"]},
        "Body": {"type": "object", "required": ["n"], "properties": {"n": {"type": "integer"}, "when-at": {"type": "string", "format": "date"},
                                                                     "u": {"oneOf": [{"type": "string"}, {"type": "integer"}]},
                                                                     "nn": {"type": "string", "nullable": True}}},
        "Item": {"type": "object", "required": ["id"], "properties": {"id": {"type": "integer"}}, "additionalProperties": False},
    }
    ops = {}
    paths = {}
    ok = {"200": {"description": "ok"}}
    # 1. one operation per (location, kind): a required and an optional parameter (generic block + frame argument);
    #    wire names need pythonisation
    def simple_op(opid, params, method="get"):
        paths["/" + opid] = {method: {"operationId": opid, "tags": ["t"], "parameters": params, "responses": ok}}
        ops[opid] = (method, "/" + opid, params, None)
    for k in KINDS:
        simple_op(f"op_query_{k}", [_param(f"q-{k}-req", "query", k, True), _param(f"q-{k}-opt", "query", k, False)])
    for k in HEADER_KINDS:
        simple_op(f"op_header_{k}", [_param(f"X-{k}-Req", "header", k, True), _param(f"X-{k}-Opt", "header", k, False)], "post")
    for k in COOKIE_KINDS:
        simple_op(f"op_cookie_{k}", [_param(f"c-{k}-req", "cookie", k, True), _param(f"c-{k}-opt", "cookie", k, False)], "head")
    # 2. interaction: the same wire name in three locations plus one more of each
    simple_op("op_mixed", [_param("same", "query", "str", False), _param("same", "header", "str", False),
                           _param("same", "cookie", "str", False), _param("n-one", "query", "int", True),
                           _param("X-Two", "header", "bool", True), _param("c3", "cookie", "str", True)], "options")
    # 3. path parameters declared in an order different from the placeholders, plus a query parameter with the same name
    params = [_param("second", "path", "int", True), _param("first-one", "path", "str", True),
              _param("third", "path", "enum", True), _param("d", "path", "date", True),
              _param("second", "query", "int", False)]
    p = "/a/{first-one}/b/{second}/{third}/{d}"
    paths[p] = {"put": {"operationId": "op_path", "tags": ["t"], "parameters": params, "responses": ok}}
    ops["op_path"] = ("put", p, params, None)
    # 3b. path parameters whose names need pythonisation (keyword, camelCase, kebab-case) and also occur inside fixed
    #     segments and inside another placeholder: only the `{name}` placeholders may be rewritten
    params = [_param("type", "path", "str", True), _param("formatId", "path", "str", True),
              _param("user-id", "path", "str", True), _param("typeId", "path", "int", True)]
    p = "/types/{type}/formatIds/{formatId}/user-id-x/{user-id}/type/{typeId}"
    paths[p] = {"get": {"operationId": "op_path_names", "tags": ["t"], "parameters": params, "responses": ok}}
    ops["op_path_names"] = ("get", p, params, None)
    # 4. path-item level parameters overridden by operation level ones
    pi = [_param("v", "query", "int", False), _param("only-item", "header", "str", False), _param("v", "header", "str", False)]
    op = [_param("v", "query", "str", True)]
    paths["/over"] = {"parameters": pi, "delete": {"operationId": "op_over", "tags": ["t"], "parameters": op, "responses": ok}}
    ops["op_over"] = ("delete", "/over", [op[0], pi[1], pi[2]], None)
    # 5. bodies
    def body_op(opid, content, method="post"):
        path = "/" + opid
        paths[path] = {method: {"operationId": opid, "tags": ["b"], "requestBody": {"content": content}, "responses": ok,
                                "parameters": [_param("X-Trace", "header", "str", False)]}}
        ops[opid] = (method, path, [_param("X-Trace", "header", "str", False)], content)
    ref = {"$ref": "#/components/schemas/Body"}
    body_op("body_json", {"application/json": {"schema": ref}})
    body_op("body_json_list", {"application/json": {"schema": {"type": "array", "items": ref}}}, "patch")
    body_op("body_json_str", {"application/vnd.x+json": {"schema": {"type": "string"}}})
    body_op("body_form", {"application/x-www-form-urlencoded": {"schema": ref}})
    body_op("body_multipart", {"multipart/form-data": {"schema": ref}})
    body_op("body_binary", {"application/octet-stream": {"schema": {"type": "string", "format": "binary"}}})
    body_op("body_multi", {"application/json": {"schema": ref}, "application/x-www-form-urlencoded": {"schema": {"$ref": "#/components/schemas/Item"}},
                           "multipart/form-data": {"schema": {"$ref": "#/components/schemas/Color2"}}})
    comps["Color2"] = {"type": "object", "properties": {"c": {"type": "string"}}}
    # 6. responses
    item = {"$ref": "#/components/schemas/Item"}
    resp = {
        "200": {"description": "", "content": {"application/json": {"schema": item}}},
        "201": {"description": "", "content": {"application/json": {"schema": {"type": "array", "items": item}}}},
        "202": {"description": "", "content": {"text/plain": {"schema": {"type": "string"}}}},
        "203": {"description": "", "content": {"application/octet-stream": {"schema": {"type": "string", "format": "binary"}}}},
        "204": {"description": ""},
        "205": {"description": "", "content": {"application/vnd.api+json": {"schema": {"type": "integer"}}}},
        "400": {"description": "", "content": {"application/json": {"schema": {"oneOf": [item, {"type": "string"}]}}}},
        "404": {"$ref": "#/components/responses/NotFound"},
        "418": {"description": "", "content": {"application/json": {"schema": {}}}},
    }
    paths["/resp"] = {"get": {"operationId": "op_resp", "tags": ["r"], "responses": resp}}
    paths["/resp_none"] = {"get": {"operationId": "op_resp_none", "tags": ["r"], "responses": {"200": {"description": ""}, "404": {"description": ""}}}}
    paths["/resp_sec"] = {"get": {"operationId": "op_resp_sec", "tags": ["r"], "security": [{"k": []}],
                                  "responses": {"200": {"description": "", "content": {"application/json": {"schema": {"type": "string", "format": "date"}}}}}}}
    # operations that are generated, imported and type-checked (C01 / C11) but have no Engine-F contract of their own: object-typed
    # and array-of-object query parameters (required and optional), optional parameters of every location next to a multipart body
    item_ref = {"$ref": "#/components/schemas/Item"}
    paths["/typed_only"] = {"post": {"operationId": "typed_only", "tags": ["x"], "parameters": [
        {"name": "filter", "in": "query", "required": False, "schema": item_ref},
        {"name": "must", "in": "query", "required": True, "schema": item_ref},
        {"name": "inline-obj", "in": "query", "required": False, "schema": {"type": "object", "properties": {"a": {"type": "integer"}}}},
        {"name": "many", "in": "query", "required": False, "schema": {"type": "array", "items": item_ref}},
        {"name": "when", "in": "header", "required": False, "schema": {"type": "integer"}},
        {"name": "flag", "in": "cookie", "required": False, "schema": {"type": "boolean"}}],
        "requestBody": {"content": {"multipart/form-data": {"schema": {"$ref": "#/components/schemas/Body"}}}}, "responses": ok}}
    doc = {"openapi": version, "info": {"title": "frag", "version": "1"}, "paths": paths,
           "components": {"schemas": comps,
                          "responses": {"NotFound": {"description": "", "content": {"application/json": {"schema": {"type": "object", "properties": {"msg": {"type": "string"}}}}}}},
                          "securitySchemes": {"k": {"type": "apiKey", "in": "header", "name": "X-Key"}}}}
    return doc, ops, resp


# ---- symbolic arguments and their expected encodings (spec side) ------------------------------------------------------

class Spread:
    """expected encoding of an object-typed query parameter: its (JSON) properties become query parameters themselves"""

    def __init__(self, items):
        self.items = items


class ArgBuilder:
    def __init__(self, I, pkg, comps=None):
        self.I, self.pkg, self.comps = I, pkg, comps
        self.n = 0

    def fresh(self, prefix, sort):
        self.n += 1
        return z3.Const(f"{prefix}_{self.n}", sort)

    def value(self, kind, hint):
        """(python-side argument value, expected JSON encoding, expected header text)"""
        I, Z = self.I, self.I.Z
        D = Domains.get()
        S = z3.StringSort()
        if kind in ("str", "nullstr"):
            if kind == "nullstr" and I.branch_free():
                return None, None, None
            s = SStr(self.fresh(hint, S))
            return s, s, s
        if kind in ("int", "intdflt"):
            i = SInt(self.fresh(hint, z3.IntSort()))
            return i, i, SStr(Z.int_str(i.t))
        if kind == "num":
            f = SFloat(Z.fk["fin"], self.fresh(hint, z3.RealSort()))
            return f, f, SStr(Z.flt_str(f.r))
        if kind == "booldflt":
            kind = "bool"
        if kind == "intdflt":
            kind = "int"
        if kind == "bool":
            b = SBool(self.fresh(hint, z3.BoolSort()))
            return b, b, SStr(z3.If(b.t, z3.StringVal("true"), z3.StringVal("false")))
        if kind in ("date", "datetime"):
            import datetime
            s = self.fresh(hint, S)
            if kind == "date":
                I.assume(D.canon_date(s))
                v = SObj(datetime.date, {"__of__": SObj(datetime.datetime, {"__iso__": SStr(s)})})
            else:
                I.assume(D.canon_datetime(s))
                v = SObj(datetime.datetime, {"__iso__": SStr(s)})
            return v, SStr(s), SStr(s)
        if kind == "uuid":
            import uuid
            s = self.fresh(hint, S)
            I.assume(D.canon_uuid(s))
            return SObj(uuid.UUID, {"__text__": SStr(s)}), SStr(s), SStr(s)
        if kind == "enum":
            cls = self.pkg.module("models.color").Color
            members = list(cls)
            k = 0
            while k < len(members) - 1 and not I.branch_free():
                k += 1
            m = members[k]
            return m, m.value, m.value
        if kind == "liststr":
            a, b = SStr(self.fresh(hint, S)), SStr(self.fresh(hint, S))
            n = 0 if I.branch_free() else 2
            items = [a, b][:n]
            return SList(list(items)), SList(list(items)), None
        if kind == "listdate":
            import datetime
            s = self.fresh(hint, S)
            I.assume(D.canon_date(s))
            n = 0 if I.branch_free() else 1
            v = SObj(datetime.date, {"__of__": SObj(datetime.datetime, {"__iso__": SStr(s)})})
            return SList([v][:n]), SList([SStr(s)][:n]), None
        if kind == "listenum":
            cls = self.pkg.module("models.color").Color
            members = list(cls)
            n = I.choose(3)
            picked = [members[(j + n) % len(members)] for j in range(n)]
            return SList(list(picked)), SList([m.value for m in picked]), None
        if kind == "nullint":
            if I.branch_free():
                return None, None, None
            i = SInt(self.fresh(hint, z3.IntSort()))
            return i, i, SStr(Z.int_str(i.t))
        if kind == "model":
            cls = self.pkg.module("models.item").Item
            wb = fragments.WireBuilder(I, self.comps)
            src = wb.object(wb.resolve({"$ref": "#/components/schemas/Item"}), hint, 0)
            obj = I.call(I.get_attr(cls, "from_dict"), [src], {})
            return obj, Spread(dict(src.items)), None
        if kind == "const":
            return "csv", "csv", "csv"                 # the only admitted value
        if kind == "unionstrint":
            if I.branch_free():
                s = SStr(self.fresh(hint, S))
                return s, s, s
            i = SInt(self.fresh(hint, z3.IntSort()))
            return i, i, SStr(Z.int_str(i.t))
        raise Unsupported(kind)


def _kind_of(schema):
    for k, s in KINDS.items():
        if s == schema:
            return k
    raise KeyError(schema)


def get_kwargs_contract(pkg, doc, opid, method, path, params, content, version, overrides=None):
    from openapi_python_client import utils
    tag = "t" if content is None else "b"

    def make(I):
        fn, kwargs, exp = build_call(I, pkg, doc, opid, method, path, params, content, overrides)
        return SFunc("pyfunc", fn), [], kwargs, {"expected": exp}

    def eq(ctx):
        I = ctx.I
        I.in_clause = True
        try:
            return _deep_eq(I, ctx.value, ctx.inputs["expected"])
        finally:
            I.in_clause = False

    clauses = [Clause("request-as-documented", eq, native="result is not None",
                      statement=f"_get_kwargs of {method.upper()} {path}: method, url with every placeholder filled by its own "
                                f"argument, params/cookies/headers keyed by the wire names with unset optional arguments "
                                f"left out, body under the key of its media type with a matching Content-Type -- and "
                                f"nothing else", props=["C03", "C10"])]
    ver = version if version in ("3.0.3", "3.1.0") else "3.0.3"
    case = Case(f"get_kwargs[{version}]", make, clauses, raises=(), props=["C03", "C10"],
                pool=(lambda: [{"version": ver, "opid": opid}]) if not version.startswith("capture") else None,
                native_target="pyvc.fragnative:get_kwargs_violation")
    return FnContract(f"{pkg.name}.api.{tag}.{opid}:_get_kwargs", [case])


def build_call(I, pkg, doc, opid, method, path, params, content, overrides=None):
    """symbolic arguments of an operation and the request the document says they must produce"""
    tag = "t" if content is None else "b"
    if True:
        mod = pkg.module(f"api.{tag}.{opid}")
        unset = pkg.module("types").UNSET
        ab = ArgBuilder(I, pkg, doc["components"]["schemas"])
        fn = mod._get_kwargs
        import inspect
        sig = inspect.signature(fn)
        kwargs = {}
        expected = {"query": {}, "header": {}, "cookie": {}, "path": {}}
        # python names are assigned by the generator; recover the mapping wire->python from the signature order:
        # arguments(): path parameters, body, query, header, cookie -- each in document order (after de-duplication).
        names = [n for n in sig.parameters if n != "body"]
        by_loc = {"path": [], "query": [], "header": [], "cookie": []}
        for p in params:
            by_loc[p["in"]].append(p)
        # path parameters are ordered by placeholder position
        order = [seg[1] for seg in string.Formatter().parse(path) if seg[1]]
        by_loc["path"].sort(key=lambda p: order.index(p["name"]))
        ordered = by_loc["path"] + by_loc["query"] + by_loc["header"] + by_loc["cookie"]
        if len(ordered) != len(names):
            from pyvc.engine_b import Refuted
            raise Refuted(f"_get_kwargs accepts {len(names)} parameters {names}, the document declares {len(ordered)}: "
                          f"{[(p['name'], p['in']) for p in ordered]} -- a documented parameter cannot be passed (or an "
                          f"undocumented one is demanded)")
        for pyname, p in zip(names, ordered):
            kind = _kind_of(p["schema"])
            if not p["required"] and I.branch_free():
                kwargs[pyname] = unset
                continue
            v, enc, hdr = ab.value(kind, pyname)
            kwargs[pyname] = v
            loc = p["in"]
            if loc == "query":
                if isinstance(enc, Spread):
                    expected["query"].update(enc.items)
                elif v is not None:
                    expected["query"][p["name"]] = enc
            elif loc == "header":
                expected["header"][p["name"]] = hdr
            elif loc == "cookie":
                expected["cookie"][p["name"]] = v
            else:
                expected["path"][p["name"]] = hdr if hdr is not None else v
        exp = SDict({"method": method})
        # url
        parts = []
        for lit, field, spec, conv in string.Formatter().parse(path):
            parts.append(lit)
            if field:
                parts.append(I.py_str(expected["path"][field]))
        exp.items["url"] = I.concat(parts)
        if by_loc["query"]:
            exp.items["params"] = SDict(expected["query"])
        if by_loc["cookie"]:
            exp.items["cookies"] = SDict(expected["cookie"])
        headers = dict(expected["header"])
        if content is not None:
            body, key, enc, ctype = _body_value(I, pkg, doc, content, ab, overrides)
            kwargs["body"] = body
            exp.items[key] = enc
            if ctype is not None:
                headers["Content-Type"] = ctype
        if by_loc["header"] or content is not None:
            exp.items["headers"] = SDict(headers)
        return fn, kwargs, exp


def entry_contract(pkg, doc, opid, method, path, params, content, version, entry):
    """sync_detailed / asyncio_detailed / sync / asyncio: exactly one request, built from the documented kwargs, sent
    through the client's (async) httpx client; the result is _build_response of what came back (or its .parsed)."""
    tag = "t" if content is None else "b"

    def make(I):
        fn, kwargs, exp = build_call(I, pkg, doc, opid, method, path, params, content)
        mod = pkg.module(f"api.{tag}.{opid}")
        sent = []
        response = SResponse(I, 200, None)

        def request(I2, a, k):
            sent.append(("request", list(a), dict(k)))
            return response
        httpx_sync = SOpaque("httpx.Client", attrs={"request": SFunc("model", request)})
        httpx_async = SOpaque("httpx.AsyncClient", attrs={"request": SFunc("model", request)})
        used = []
        client = SOpaque("client", attrs={
            "raise_on_unexpected_status": SBool(z3.Const("raise_on_unexpected_status", z3.BoolSort())),
            "get_httpx_client": SFunc("model", lambda I2, a, k: (used.append("sync"), httpx_sync)[1]),
            "get_async_httpx_client": SFunc("model", lambda I2, a, k: (used.append("async"), httpx_async)[1])})
        kw = dict(kwargs)
        kw["client"] = client
        return SFunc("pyfunc", getattr(mod, entry)), [], kw, {"expected": exp, "sent": sent, "used": used,
                                                                "response": response, "client": client, "mod": mod}

    def one_request(ctx):
        I = ctx.I
        sent = ctx.inputs["sent"]
        if len(sent) != 1 or sent[0][1]:
            return False
        want = "async" if entry.startswith("asyncio") else "sync"
        if ctx.inputs["used"] != [want]:
            return False
        I.in_clause = True
        try:
            return _deep_eq(I, SDict(sent[0][2]), ctx.inputs["expected"])
        finally:
            I.in_clause = False

    def result_is_built(ctx):
        I = ctx.I
        mod = ctx.inputs["mod"]
        built = I.call_pyfunc(mod._build_response, [], {"client": ctx.inputs["client"], "response": ctx.inputs["response"]})
        v = ctx.value
        if entry in ("sync", "asyncio"):
            return I.py_eq(v, built.fields["parsed"])
        if not isinstance(v, SObj):
            return False
        cs = [I.py_eq(v.fields[f], built.fields[f]) if not isinstance(v.fields[f], SOpaque) else (v.fields[f] is built.fields[f])
              for f in ("status_code", "content", "headers", "parsed")]
        if any(c is False for c in cs):
            return False
        cs = [c for c in cs if c is not True]
        return z3.And(*cs) if cs else True

    clauses = [
        Clause("exactly-one-documented-request", one_request, native="result is not None",
               statement=f"{entry} of {method.upper()} {path} sends exactly one request through the "
                         f"{'async ' if entry.startswith('asyncio') else ''}httpx client, with exactly the documented kwargs",
               props=["C03"]),
        Clause("result-is-built-response", result_is_built, native="result is not None",
               statement=f"{entry} returns _build_response(client, response){'.parsed' if entry in ('sync', 'asyncio') else ''}",
               props=["C04"]),
    ]
    case = Case(f"{entry}[{version}]", make, clauses, raises=(), props=["C03", "C04"])
    return FnContract(f"{pkg.name}.api.{tag}.{opid}:{entry}", [case])


def _deep_eq(I, a, b):
    """equality of nested python-side structures (dict key sets must agree exactly), z3 Bool or python bool"""
    if isinstance(a, SDict) and isinstance(b, SDict) and a.rest is None and b.rest is None:
        if set(a.items) != set(b.items):
            return False
        cs = []
        for k in a.items:
            e = _deep_eq(I, a.items[k], b.items[k])
            if e is False:
                return False
            if e is not True:
                cs.append(e)
        return z3.And(*cs) if cs else True
    return I.py_eq(a, b)


def _body_value(I, pkg, doc, content, ab, overrides=None):
    """python-side body argument, kwarg key, expected encoding, expected Content-Type (None: must not be set).
    overrides: config.content_type_overrides -- a media type BEHAVES as the one it maps to and is SENT as itself"""
    comps = doc["components"]["schemas"]
    types = list(content)
    k = 0
    while k < len(types) - 1 and not I.branch_free():
        k += 1
    declared = types[k]
    schema = content[declared]["schema"]
    ctype = (overrides or {}).get(declared, declared)
    if ctype != declared:
        # behave as `ctype`, announce `declared` (also for a multipart target: the document's own media type is what is sent)
        body, key, enc, _ = _body_value(I, pkg, doc, {ctype: content[declared]}, ab, None)
        return body, key, enc, declared
    wb = fragments.WireBuilder(I, comps)

    def model_from(schema_ref):
        name = schema_ref["$ref"].rsplit("/", 1)[1]
        from openapi_python_client import utils
        cls = getattr(pkg.module("models." + utils.snake_case(name)), name)
        src = wb.object(wb.resolve(schema_ref), "body", 0)
        obj = I.call(I.get_attr(cls, "from_dict"), [src], {})
        return obj, src
    if ctype == "application/octet-stream":
        File = pkg.module("types").File
        payload = SOpaque("payload")
        return SObj(File, {"payload": payload, "file_name": None, "mime_type": None}), "content", payload, ctype
    if ctype == "multipart/form-data":
        obj, src = model_from(schema)
        # modular: the model's to_multipart() is used by summary (an opaque value per receiver); its own correctness is
        # not part of this obligation.  Content-Type must be left to httpx (it has to add the boundary).
        token = SOpaque("to_multipart(body)")
        qn = f"{obj.cls.__module__}:{obj.cls.__qualname__}.to_multipart"
        I.contracts[qn] = lambda I2, a, k, token=token, obj=obj: token if a and a[0] is obj else SOpaque("to_multipart(other)")
        return obj, "files", token, None
    if ctype == "application/x-www-form-urlencoded":
        obj, src = model_from(schema)
        return obj, "data", src, ctype
    # json
    if "$ref" in schema:
        obj, src = model_from(schema)
        return obj, "json", src, ctype
    if schema.get("type") == "array":
        a, sa = model_from(schema["items"])
        n = 0 if I.branch_free() else 1
        return SList([a][:n]), "json", SList([sa][:n]), ctype
    if schema.get("type") == "string":
        s = SStr(ab.fresh("body", z3.StringSort()))
        return s, "json", s, ctype
    raise Unsupported(f"schematic body {schema}")


# ---- responses (C04) ---------------------------------------------------------------------------------------------------

class SResponse(SOpaque):
    """symbolic httpx.Response: status_code, content (bytes), text, headers, json()"""

    def __init__(self, I, status, json_value):
        super().__init__("response")
        self.status = status
        self.json_value = json_value
        self.content = SOpaque("response.content", cls=bytes)
        self.content.nonempty = z3.Bool("response_content_nonempty")       # a body may be empty: its truthiness is symbolic
        self.content.getattr = lambda I2, name: SFunc("model", lambda I3, a, k: _bytes_decode(I3, a, k)) if name == "decode" else (_ for _ in ()).throw(Unsupported(name))
        self.text = SStr(z3.Const("response_text", z3.StringSort()))
        self.headers = SOpaque("response.headers")
        self.attrs = {"status_code": status, "content": self.content, "text": self.text, "headers": self.headers,
                      "json": SFunc("model", lambda I2, a, k: self.json_value)}


def _bytes_decode(I, args, kwargs):
    if "errors" in kwargs and kwargs["errors"] in ("ignore", "replace"):
        return SStr(I.fresh("decoded", z3.StringSort()))
    if I.branch_free():
        I.raise_(UnicodeDecodeError, "invalid start byte")
    return SStr(I.fresh("decoded", z3.StringSort()))


def parse_response_contract(pkg, doc, opid, responses, version, entry="_parse_response", unspecified=(), overrides=None):
    """unspecified: status intervals the contract says nothing about (e.g. codes covered only by a range key such as 2XX, which
    this generator may or may not support): the 'undocumented status' case ranges over the codes outside them"""
    comps = doc["components"]["schemas"]

    def resolve_resp(r):
        if "$ref" in r:
            return doc["components"]["responses"][r["$ref"].rsplit("/", 1)[1]]
        return r

    def make(I):
        mod = pkg.module(f"api.r.{opid}")
        Z = I.Z
        status = SInt(z3.Const("status", z3.IntSort()))
        codes = sorted(int(c) for c in responses)
        # choose which documented status (or none of them) this path is about
        k = 0
        while k < len(codes) and not I.branch_free():
            k += 1
        if k < len(codes):
            I.assume(status.t == codes[k])
            r = resolve_resp(responses[str(codes[k])])
            content = r.get("content") or {}
            ctype = next(iter(content), None)
            schema = content[ctype]["schema"] if ctype else None
            ctype = (overrides or {}).get(ctype, ctype)        # content_type_overrides: decoded as the media type it maps to
        else:
            for c in codes:
                I.assume(status.t != c)
            I.assume(z3.And(status.t >= 100, status.t <= 599))
            for lo, hi in unspecified:
                I.assume(z3.Or(status.t < lo, status.t > hi))
            ctype = schema = None
        wb = fragments.WireBuilder(I, comps)
        json_value = None
        if schema is not None and ctype is not None and ("json" in ctype):
            json_value = wb.value(schema, "json", 0)
        resp = SResponse(I, status, json_value)
        raise_flag = SBool(z3.Const("raise_on_unexpected_status", z3.BoolSort()))
        client = SOpaque("client", attrs={"raise_on_unexpected_status": raise_flag})
        fn = getattr(mod, entry)
        info = {"documented": k < len(codes), "ctype": ctype, "schema": schema, "json": fragments_copy(json_value),
                "resp": resp, "raise": raise_flag, "code": codes[k] if k < len(codes) else None, "mod": mod}
        return SFunc("pyfunc", fn), [], {"client": client, "response": resp}, info

    def parsed_of(ctx):
        v = ctx.value
        if entry == "_build_response":
            return v.fields["parsed"]
        return v

    def decoded(ctx):
        I = ctx.I
        info = ctx.inputs
        if ctx.kind != "return":
            return True
        v = parsed_of(ctx)
        if not info["documented"]:
            # undocumented status and the client is not configured to raise: no parsed value
            return v is None
        ctype, schema = info["ctype"], info["schema"]
        if ctype is None:
            return v is None
        I.in_clause = True
        try:
            if ctype.startswith("text/"):
                return I.py_eq(v, info["resp"].text)
            if ctype == "application/octet-stream":
                # a File wrapping the raw bytes
                return isinstance(v, SObj) and v.cls.__name__ == "File" and _wraps(v.fields.get("payload"), info["resp"].content)
            # json: re-encoding the decoded value gives the body back, and it has the decoded (rich) type
            return I.py_eq(_encode(I, v), info["json"])
        finally:
            I.in_clause = False

    def undocumented(ctx):
        info = ctx.inputs
        if info["documented"]:
            return ctx.kind == "return"
        flag = info["raise"].t
        if ctx.kind == "raise":
            ok = ctx.value.cls.__name__ == "UnexpectedStatus"
            return z3.And(flag, z3.BoolVal(ok))
        return z3.Not(flag)

    clauses = [
        Clause("decoded-as-documented", decoded, native="result is not None",
               statement="documented status s: the parsed value is the decoding of the body per the documented media type "
                         "(json -> model/list/scalar whose encoding is the body, text -> str, octet-stream -> File of the "
                         "bytes, none -> None); undocumented status without raise flag: None", props=["C04"]),
    ]
    clauses.append(Clause("undocumented-status", undocumented, any_outcome=True, native="result is not None",
                          statement="undocumented status: raises UnexpectedStatus iff client.raise_on_unexpected_status, "
                                    "otherwise returns no parsed value; a documented status never raises", props=["C04"]))
    if entry == "_build_response":
        import http
        clauses[-1].known = ["C04-K1-nonstandard-status-valueerror"]
        clauses[-1].restrict = lambda inputs, I: z3.Or(*[z3.Int("status") == m.value for m in http.HTTPStatus])
    case = Case(f"{entry}[{version}]", make, clauses, raises=(Exception,), props=["C04"],
                pool=(lambda: [{"version": version, "opid": opid}]) if opid == "op_resp" else None,
                native_target="pyvc.fragnative:parse_response_violation")
    return FnContract(f"{pkg.name}.api.r.{opid}:{entry}", [case])


def fragments_copy(v):
    from contracts.models_f import _copy_value
    return _copy_value(v)


def _wraps(payload, content):
    return isinstance(payload, SObj) and payload.cls.__name__ == "BytesIO" and payload.fields.get("initial") is content


def _encode(I, v):
    """spec-side encoder of a decoded value: models via their to_dict, lists element-wise, scalars as they are"""
    if isinstance(v, SObj) and hasattr(v.cls, "to_dict"):
        return I.call(I.get_attr(v, "to_dict"), [], {})
    if isinstance(v, SList) and not isinstance(v, STuple):
        return SList([_encode(I, x) for x in v.items])
    if isinstance(v, SSeq):
        return SSeq(v.base, v.dom, v.maps + [lambda e: _encode(I, e)])
    if isinstance(v, SObj) and "__of__" in v.fields:
        return I.call(I.get_attr(v, "isoformat"), [], {})
    return v
