"""Engine A contracts on template macros (C05): what a macro of the real templates can emit, for all parameter values."""
import time

from pyvc import jinja_a
from pyvc.automata import Lang
from pyvc.core import Obligation, PROVED, REFUTED, UNDECIDED
from pyvc.strabs import OutOfReach
from pyvc.vocab import Spec


def docstring_token_lang():
    """exactly one (optionally raw) triple-double-quoted string token, optionally surrounded by whitespace"""
    S = Spec.get()
    A = S.A
    ws = Lang.over(A.chars(" \n"))
    q3 = Lang.text('"""')
    bs = A.chars("\\")
    dq = A.chars('"')
    # non-raw body: no backslash except as \" or \\ (anything else would be an escape sequence changing the text)
    plain = Lang.sym(S.ALLC - bs)
    esc = Lang.text('\\"') | Lang.text("\\\\")
    nonraw_body = (plain | esc).star() & S.DOC_BODY
    raw_body = S.DOC_BODY
    tok = (q3 + nonraw_body + q3) | (Lang.text('r"""') + raw_body + q3)
    return ws + tok + ws


def safe_docstring_obligations(rep, prop="C05"):
    S = Spec.get()
    out = []
    for label, content, allow_empty in (("any-content", S.SIGMA, True),):
        t0 = time.time()
        ob = Obligation(id=f"{prop}.A.helpers.jinja/safe_docstring.single-docstring-token[{label}]", props=[prop, "C01"],
                        unit="openapi_python_client/templates/helpers.jinja: macro safe_docstring",
                        backend="automata (jinja AST over regular languages)",
                        formula="for every content string (any characters, any length): the macro emits nothing or exactly "
                                "one well-formed (raw) \"\"\"-string token whose body cannot end the literal early and, when "
                                "not raw, contains no escape sequence other than \\\" and \\\\")
        try:
            L, m, path, notes = jinja_a.macro_output_lang("helpers.jinja", "safe_docstring", {"content": content})
            import os
            from pyvc.core import REPO
            ob.where = f"{os.path.relpath(path, REPO)}:{m.lineno}"
            import hashlib
            rep.fuc("template-macro:helpers.jinja/safe_docstring", ob.where,
                    hashlib.sha256(open(path, "rb").read()).hexdigest()[:16])
            want = docstring_token_lang() | Lang.over(S.A.chars(" \n"))
            bad = L - want
            if bad.is_empty():
                ob.status = PROVED
                ob.detail = f"output language (DFA with {L.size()} states) is included; unrefined tests: {notes}"
            else:
                w = bad.witness()
                ob.status = REFUTED
                ob.detail = f"the macro may emit {S.A.concretise(w)!r}, which is not a single docstring token"
                ob._bad = bad
                # native replay: render the real macro with a content derived from the witness
                ob.witness = _find_content(bad)
        except OutOfReach as e:
            ob.status, ob.detail = UNDECIDED, f"out of reach: {e}"
        ob.time_s = time.time() - t0
        out.append(rep.add(ob))
    return out


RENDER = (
    "import jinja2, tokenize, io, os\n"
    "from openapi_python_client import __file__ as f\n"
    "env = jinja2.Environment(loader=jinja2.FileSystemLoader(os.path.join(os.path.dirname(f), 'templates')), trim_blocks=True, lstrip_blocks=True, extensions=['jinja2.ext.loopcontrols'], keep_trailing_newline=True)\n"
    "def TARGET_OBJ(content):\n"
    "    out = env.get_template('helpers.jinja').module.safe_docstring(content)\n"
    "    src = 'x = ' + str(out).strip() + '\\n'\n"
    "    try:\n"
    "        toks = [t for t in tokenize.generate_tokens(io.StringIO(src).readline) if t.type == tokenize.STRING]\n"
    "        import ast\n"
    "        tree = ast.parse(src)\n"
    "        ok = len(tree.body) == 1 and isinstance(tree.body[0].value, ast.Constant)\n"
    "        return None if ok else 'emitted text is not a single string literal: ' + src[:120]\n"
    "    except (SyntaxError, tokenize.TokenError, IndentationError) as e:\n"
    "        return f'emitted text does not tokenize: {e}: ' + src[:120]\n")


def _find_content(bad):
    """candidates for the macro argument from the abstract output counterexample: the classic payloads"""
    from pyvc.core import run_native
    cands = ['"""', 'a"""b', '\\"""', '""""', 'x"', '"', '\\', 'a\\', '""', '"""\nimport os\n"""', 'r"""', "'''", '\\\\"""']
    for c in cands:
        spec = {"kind": "call", "qualname": "builtins:len", "setup": RENDER, "args": [], "kwargs": {"content": c},
                "violates": "result is not None"}
        r = run_native(spec)
        if r.get("violates"):
            return spec
    return None
