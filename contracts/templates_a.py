"""Engine A contracts on template macros (C05): what a macro of the real templates can emit, for all parameter values."""
import time

from pyvc import jinja_a
from pyvc.automata import Lang
from pyvc.core import Obligation, PROVED, REFUTED, UNDECIDED
from pyvc.strabs import OutOfReach
from pyvc.vocab import Spec


def docstring_token_lang():
    """exactly one (optionally raw) triple-double-quoted string token, optionally surrounded by whitespace"""
    S = Spec.get()
    A = S.A
    ws = Lang.over(A.chars(" \n"))
    q3 = Lang.text('"""')
    bs = A.chars("\\")
    dq = A.chars('"')
    # non-raw body: no backslash except as \" or \\ (anything else would be an escape sequence changing the text)
    plain = Lang.sym(S.ALLC - bs)
    esc = Lang.text('\\"') | Lang.text("\\\\")
    nonraw_body = (plain | esc).star() & S.DOC_BODY
    raw_body = S.DOC_BODY
    tok = (q3 + nonraw_body + q3) | (Lang.text('r"""') + raw_body + q3)
    return ws + tok + ws


def safe_docstring_obligations(rep, prop="C05"):
    S = Spec.get()
    out = []
    for label, content, allow_empty in (("any-content", S.SIGMA, True),):
        t0 = time.time()
        ob = Obligation(id=f"{prop}.A.helpers.jinja/safe_docstring.single-docstring-token[{label}]", props=[prop, "C01"],
                        unit="openapi_python_client/templates/helpers.jinja: macro safe_docstring",
                        backend="automata (jinja AST over regular languages)",
                        formula="for every content string (any characters, any length): the macro emits nothing or exactly "
                                "one well-formed (raw) \"\"\"-string token whose body cannot end the literal early and, when "
                                "not raw, contains no escape sequence other than \\\" and \\\\")
        try:
            L, m, path, notes = jinja_a.macro_output_lang("helpers.jinja", "safe_docstring", {"content": content})
            import os
            from pyvc.core import REPO
            ob.where = f"{os.path.relpath(path, REPO)}:{m.lineno}"
            import hashlib
            rep.fuc("template-macro:helpers.jinja/safe_docstring", ob.where,
                    hashlib.sha256(open(path, "rb").read()).hexdigest()[:16])
            want = docstring_token_lang() | Lang.over(S.A.chars(" \n"))
            bad = L - want
            if bad.is_empty():
                ob.status = PROVED
                ob.detail = f"output language (DFA with {L.size()} states) is included; unrefined tests: {notes}"
            else:
                w = bad.witness()
                ob.status = REFUTED
                ob.detail = f"the macro may emit {S.A.concretise(w)!r}, which is not a single docstring token"
                ob._bad = bad
                # native replay: render the real macro with a content derived from the witness
                ob.witness = _find_content(bad)
        except OutOfReach as e:
            ob.status, ob.detail = UNDECIDED, f"out of reach: {e}"
        ob.time_s = time.time() - t0
        out.append(rep.add(ob))
    return out


RENDER = (
    "import jinja2, tokenize, io, os\n"
    "from openapi_python_client import __file__ as f\n"
    "env = jinja2.Environment(loader=jinja2.FileSystemLoader(os.path.join(os.path.dirname(f), 'templates')), trim_blocks=True, lstrip_blocks=True, extensions=['jinja2.ext.loopcontrols'], keep_trailing_newline=True)\n"
    "def TARGET_OBJ(content):\n"
    "    out = env.get_template('helpers.jinja').module.safe_docstring(content)\n"
    "    src = 'x = ' + str(out).strip() + '\\n'\n"
    "    try:\n"
    "        toks = [t for t in tokenize.generate_tokens(io.StringIO(src).readline) if t.type == tokenize.STRING]\n"
    "        import ast\n"
    "        tree = ast.parse(src)\n"
    "        ok = len(tree.body) == 1 and isinstance(tree.body[0].value, ast.Constant)\n"
    "        return None if ok else 'emitted text is not a single string literal: ' + src[:120]\n"
    "    except (SyntaxError, tokenize.TokenError, IndentationError) as e:\n"
    "        return f'emitted text does not tokenize: {e}: ' + src[:120]\n")


def _find_content(bad):
    """candidates for the macro argument from the abstract output counterexample: the classic payloads"""
    from pyvc.core import run_native
    cands = ['"""', 'a"""b', '\\"""', '""""', 'x"', '"', '\\', 'a\\', '""', '"""\nimport os\n"""', 'r"""', "'''", '\\\\"""']
    for c in cands:
        spec = {"kind": "call", "qualname": "builtins:len", "setup": RENDER, "args": [], "kwargs": {"content": c},
                "violates": "result is not None"}
        r = run_native(spec)
        if r.get("violates"):
            return spec
    return None


# ---- hand-written docstrings must not interpolate -------------------------------------------------------------------------
# C05 discharges every (slot, docstring) pair by the macro contract of safe_docstring.  That is only sound if every
# docstring that carries an interpolation IS produced by the macro: a `{{ ... }}` written between hand-written triple quotes
# bypasses it.  Static obligation over the real template sources (jinja2's own lexer): while the literal template text is
# inside a triple-quoted string, no variable block may start -- except inside the body of the macro itself and except the
# allow-listed expressions whose value is a template constant (not document text).
# client.py.jinja is rendered without any document data (Project._create_package: `client_template.render()`): `attr` iterates a
# literal table written in the template, the two macros are defined in the template and called with literals
DOCSTRING_ALLOW = {("client.py.jinja", "attr.docstring"), ("client.py.jinja", "httpx_args_docstring()"),
                   ("client.py.jinja", 'attr_in_class_docstring("raise_on_unexpected_status")|wordwrap(101)|indent(12)'),
                   ("client.py.jinja", 'attr_in_class_docstring("token")|indent(8)'),
                   ("client.py.jinja", 'attr_in_class_docstring("prefix")|indent(8)'),
                   ("client.py.jinja", 'attr_in_class_docstring("auth_header_name")|indent(8)')}


def handwritten_docstring_sites():
    import os
    import jinja2
    from pyvc.core import REPO
    root = os.path.join(REPO, "openapi_python_client", "templates")
    env = jinja2.Environment(trim_blocks=True, lstrip_blocks=True, extensions=["jinja2.ext.loopcontrols"], keep_trailing_newline=True)
    sites, nfiles = [], 0
    for dp, _, fs in sorted(os.walk(root)):
        for f in sorted(fs):
            if not f.endswith(".jinja") or f.endswith(".md.jinja") or f in ("README.md.jinja", ".gitignore.jinja"):
                continue
            if not (f.endswith(".py.jinja") or f.endswith("helpers.jinja") or f.endswith("macros.py.jinja") or f.endswith(".jinja")):
                continue
            rel = os.path.relpath(os.path.join(dp, f), root)
            if not (rel.endswith(".py.jinja") or rel.endswith("helpers.jinja")):
                continue                                   # toml / markdown / gitignore templates have no python strings
            src = open(os.path.join(dp, f), encoding="utf-8").read()
            nfiles += 1
            in_doc = None          # None | '"""' | "'''"
            in_macro = []          # stack of macro names
            toks = list(env.lex(src))
            i = 0
            while i < len(toks):
                ln, kind, val = toks[i]
                if kind == "data":
                    j = 0
                    while j < len(val):
                        if in_doc is None:
                            if val.startswith('"""', j) or val.startswith("'''", j):
                                in_doc = val[j:j + 3]
                                j += 3
                                continue
                            if val[j] == "#":              # python comment: runs to the end of the line
                                k = val.find("\n", j)
                                j = len(val) if k == -1 else k
                                continue
                        else:
                            if val[j] == "\\":
                                j += 2
                                continue
                            if val.startswith(in_doc, j):
                                in_doc = None
                                j += 3
                                continue
                        j += 1
                elif kind == "block_begin":
                    names = [t for t in toks[i + 1:i + 6] if t[1] == "name"]
                    if names and names[0][2] == "macro" and len(names) > 1:
                        in_macro.append(names[1][2])
                    elif names and names[0][2] == "endmacro" and in_macro:
                        in_macro.pop()
                elif kind == "variable_begin":
                    expr = []
                    k = i + 1
                    while k < len(toks) and toks[k][1] != "variable_end":
                        if toks[k][1] != "whitespace":
                            expr.append(toks[k][2])
                        k += 1
                    text = "".join(expr)
                    if in_doc is not None and not (rel.endswith("helpers.jinja") and in_macro and in_macro[-1] == "safe_docstring"):
                        sites.append((rel, ln, text))
                i += 1
    return sites, nfiles


def handwritten_docstring_obligation(rep, prop="C05"):
    t0 = time.time()
    ob = Obligation(id=f"{prop}.C.templates.no-interpolation-in-handwritten-docstrings", props=[prop, "C01"],
                    unit="openapi_python_client/templates/**/*.py.jinja, helpers.jinja (jinja2 lexer)", backend="syntactic (jinja2 lexer + triple-quote scanner)",
                    formula="no `{{ ... }}` starts while the literal template text is inside a triple-quoted string, except in the "
                            "body of safe_docstring and for allow-listed template constants: every docstring that carries document "
                            "text is the output of the macro the docstring contexts of C05 are discharged by")
    try:
        sites, n = handwritten_docstring_sites()
        bad = [(f, ln, e) for f, ln, e in sites if (f.split("/")[-1], e) not in DOCSTRING_ALLOW]
        if n == 0:
            ob.status, ob.detail = UNDECIDED, "no template files found"
        elif bad:
            ob.status = REFUTED
            ob.detail = "interpolation inside a hand-written triple-quoted string: " + "; ".join(f"{f}:{ln} {{{{ {e} }}}}" for f, ln, e in bad[:5])
        else:
            ob.status, ob.detail = PROVED, f"{n} template files scanned; allow-listed constant sites met: {len(sites)}"
    except Exception as e:      # noqa: BLE001
        ob.status, ob.detail = UNDECIDED, f"scanner failed: {type(e).__name__}: {e}"
    ob.time_s = time.time() - t0
    return rep.add(ob)


# ---- union decoders: a member that does not fit must fall through to the next member, whatever it raised -------------------
def union_fallthrough_obligation(rep, prop="C14"):
    """In the union decoder every member but the last is tried inside `try: ... except ...: pass`.  The check a member's
    decoder performs may raise anything (TypeError / ValueError / KeyError by design; AttributeError, NameError ... from the
    member's own code), so the handler must catch every Exception: syntactic obligation on the real template text."""
    import os
    import re
    from pyvc.core import REPO
    t0 = time.time()
    path = os.path.join(REPO, "openapi_python_client", "templates", "property_templates", "union_property.py.jinja")
    ob = Obligation(id=f"{prop}.C.templates.union-member-attempt-catches-everything", props=[prop, "C02"],
                    unit="openapi_python_client/templates/property_templates/union_property.py.jinja: macro construct",
                    where="openapi_python_client/templates/property_templates/union_property.py.jinja",
                    backend="syntactic (template text)",
                    formula="every `except` the union decoder template writes is bare or catches Exception / BaseException, and "
                            "there is at least one: a value that is not of an earlier member's type reaches the later members")
    try:
        src = open(path, encoding="utf-8").read()
        handlers = re.findall(r"^[ \t]*except\b([^:\n]*):", src, re.M)
        narrow = [h.strip() for h in handlers if h.strip() not in ("", "Exception", "BaseException")
                  and not re.fullmatch(r"(Exception|BaseException)\s+as\s+\w+", h.strip())]
        if not handlers:
            ob.status, ob.detail = REFUTED, "the union decoder template has no try/except around member attempts any more"
        elif narrow:
            ob.status, ob.detail = REFUTED, f"member attempts only catch {narrow}: any other exception of a member's decoder aborts the union"
        else:
            ob.status, ob.detail = PROVED, f"{len(handlers)} handler(s), all catch-all"
    except OSError as e:
        ob.status, ob.detail = UNDECIDED, f"template not readable: {e}"
    ob.time_s = time.time() - t0
    return rep.add(ob)
