"""Contract of bodies._resolve_reference (C06 termination / no exception on reference chains, C08, C20): Engine B with an
inductive invariant for the `while` loop, for a table of request bodies of ANY size and ANY chain length.

`request_bodies` is a map of unknown content (LazyMap: each looked-up name forks into absent / a Reference with some
ref / an inline RequestBody); `references_seen` is a list of unknown length (SymList).  Ghost set F = the references
followed so far (updated where the code asks for the simple name of the reference it follows).
Invariant:   F subseteq references_seen   and   (body is None  =>  references_seen is non-empty)
Termination obligation (checked at every follow):  the reference being followed is not in F -- no reference is followed
twice, and the references that can be followed are the argument's and those stored in the (finite) table, so the loop
ends after at most |table| + 1 iterations.
Clauses: argument None => None;  otherwise the result is a ParseError or an inline RequestBody, never a Reference and
never None;  no exception."""
from __future__ import annotations

import z3

from pyvc.absdata import LazyMap, SymList
from pyvc.engine_b import Case, Clause, FnContract
from pyvc.symexec import LoopSpec, SFunc, SObj, SStr

Q = "openapi_python_client.parser.bodies:_resolve_reference"


def resolve_contract():
    def make(I, arg_kind):
        from openapi_python_client.parser import bodies as B
        from openapi_python_client import schema as oai
        S = z3.StringSort()
        W = type("W", (), {})()
        W.F = z3.EmptySet(S)
        simple = z3.Function("reference_simple_name", S, S)

        def ref_obj(tag):
            return SObj(oai.Reference, {"ref": SStr(I.fresh(f"ref_{tag}", S))})

        def body_obj(tag):
            return SObj(oai.RequestBody, {"content": None, "description": tag, "required": False})

        def simple_name(I2, a, k):
            t = I2.to_str_term(a[0] if a else k["ref_path"])
            I2._loop_check("termination: a reference is followed at most once", z3.Not(z3.IsMember(t, W.F)))
            W.F = z3.SetAdd(W.F, t)
            return SStr(simple(t))
        I.contracts["openapi_python_client.parser.properties.schemas:get_reference_simple_name"] = simple_name
        I.contracts["openapi_python_client.parser.bodies:get_reference_simple_name"] = simple_name
        table = LazyMap("request_bodies", lambda I2, k: ref_obj("table") if I2.branch_free() else body_obj("table"))
        seen = SymList("references_seen")
        I.empty_list_hook = lambda: seen
        arg = {"none": None, "reference": ref_obj("arg"), "inline": body_obj("arg")}[arg_kind]

        def inv(I2, loc, _):
            b, rs = loc["body"], seen               # `seen` is the list the function creates, whatever it is called
            parts = [z3.IsSubset(W.F, rs.members)]
            if b is None:
                parts.append(rs.nonempty)
            return z3.And(*parts)

        def havoc_body(I2):
            if I2.branch_free():
                return None
            return ref_obj("loop") if I2.branch_free() else body_obj("loop")

        def havoc_ghost(I2):
            W.F = I2.fresh("followed", z3.SetSort(S))
            return None
        I.loop_specs[(Q, 0)] = LoopSpec(inv, {"body": havoc_body, "__ghost__": havoc_ghost})
        return SFunc("pyfunc", B._resolve_reference), [arg, table], {}, {"arg": arg}

    def kind(ctx):
        v, arg = ctx.value, ctx.inputs["arg"]
        if arg is None:
            return v is None
        if not isinstance(v, SObj):
            return False
        return v.cls.__name__ in ("ParseError", "RequestBody")

    clauses = [Clause("resolves-or-diagnoses", kind,
                      statement="argument None => None; otherwise the result is a ParseError or an inline RequestBody (never a "
                                "Reference, never None); every reference is followed at most once (termination)")]
    return FnContract(Q, [Case(f"argument-{k}", (lambda I, k=k: make(I, k)), clauses, raises=(), props=["C06", "C08", "C20", "C07"])
                          for k in ("none", "reference", "inline")])
