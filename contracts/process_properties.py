"""`_process_properties` on a composition (C15: "a model composed with allOf accepts and emits every property of every member
schema, a property is mandatory if any member requires it"; C08 / C12: composing a model never changes the models it is
composed OF).  Fixed shape, symbolic content:

    data.properties = {own: schema}                      data.required  subset of {own, inl, par_opt}   (every subset)
    data.allOf      = [ $ref Parent ,  {properties: {inl: schema} | none | {}, required subset of {inl, own}} ]   (both member orders)
    Parent          = a processed ModelProperty with one required property par_req and one optional property par_opt
                      (real StringProperty records with symbolic python names, pairwise different)

The real function runs with its real closure `_add_if_no_conflict` (contract of its own: add_property.py) and the real
`merge_properties`; `property_from_data` enters by a summary that builds the property it is asked for (name, required as
given) and hands the Schemas through; `parse_reference_path` by its contract.

  every-member-property-present   the result lists exactly the four properties (each once), split by their `required`
  own-required-iff-some-member    an own / inline-member property is required iff the composed schema or the inline member lists it
  referenced-model-untouched      the Parent's property records are the very objects they were, with every field unchanged
                                  (whatever the required lists say about an inherited name): composing never edits the parent
  inherited-kept-as-declared      the inherited properties in the result are the parent's records themselves
"""
from __future__ import annotations

import z3

from pyvc.engine_b import Case, Clause, FnContract
from pyvc.symexec import SBool, SDict, SFunc, SList, SObj, SOpaque, SSet, SStr, STuple

P = "openapi_python_client.parser.properties"
Q = f"{P}.model_property:_process_properties"
REF = "/components/schemas/Parent"


def composition_contract():
    def make(I):
        from openapi_python_client.parser.properties import model_property as MP
        from openapi_python_client.parser.properties.string import StringProperty
        from openapi_python_client.parser.properties.schemas import Schemas
        from openapi_python_client import schema as oai
        S = z3.StringSort()

        def prop(name, required):
            return SObj(StringProperty, {"name": name, "required": required, "default": None,
                                         "python_name": name.replace("-", "_"), "description": None, "example": None})
        par_req, par_opt = prop("par-req", True), prop("par-opt", False)
        snapshot = {id(p): dict(p.fields) for p in (par_req, par_opt)}
        parent = SObj(MP.ModelProperty, {"name": "Parent", "required": True, "default": None, "python_name": "parent",
                                         "description": "", "example": None, "class_info": SOpaque("Parent class"),
                                         "data": SOpaque("Parent data"), "roots": SSet({REF}),
                                         "required_properties": SList([par_req]), "optional_properties": SList([par_opt]),
                                         "relative_imports": SSet(), "lazy_imports": SSet(), "additional_properties": None})
        deps = []
        schemas = SObj(Schemas, {"classes_by_reference": SDict({REF: parent}), "dependencies": SDict({}),
                                 "classes_by_name": SDict({}), "models_to_process": SList(), "errors": SList()})
        I.contracts[f"{P}.schemas:Schemas.add_dependencies"] = lambda I2, a, k: deps.append((a, k))
        I.contracts[f"{P}.schemas:parse_reference_path"] = lambda I2, a, k: REF
        built = {}

        def pfd(I2, a, k):
            name = k["name"]
            p = SObj(StringProperty, {"name": name, "required": k["required"], "default": None,
                                      "python_name": str(name).replace("-", "_"), "description": None, "example": None})
            built[str(name)] = (p, k)
            return STuple([p, k["schemas"]])
        I.contracts[f"{P}:property_from_data"] = pfd
        for m in ("get_imports", "get_lazy_imports"):
            for cls in (StringProperty,):
                fn = getattr(cls, m)
                I.contracts[f"{fn.__module__}:{fn.__qualname__}"] = lambda I2, a, k: SSet()

        def subset(names):
            return [n for n in names if I.branch_free()]
        top_required = subset(["own", "inl", "par-opt"])
        inl_required = subset(["inl", "own"])
        ref_member = SObj(oai.Reference, {"ref": "#" + REF})
        # the inline member may also be a bare `required` list (no properties of its own)
        inl_has_props = bool(I.branch_free())
        if not inl_has_props:
            inl_required = [n for n in inl_required if n != "inl"]
            top_required = [n for n in top_required if n != "inl"]
        inline_member = SObj(oai.Schema, {"properties": (SDict({"inl": SOpaque("schema of inl")}) if inl_has_props else
                                                         (None if I.branch_free() else SDict({}))),
                                          "required": SList(inl_required) if inl_required or I.branch_free() else None,
                                          "allOf": SList()})
        members = [ref_member, inline_member] if I.branch_free() else [inline_member, ref_member]
        data = SObj(oai.Schema, {"properties": SDict({"own": SOpaque("schema of own")}),
                                 "required": SList(top_required) if top_required or I.branch_free() else None,
                                 "allOf": SList(members)})
        kw = dict(data=data, schemas=schemas, class_name="Child", config=SOpaque("config", attrs={"field_prefix": "field_"}),
                  roots=SSet({"/components/schemas/Child"}))
        return SFunc("pyfunc", MP._process_properties), [], kw, {
            "par": (par_req, par_opt), "snapshot": snapshot, "built": built, "top": top_required, "inl": inl_required,
            "parent": parent, "deps": deps, "inl_has_props": inl_has_props}

    def _props(ctx):
        v = ctx.value
        get = (lambda n: v.fields[n]) if isinstance(v, SObj) else (lambda n: v.attrs[n] if hasattr(v, "attrs") else getattr(v, n))
        try:
            req, opt = get("required_props"), get("optional_props")
        except (KeyError, AttributeError):
            return None
        return list(req.items), list(opt.items)

    def present(ctx):
        i = ctx.inputs
        if isinstance(ctx.value, SObj) and ctx.value.cls.__name__ == "PropertyError":
            return False                      # nothing in this composition is contradictory
        ro = _props(ctx)
        if ro is None:
            return False
        req, opt = ro
        names = sorted(str(p.fields["name"]) for p in req + opt)
        if names != (["inl"] if i["inl_has_props"] else []) + ["own", "par-opt", "par-req"]:
            return False
        return all(p.fields["required"] is True for p in req) and all(p.fields["required"] is False for p in opt)

    def own_required(ctx):
        i = ctx.inputs
        ro = _props(ctx)
        if ro is None:
            return False
        req, opt = ro
        for n in ("own", "inl") if i["inl_has_props"] else ("own",):
            want = n in i["top"] or n in i["inl"]
            got = any(str(p.fields["name"]) == n for p in req)
            if want != got:
                return False
        return True

    def untouched(ctx):
        i = ctx.inputs
        for p in i["par"]:
            snap = i["snapshot"][id(p)]
            if set(p.fields) != set(snap) or any(p.fields[k] is not snap[k] and p.fields[k] != snap[k] for k in snap):
                return False
        lists_ok = [x for x in i["parent"].fields["required_properties"].items] == [i["par"][0]] and \
            [x for x in i["parent"].fields["optional_properties"].items] == [i["par"][1]]
        return lists_ok

    def inherited(ctx):
        i = ctx.inputs
        ro = _props(ctx)
        if ro is None:
            return False
        req, opt = ro
        return any(p is i["par"][0] for p in req + opt) and any(p is i["par"][1] for p in req + opt) and len(i["deps"]) == 1

    clauses = [
        Clause("every-member-property-present", present,
               statement="the composed model has exactly the properties of its members (own, inline member, both inherited ones), "
                         "each once, listed as required / optional according to their own flag", props=["C15", "C07"]),
        Clause("own-required-iff-some-member", own_required,
               statement="a property declared by the composed schema or an inline member is required iff the composed schema or "
                         "the inline member lists it in `required` (whatever the member order)", props=["C15", "C10"]),
        Clause("referenced-model-untouched", untouched,
               statement="the property records of the referenced model keep every field (and the model its two lists), whatever "
                         "the `required` lists of the composition say about an inherited name", props=["C15", "C08", "C12"]),
        Clause("inherited-kept-as-declared", inherited,
               statement="the inherited properties of the result are the parent's own records; the dependency on the parent is "
                         "recorded once", props=["C15", "C08"]),
    ]
    return FnContract(Q, [Case("reference-member+inline-member+own-properties", make, clauses, raises=(), props=["C15", "C08", "C10"])])
