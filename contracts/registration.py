"""Contracts for the registration of generated classes in Schemas.classes_by_name (C09 "the set of model classes and
modules: different document items never silently map to the same Python name"; C07/C12 one artefact per name).

  ModelProperty.build   properties/model_property.py
  EnumProperty.build    properties/enum_property.py
  LiteralEnumProperty.build   properties/literal_enum_property.py

The class table is a map of unknown content (LazyMap: lookups of the derived class name fork into present / absent);
for ModelProperty.build the table the function must consult is the one RETURNED by property processing (nested inline
schemas register their classes there), which the callee summary of `_process_property_data` makes an independent unknown
map.  Clause `never-overwrites`: if a property is returned, the returned table is the consulted table plus exactly one
new entry, whose key was absent before (ModelProperty) or held an enum with the same members (EnumProperty: the same
inline enum met twice is deliberately shared); every other entry is unchanged.
"""
from __future__ import annotations

import z3

from pyvc.absdata import LazyMap
from pyvc.engine_b import Case, Clause, FnContract
from pyvc.symexec import SBool, SFunc, SList, SObj, SOpaque, SSet, SStr, STuple, SV, Unsupported

P = "openapi_python_client.parser.properties"


def _schemas(I, tag, existing_factory):
    from openapi_python_client.parser.properties.schemas import Schemas
    cbn = LazyMap(f"classes_by_name[{tag}]", existing_factory)
    deps = LazyMap(f"dependencies[{tag}]", lambda I2, k: SOpaque("deps"))
    return SObj(Schemas, {"classes_by_reference": SOpaque("cbr"), "dependencies": deps, "classes_by_name": cbn,
                          "models_to_process": SList(), "errors": SList()}), cbn


def _class_summary(I):
    from openapi_python_client.parser.properties.schemas import Class
    cname = SStr(I.fresh("class_name", z3.StringSort()))
    info = SObj(Class, {"name": cname, "module_name": SStr(I.fresh("module_name", z3.StringSort()))})
    I.contracts[f"{P}.schemas:Class.from_string"] = lambda I2, a, k: info
    asked = []

    def module_name_taken(I2, a, k):
        # callee summary (its own inductive contract: module_name_taken_contract): the answer is an unknown boolean; the
        # caller's clause needs to know on which table and for which class it was asked and what it answered
        me = k.get("self", a[0] if a else None)
        ci = a[1] if len(a) > 1 else (k.get("class_info") if "class_info" in k else (a[0] if a and a[0] is not me else None))
        ans = bool(I2.branch_free())
        asked.append((me.fields.get("classes_by_name") if isinstance(me, SObj) else None, ci, ans))
        return ans
    I.contracts[f"{P}.schemas:Schemas.module_name_taken"] = module_name_taken
    info.module_asked = asked
    pc = z3.Function("pascal_case", z3.StringSort(), z3.StringSort())       # deterministic (triple: Engine A)
    I.contracts["openapi_python_client.utils:pascal_case"] = lambda I2, a, k: SStr(pc(I2.to_str_term(a[0] if a else k["value"])))
    return info, cname


def _table_clause(get_final, get_consulted, allow_same_enum):
    def clause(ctx):
        I = ctx.I
        res, schemas2 = ctx.value.items
        if not (isinstance(res, SObj) and res.cls.__name__ in ("ModelProperty", "EnumProperty", "LiteralEnumProperty")):
            return True                      # diagnostics and the null-only / nullable forwarding shapes register nothing here
        final = schemas2.fields["classes_by_name"]
        consulted = get_consulted(ctx)
        cname = ctx.inputs["cname"]
        if not isinstance(final, LazyMap):
            return False
        # the entry under the class name is the returned property
        mine = [v for k, v in final.entries if v is res]
        if len(mine) != 1:
            return False
        # consulted table: the name must have been looked up and found absent (or, for enums, found with equal members)
        kt = cname.t
        absent_known = any(I.must(I.to_str_term(a) == kt) for a in consulted.absent)
        if absent_known:
            ok_before = True
        else:
            present = [(k, v) for k, v in consulted.entries if I.must(I.to_str_term(k) == kt)]
            if not present:
                return False                 # the table was never asked about this name: an entry may be overwritten
            ok_before = allow_same_enum and ctx.inputs.get("same_enum") is not None and \
                present[0][1] is ctx.inputs["same_enum"] and ctx.inputs.get("values_equal_taken", lambda: False)()
        if not ok_before:
            return False
        # the module the class is written to: the consulted table was asked whether another class already owns it -- and said no
        asked = ctx.inputs.get("module_asked")
        if asked is not None and not any(t is consulted and ci is ctx.inputs["info"] and ans is False for t, ci, ans in asked):
            return False
        # frame: the final table is a copy of the consulted one (same factory, entries it knew) plus the one store
        if getattr(final, "parent", None) is not consulted:
            return False
        for k, v in consulted.entries:
            if I.must(I.to_str_term(k) == kt):
                continue
            if not any(v2 is v and k2 is k for k2, v2 in final.entries):
                return False
        if [e for e in final.log if e[0] == "del"] or len([e for e in final.log if e[0] == "set"]) != 1:
            return False
        return True
    return clause


def model_build_contract():
    Q = f"{P}.model_property:ModelProperty.build"

    def make(I):
        from openapi_python_client.parser.properties import model_property as MP
        from openapi_python_client.parser.errors import PropertyError
        info, cname = _class_summary(I)
        process = I.branch_free()
        schemas0, cbn0 = _schemas(I, "argument", lambda I2, k: SOpaque("an existing class"))
        schemas1, cbn1 = _schemas(I, "after property processing", lambda I2, k: SOpaque("an existing class"))

        seen_roots = {}

        def ppd(I2, a, k):
            seen_roots["ppd"] = k.get("roots")
            if I2.branch_free():
                return STuple([SObj(PropertyError, {"detail": "d", "level": None, "header": "h", "data": None}), schemas1])
            pdata = SOpaque("property_data", attrs={"required_props": SList(), "optional_props": SList(),
                                                     "relative_imports": SSet(), "lazy_imports": SSet()})
            return STuple([STuple([pdata, None]), schemas1])
        I.contracts[f"{P}.model_property:_process_property_data"] = ppd
        I.contracts[f"{P}.schemas:Schemas.add_dependencies"] = lambda I2, a, k: None
        has_title = I.branch_free()
        has_parent = I.branch_free()
        data = SOpaque("data", attrs={"title": SStr(z3.Const("title", z3.StringSort())) if has_title else None,
                                       "description": None, "example": None})
        config = SOpaque("config", attrs={"use_path_prefixes_for_title_model_names":
                                          SBool(z3.Const("use_path_prefixes", z3.BoolSort())), "field_prefix": "field_"})
        kw = dict(data=data, name=SStr(z3.Const("name", z3.StringSort())), schemas=schemas0,
                  required=SBool(z3.Const("required", z3.BoolSort())),
                  parent_name=SStr(z3.Const("parent_name", z3.StringSort())) if has_parent else None,
                  config=config, process_properties=process, roots=None)
        from openapi_python_client import utils as _u
        caller_roots = SSet({"/components/schemas/Referrer", _u.ClassName("Outer", "")})
        kw["roots"] = caller_roots
        return SFunc("pyfunc", MP.ModelProperty.build.__func__, self_val=MP.ModelProperty), [], kw, \
            {"cname": cname, "consulted": cbn1 if process else cbn0, "process": process, "caller_roots": caller_roots,
             "seen_roots": seen_roots, "info": info, "module_asked": info.module_asked}

    def _covers(I, rootset, caller, cname):
        """does the set value contain every caller root (reference paths AND class names) and the model's class name?"""
        from pyvc.absdata import GrowSet
        have, name_in = set(), False
        if isinstance(rootset, SSet):
            have = set(rootset.items)
        elif isinstance(rootset, GrowSet):
            for kind, x in rootset.added:
                if kind == "update":
                    items = x.items if isinstance(x, (SSet, SList)) else []
                    have |= set(items)
                else:
                    if isinstance(x, SStr) and I.must(x.t == cname.t):
                        name_in = True
                    elif isinstance(x, str):
                        have.add(x)
        else:
            return False
        return name_in and all(r in have for r in caller.items)

    def roots_clause(ctx):
        i = ctx.inputs
        res = ctx.value.items[0]
        ok = True
        if i["process"]:
            ok = _covers(ctx.I, i["seen_roots"].get("ppd"), i["caller_roots"], i["cname"])
        if isinstance(res, SObj) and res.cls.__name__ == "ModelProperty":
            ok = ok and _covers(ctx.I, res.fields.get("roots"), i["caller_roots"], i["cname"])
        return ok

    clauses = [Clause("roots-inherited", roots_clause,
                      statement="the roots handed to property processing and stored in the model are the caller's roots -- reference "
                                "paths and class names alike -- plus the model's own class name (so that removing any ancestor "
                                "removes this model)", props=["C08", "C01"]),
               Clause("never-overwrites", _table_clause(None, lambda ctx: ctx.inputs["consulted"], False),
                      statement="a returned ModelProperty is registered under a class name that was absent from the table "
                                "returned by property processing (nested inline schemas included); every other entry of "
                                "that table is kept")]
    return FnContract(Q, [Case("registration", make, clauses, raises=(), props=["C09", "C07", "C12", "C08", "C01"])])


class _Values(SOpaque):
    """the member table of an enum as an abstract value; equality with another table is one symbolic boolean"""

    def __init__(self, name, eq_term=None):
        super().__init__(name, cls=dict)
        self.eq_term = eq_term

    def opaque_eq(self, I, other):
        t = self.eq_term if self.eq_term is not None else getattr(other, "eq_term", None)
        return t if t is not None else False

    def as_absset(self):
        return _View(self, "keys-as-set")        # set(<dict>) is the set of its keys (member names)

    def getattr(self, I, name):
        if name in ("values", "keys", "items"):
            # a coarser view of the table (its values / names only): equal tables have equal views, not conversely
            return SFunc("model", lambda I2, a, k: _View(self, name))
        raise Unsupported(f"{name} of an abstract member table")


class _View(SOpaque):
    def __init__(self, table, which):
        super().__init__(f"{table.name}.{which}()", cls=object)
        self.table, self.which = table, which

    def as_absset(self):
        return _View(self.table, self.which + "-as-set")

    def opaque_eq(self, I, other):
        if not isinstance(other, _View) or other.which != self.which:
            return False
        full = self.table.eq_term if self.table.eq_term is not None else other.table.eq_term
        coarse = z3.Bool(f"members_equal_as_{self.which}")
        if full is not None:
            I.fact(z3.Implies(full, coarse))
        return coarse


def enum_build_contract(literal=False):
    Q = f"{P}.literal_enum_property:LiteralEnumProperty.build" if literal else f"{P}.enum_property:EnumProperty.build"

    def make(I):
        if literal:
            from openapi_python_client.parser.properties import literal_enum_property as EP
            klass = EP.LiteralEnumProperty
        else:
            from openapi_python_client.parser.properties import enum_property as EP
            klass = EP.EnumProperty
        info, cname = _class_summary(I)
        same = z3.Const("values_equal", z3.BoolSort())
        values = _Values("values(new)", same)
        I.contracts[f"{P}.enum_property:EnumProperty.values_from_list"] = lambda I2, a, k: values
        holder = {}

        def existing(I2, k):
            if I2.branch_free():
                if literal:
                    # the member set is concrete here ({"a", "b"} new): an equal or a different existing set
                    eq = I2.branch_free()
                    holder["equal"] = eq
                    ev = SSet({"a", "b"} if eq else {"a"})
                else:
                    ev = _Values("values(existing)")
                e = SObj(klass, {"values": ev, "name": "e", "class_info": SOpaque("ci")})
                holder["enum"] = e
                return e
            return SOpaque("an existing class that is not an enum", cls=object)
        schemas0, cbn0 = _schemas(I, "argument", existing)
        has_title = I.branch_free()
        has_parent = I.branch_free()
        n = 1 if I.branch_free() else 2
        enum = SList(["a", "b"]) if literal else SList([SStr(z3.Const(f"value{i}", z3.StringSort())) for i in range(n)])
        # the declared default: absent, or some value; its conversion is the callee's business (contract of convert_value: C13)
        declared = SStr(z3.Const("declared_default", z3.StringSort())) if I.branch_free() else None
        conv = {"calls": []}

        def convert_value(I2, a, k):
            me, v = (a[0], a[1]) if len(a) > 1 else (k.get("self"), a[0] if a else k.get("value"))
            if v is None:
                out = None
            elif I2.branch_free():
                out = SOpaque("Value(converted default)", cls=object)
            else:
                from openapi_python_client.parser.errors import PropertyError
                out = SObj(PropertyError, {"detail": "bad default", "level": None, "header": "", "data": None})
            conv["calls"].append((me, v, out))
            return out
        I.contracts[f"{P}.{'literal_enum_property:LiteralEnumProperty' if literal else 'enum_property:EnumProperty'}.convert_value"] = convert_value
        data = SOpaque("data", attrs={"title": SStr(z3.Const("title", z3.StringSort())) if has_title else None,
                                       "description": None, "example": None, "default": declared, "enum": enum})
        config = SOpaque("config", attrs={"field_prefix": "field_"})
        kw = dict(data=data, name=SStr(z3.Const("name", z3.StringSort())), schemas=schemas0,
                  required=SBool(z3.Const("required", z3.BoolSort())),
                  parent_name=SStr(z3.Const("parent_name", z3.StringSort())) if has_parent else "", config=config)
        inputs = {"cname": cname, "consulted": cbn0, "holder": holder, "same": same, "info": info,
                  "module_asked": info.module_asked, "declared": declared, "conv": conv}
        return SFunc("pyfunc", klass.build.__func__, self_val=klass), [], kw, inputs

    base = _table_clause(None, lambda ctx: ctx.inputs["consulted"], True)

    def clause(ctx):
        # hand the clause the enum the lookup produced (if any) and whether equality of the member tables holds here
        ctx.inputs["same_enum"] = ctx.inputs["holder"].get("enum")
        ctx.inputs["values_equal_taken"] = (lambda: bool(ctx.inputs["holder"].get("equal"))) if literal else \
            (lambda: ctx.I.must(ctx.inputs["same"]))
        return base(ctx)

    def default_clause(ctx):
        """the default of the returned property is the conversion of THIS schema's default (none declared: none)"""
        i = ctx.inputs
        res = ctx.value.items[0]
        if not (isinstance(res, SObj) and res.cls.__name__ in ("EnumProperty", "LiteralEnumProperty")):
            # a diagnostic: fine if the conversion of the declared default failed or another check did; nothing to say here
            return True
        got = res.fields.get("default")
        if i["declared"] is None:
            return got is None
        mine = [out for me, v, out in i["conv"]["calls"] if v is i["declared"]]
        return bool(mine) and got is mine[-1] and not (isinstance(got, SObj) and got.cls.__name__ == "PropertyError")

    clauses = [Clause("default-is-this-schemas-default", default_clause,
                      statement="a returned (Literal)EnumProperty carries convert_value(data.default) of THIS schema -- None when "
                                "the schema declares no default, whatever an equal enum met earlier declared; a default whose "
                                "conversion fails is never stored", props=["C13"]),
               Clause("never-overwrites", clause,
                      statement="a returned (Literal)EnumProperty is registered under a class name that was absent from the table or "
                                "held an EnumProperty with equal members (the same inline enum met twice is shared); any other "
                                "occupant yields a PropertyError; every other entry of the table is kept; the table was asked "
                                "(Schemas.module_name_taken) whether another class owns the module, and answered no; the "
                                "caller's own Schemas and its table are left as they were (callers roll a rejected piece back "
                                "by dropping the returned Schemas)", props=["C09", "C07", "C12", "C08"])]
    return FnContract(Q, [Case("registration", make, clauses, raises=(), props=["C09", "C07", "C12", "C14", "C13", "C08"])])


def literal_enum_build_contract():
    return enum_build_contract(literal=True)


def module_name_taken_contract():
    """Schemas.module_name_taken(class_info) for a class table of ANY size (inductive: loop invariant over the items):
         returns False  =>  no entry under another class name has a class_info whose module_name equals class_info.module_name
                            (generic entry at position ig)
         returns True   =>  the entry the scan stopped at is such an entry
       So two classes with different names are never written to one models/<module>.py (C09 modules, C01, C07)."""
    Q = f"{P}.schemas:Schemas.module_name_taken"

    def make(I):
        from openapi_python_client.parser.properties.schemas import Schemas
        from pyvc.symexec import LoopSpec, SSeq
        Z = I.Z
        S, B = z3.StringSort(), z3.BoolSort()
        base = z3.Const("class_table_items", z3.SeqSort(Z.JV))
        keyF = z3.Function("entry_class_name", Z.JV, S)
        has_ci = z3.Function("entry_has_class_info", Z.JV, B)
        modF = z3.Function("entry_module_name", Z.JV, S)
        my_name, my_mod = z3.Const("class_name", S), z3.Const("module_name", S)

        def entry(v):
            e = SOpaque("table entry", cls=object)
            if I.branch(has_ci(v.t)):
                e.attrs["class_info"] = SOpaque("class_info of an entry", attrs={"module_name": SStr(modF(v.t)), "name": SStr(keyF(v.t))})
            else:
                if I.branch_free():
                    e.attrs["class_info"] = None
                # else: the attribute does not exist at all (getattr default)
            return STuple([SStr(keyF(v.t)), e])

        class Table(SOpaque):
            def getattr(self, I2, name):
                if name == "items":
                    return SFunc("model", lambda I3, a, k: SSeq(base, None, [entry]))
                if name == "values":
                    return SFunc("model", lambda I3, a, k: SSeq(base, None, [lambda v: entry(v).items[1]]))
                raise Unsupported(f"dict method {name} on the class table")
        table = Table("classes_by_name", cls=dict)
        me = SObj(Schemas, {"classes_by_reference": SOpaque("cbr"), "dependencies": SOpaque("deps"), "classes_by_name": table,
                            "models_to_process": SList(), "errors": SList()})
        info = SOpaque("class_info", attrs={"name": SStr(my_name), "module_name": SStr(my_mod)})
        ig = z3.Int("ig")
        I.assume(z3.And(0 <= ig, ig < z3.Length(base)))

        def conflict(x):
            return z3.And(keyF(x) != my_name, has_ci(x), modF(x) == my_mod)

        def inv(I2, loc, seen):
            return z3.Implies(ig < z3.Length(seen), z3.Not(conflict(base[ig])))
        I.loop_specs[(Q, 0)] = LoopSpec(inv, {"other": lambda I2: SOpaque("other")})
        return SFunc("pyfunc", Schemas.module_name_taken, self_val=me), [info], {}, \
            {"base": base, "ig": ig, "conflict": conflict, "empty": z3.Length(base) == 0}

    def false_means_free(ctx):
        i = ctx.inputs
        v = ctx.value
        if v is False:
            return z3.Not(i["conflict"](i["base"][i["ig"]]))
        if v is True:
            at = ctx.I.loop_index
            if at is None:
                return False
            return z3.And(0 <= at, at < z3.Length(i["base"]), i["conflict"](i["base"][at]))
        return False

    cl = Clause("taken-iff-another-class-owns-the-module", false_means_free,
                statement="False: no entry of the table (generic position) under a different class name has the same module name; "
                          "True: the entry the scan stopped at is one -- for a table of any size", props=["C09", "C01", "C07"])
    return FnContract(Q, [Case("any-table", make, [cl], raises=(), props=["C09", "C01", "C07"])])


def all_contracts():
    return [model_build_contract(), enum_build_contract(), literal_enum_build_contract(), module_name_taken_contract()]


def import_filter_contract(which):
    """ModelProperty.set_relative_imports / set_lazy_imports (C01: no module refers to a name it does not import): of the
    imports handed in, exactly those that contain the model's own import line are dropped -- every other import is kept,
    whatever its text (for a set of imports of any size: generic element)."""
    Q = f"{P}.model_property:ModelProperty.set_{which}_imports"

    def make(I):
        from openapi_python_client.parser.properties import model_property as MP
        from pyvc.symexec import SSeq
        S = z3.StringSort()
        base = z3.Const("imports", z3.SeqSort(I.Z.JV))
        seq = SSeq(base, lambda x: I.Z.rec["str"](x), [])
        info = SOpaque("class_info", attrs={"name": SStr(z3.Const("class_name", S)), "module_name": SStr(z3.Const("module_name", S))})
        m = SObj(MP.ModelProperty, {"class_info": info, "name": "m", "required": True, "default": None, "python_name": "m",
                                    "description": None, "example": None})
        return SFunc("pyfunc", getattr(MP.ModelProperty, f"set_{which}_imports"), self_val=m), [seq], {}, {"m": m, "seq": seq, "which": which}

    def post(ctx):
        from pyvc.symexec import SFiltered
        I, i = ctx.I, ctx.inputs
        stored = i["m"].fields.get(f"{i['which']}_imports")
        if not isinstance(stored, SFiltered) or stored.seq is not i["seq"]:
            return False
        xs = z3.Const("some_import", z3.StringSort())
        own = z3.Concat(z3.StringVal("models."), z3.Const("module_name", z3.StringSort()), z3.StringVal(" import "),
                        z3.Const("class_name", z3.StringSort()))
        kept = stored.keep(SStr(xs))
        img = stored.image(SStr(xs))
        same = I.to_str_term(img) == xs
        return z3.And(kept == z3.Not(z3.Contains(xs, own)), same)

    cl = Clause("only-the-own-import-is-dropped", post,
                statement=f"set_{which}_imports stores, unchanged, exactly the imports that do not contain the model's own import line "
                          f"`models.<module> import <Class>` (generic import string)", props=["C01"])
    return FnContract(Q, [Case("any-set-of-imports", make, [cl], raises=(), props=["C01"])])
