"""C16: each configuration option has exactly its documented effect.

1. reads frame: the read sites of every Config field in the package's .py and .jinja files are enumerated (AST / jinja
   AST) and must lie inside the documented set of units for that option (the table below is the contract, written from
   the README's Configuration section: which stage an option may influence).  A read elsewhere is an effect outside the
   documented one.
2. local effects: get_content_type (override consulted before classification), Class.from_string (class_overrides),
   enum style (dispatch contract), generate_all_tags (collection contract).
"""
from __future__ import annotations

import ast
import os
import re

import z3
from jinja2 import Environment, nodes

from pyvc import core
from pyvc.core import Obligation, PROVED, REFUTED, UNDECIDED
from pyvc.engine_b import Case, Clause, FnContract
from pyvc.symexec import SDict, SFunc, SObj, SOpaque, SStr, SV, Unsupported

# option -> units (file[:function]) that may read it
DOCUMENTED = {
    "class_overrides": {"parser/properties/schemas.py:from_string"},
    "content_type_overrides": {"utils.py:get_content_type"},
    "literal_enums": {"parser/properties/__init__.py:property_from_data"},
    "generate_all_tags": {"parser/openapi.py:from_data"},
    "use_path_prefixes_for_title_model_names": {"parser/properties/model_property.py:build"},
    "docstrings_on_attributes": {"templates/model.py.jinja", "templates/client.py.jinja"},
    "project_name_override": {"__init__.py:__init__"}, "package_name_override": {"__init__.py:__init__"},
    "package_version_override": {"__init__.py:__init__"},
    "post_hooks": {"__init__.py:_run_post_hooks"}, "overwrite": {"__init__.py:build"},
    "output_path": {"__init__.py:__init__"}, "http_timeout": {"__init__.py:_get_project_for_url_or_path"},
    "meta_type": {"__init__.py:__init__", "__init__.py:_create_package", "__init__.py:_build_metadata", "__init__.py:_build_pyproject_toml"},
    "file_encoding": {"__init__.py:*write_text(encoding=)"},
    "document_source": {"__init__.py:_get_project_for_url_or_path"},
    "field_prefix": {"*naming*"},
}


def read_sites():
    root = os.path.join(core.REPO, "openapi_python_client")
    sites = {}
    for dp, dn, fs in os.walk(root):
        if os.sep + "schema" in dp:
            continue
        for f in sorted(fs):
            p = os.path.join(dp, f)
            rel = os.path.relpath(p, root)
            if f.endswith(".py") and f not in ("config.py", "cli.py"):
                tree = ast.parse(open(p, encoding="utf-8").read())
                for fn in [n for n in ast.walk(tree) if isinstance(n, (ast.FunctionDef, ast.AsyncFunctionDef))]:
                    for n in ast.walk(fn):
                        if isinstance(n, ast.Attribute) and isinstance(n.ctx, ast.Load):
                            base = n.value
                            is_cfg = (isinstance(base, ast.Name) and base.id == "config") or \
                                     (isinstance(base, ast.Attribute) and base.attr == "config")
                            if is_cfg:
                                kind = ""
                                sites.setdefault(n.attr, []).append((rel, fn.name, n.lineno, _usage(fn, n)))
            elif f.endswith(".jinja"):
                env = Environment(trim_blocks=True, lstrip_blocks=True, extensions=["jinja2.ext.loopcontrols"])
                tree = env.parse(open(p, encoding="utf-8").read())
                for n in tree.find_all(nodes.Getattr):
                    if isinstance(n.node, nodes.Name) and n.node.name == "config":
                        sites.setdefault(n.attr, []).append((rel, "", n.lineno, "template"))
    return sites


def _usage(fn, attr):
    for n in ast.walk(fn):
        if isinstance(n, ast.keyword) and n.value is attr:
            return f"kw:{n.arg}"
    return "expr"


def reads_frame_obligations(rep, prop="C16"):
    from openapi_python_client.config import Config
    import dataclasses
    fields = [f.name for f in dataclasses.fields(Config)] if dataclasses.is_dataclass(Config) else [a.name for a in Config.__attrs_attrs__]
    sites = read_sites()
    for opt in sorted(set(fields) | set(sites)):
        ob = Obligation(id=f"{prop}.B.reads-frame.{opt}", props=[prop], unit=f"Config.{opt}", backend="syntactic (python + jinja AST)",
                        formula=f"every read of config.{opt} lies in the documented units {sorted(DOCUMENTED.get(opt, []))}")
        got = sites.get(opt, [])
        allowed = DOCUMENTED.get(opt)
        if allowed is None:
            ob.status, ob.detail = (UNDECIDED, f"option {opt} has no documented frame in the contract") if got else (PROVED, "never read")
            rep.add(ob)
            continue
        bad = []
        for rel, fn, line, usage in got:
            key = f"{rel}:{fn}" if fn else rel
            if "*naming*" in allowed:
                continue        # field_prefix: feeds PythonIdentifier/ClassName only (checked below)
            if f"{rel}:*write_text(encoding=)" in allowed:
                if usage != "kw:encoding":
                    bad.append(f"{key}:{line} ({usage})")
                continue
            if key not in allowed:
                bad.append(f"{key}:{line}")
        if opt == "field_prefix":
            bad = [f"{rel}:{fn}:{line} ({usage})" for rel, fn, line, usage in got if usage not in ("kw:prefix",) and usage != "expr"]
        ob.where = f"{got[0][0]}:{got[0][2]}" if got else ""
        if bad:
            # no counterexample exists for a mere read: the frame contract does not cover this unit -> undecided (exit 2);
            # an actual change of effect is caught by the local effect contracts
            ob.status, ob.detail = UNDECIDED, f"read outside the documented units (the frame contract does not cover it): {bad}"
        else:
            ob.status, ob.detail = PROVED, f"{len(got)} read site(s): {sorted({(r + ':' + f) if f else r for r, f, _, _ in got})}"
        rep.add(ob)


def get_content_type_contract():
    def make(I):
        import openapi_python_client.utils as U
        from email.message import Message
        from pyvc.absdata import LazyMap
        S = z3.StringSort()
        mime = z3.Function("email_message_content_type", S, S)
        override = SStr(z3.Const("override_value", S))
        ct = SStr(z3.Const("content_type", S))
        # the table either maps the document's media type to an override or does not contain it (harness choice, so the
        # contract does not depend on whether the code looks it up)
        has = I.branch_free()
        overrides = LazyMap("content_type_overrides", None, [(ct, override)] if has else [], absent=[] if has else [ct], complete=True)

        class Msg(SOpaque):
            def __init__(self):
                super().__init__("Message")
                self.header = None

            def getattr(self, I2, name):
                if name == "add_header":
                    def add(I3, a, k):
                        self.header = a[1]
                    return SFunc("model", add)
                if name == "get_content_type":
                    return SFunc("model", lambda I3, a, k: SStr(mime(I3.to_str_term(self.header))))
                raise Exception(name)
        I.lib = dict(I.lib)
        I.lib[Message] = lambda I2, a, k: Msg()
        config = SOpaque("config", attrs={"content_type_overrides": overrides})
        return SFunc("pyfunc", U.get_content_type), [ct, config], {}, {"ct": ct, "overrides": overrides, "override": override, "mime": mime,
                                                                          "has": has}

    def post(ctx):
        I = ctx.I
        i = ctx.inputs
        eff = i["override"].t if i["has"] else i["ct"].t      # the media type the document's one is to behave as
        parsed = i["mime"](eff)
        v = ctx.value
        ok = z3.PrefixOf(parsed, eff)
        if v is None:
            return z3.Not(ok)
        return z3.And(ok, I.to_str_term(v) == parsed)
    cl = Clause("override-consulted-before-classification", post,
                statement="result == classify(content_type_overrides.get(content_type, content_type)): the override is looked "
                          "up on the document's own string, the result is the parsed type of the effective string or None if "
                          "that does not parse", props=["C16", "C03", "C04"])
    return FnContract("openapi_python_client.utils:get_content_type", [Case("any", make, [cl], raises=(), props=["C16", "C03", "C04"])])


def class_from_string_contract():
    def make(I):
        from openapi_python_client.parser.properties.schemas import Class
        from pyvc.absdata import LazyMap
        S = z3.StringSort()
        has_cn = I.branch_free()
        has_mn = I.branch_free()
        ov = SOpaque("override", attrs={"class_name": SStr(z3.Const("ov_class", S)) if has_cn else None,
                                        "module_name": SStr(z3.Const("ov_module", S)) if has_mn else None})
        overrides = LazyMap("class_overrides", lambda I2, k: ov)
        config = SOpaque("config", attrs={"class_overrides": overrides, "field_prefix": SStr(z3.Const("field_prefix", S))})
        string = SStr(z3.Const("string", S))
        I.contracts["openapi_python_client.parser.properties.schemas:get_reference_simple_name"] = \
            lambda I2, a, k: SStr(z3.Function("simple_name", S, S)(I2.to_str_term(a[0])))
        return SFunc("pyfunc", Class.from_string), [], {"string": string, "config": config}, {
            "ov": ov, "overrides": overrides, "string": string, "config": config, "has_cn": has_cn, "has_mn": has_mn}

    def post(ctx):
        I = ctx.I
        i = ctx.inputs
        from openapi_python_client import utils
        S = z3.StringSort()
        fp = i["config"].attrs["field_prefix"]
        simple = SStr(z3.Function("simple_name", S, S)(i["string"].t))
        base = I.lib[utils.ClassName](I, [simple, fp], {})
        found = any(v is i["ov"] for _, v in i["overrides"].entries)
        r = ctx.value
        want_name = base
        if found and i["has_cn"]:
            want_name = I.lib[utils.ClassName](I, [i["ov"].attrs["class_name"], fp], {})
        want_mod_src = i["ov"].attrs["module_name"] if (found and i["has_mn"]) else want_name
        want_mod = I.lib[utils.PythonIdentifier](I, [want_mod_src, fp], {})
        e1, e2 = I.py_eq(r.fields["name"], want_name), I.py_eq(r.fields["module_name"], want_mod)
        return z3.And(e1 if not isinstance(e1, bool) else z3.BoolVal(e1), e2 if not isinstance(e2, bool) else z3.BoolVal(e2))
    cl = Clause("override-applied-iff-key-matches", post,
                statement="name = ClassName(override.class_name or derived name); module_name = PythonIdentifier(override."
                          "module_name or name); the override is used iff the derived class name is a key", props=["C16", "C09"])
    return FnContract("openapi_python_client.parser.properties.schemas:Class.from_string",
                      [Case("any", make, [cl], raises=(), props=["C16", "C09"])])


# ---- Config.from_sources: every option reaches the Config unchanged ------------------------------------------------------

class _Table(SOpaque):
    """a dict option of unknown content: known by a content term (uninterpreted sort); truthiness = non-emptiness.
    Iterating its items in a dict comprehension yields the same content iff the comprehension is the identity on a generic
    (key, value) pair, otherwise SOME other content."""
    SORT = z3.DeclareSort("TableContent")
    EMPTY = z3.Const("empty_table", SORT)

    def __init__(self, name, content=None, nonempty=None):
        super().__init__(name, cls=dict)
        self.content = content if content is not None else z3.Const("content_of_" + name, _Table.SORT)
        self._nonempty = nonempty if nonempty is not None else (self.content != _Table.EMPTY)

    @property
    def nonempty(self):
        return self._nonempty

    def getattr(self, I, name):
        if name == "items":
            return SFunc("model", lambda I2, a, k: _Items(self))
        raise Unsupported(f"dict method {name} on an option table")


class _Items:
    def __init__(self, table):
        self.table = table

    def dictcomp_hook(self, I, image, filtered=False):
        from pyvc.symexec import STuple
        if filtered:
            return _Table(self.table.name + " (filtered)", I.fresh("filtered_content", _Table.SORT))
        k, v = SStr(I.fresh("some_key", z3.StringSort())), SOpaque("some value of " + self.table.name, cls=object)
        k2, v2 = image(STuple([k, v]))
        same_key = isinstance(k2, SStr) and z3.eq(z3.simplify(k2.t), z3.simplify(k.t))
        if same_key and v2 is v:
            return _Table(self.table.name + " (copied)", self.table.content, self.table.nonempty)
        return _Table(self.table.name + " (rewritten)", I.fresh("rewritten_content", _Table.SORT))


PASSTHROUGH = ["project_name_override", "package_name_override", "package_version_override",
               "use_path_prefixes_for_title_model_names", "docstrings_on_attributes", "field_prefix", "generate_all_tags",
               "http_timeout", "literal_enums"]
ARGS = ["meta_type", "document_source", "file_encoding", "overwrite", "output_path"]


def from_sources_contract():
    """C16: Config.from_sources copies every option of the ConfigFile and every CLI argument into the Config unchanged; an
    absent table option becomes an empty table; post_hooks given are kept, absent ones become the documented default of the
    meta type."""
    def make(I):
        from openapi_python_client import config as C
        fields = {f: SOpaque(f"config_file.{f}", cls=object) for f in PASSTHROUGH}
        fields["field_prefix"] = SStr(z3.Const("field_prefix", z3.StringSort()))          # typed: str / bool options
        from pyvc.symexec import SBool, SInt
        for f in ("use_path_prefixes_for_title_model_names", "docstrings_on_attributes", "generate_all_tags", "literal_enums"):
            fields[f] = SBool(z3.Const(f, z3.BoolSort()))
        fields["http_timeout"] = SInt(z3.Const("http_timeout", z3.IntSort()))
        tables = {}
        for f in ("class_overrides", "content_type_overrides"):
            tables[f] = None if I.branch_free() else _Table(f)
            fields[f] = tables[f]
        hooks = None if I.branch_free() else SOpaque("config_file.post_hooks", cls=list)
        if hooks is not None:
            hooks.nonempty = z3.Const("post_hooks_nonempty", z3.BoolSort())
        fields["post_hooks"] = hooks
        cf = SObj(C.ConfigFile, fields)
        metas = list(C.MetaType)
        meta = metas[I.choose(len(metas))]
        args = {a: SOpaque(f"argument.{a}", cls=object) for a in ARGS}
        args["meta_type"] = meta
        return SFunc("pyfunc", C.Config.from_sources), [], dict(config_file=cf, **args), {
            "fields": fields, "tables": tables, "hooks": hooks, "args": args, "C": C, "meta": meta}

    def copied(ctx):
        i = ctx.inputs
        r = ctx.value
        if not (isinstance(r, SObj) and r.cls is i["C"].Config):
            return False
        for f in PASSTHROUGH:
            if r.fields.get(f) is not i["fields"][f]:
                return False
        for a in ARGS:
            if r.fields.get(a) is not i["args"][a]:
                return False
        return True

    def tables(ctx):
        i = ctx.inputs
        r = ctx.value
        if not isinstance(r, SObj):
            return False
        conds = []
        for f, t in i["tables"].items():
            got = r.fields.get(f)
            if t is None:
                if not (isinstance(got, SDict) and not got.items and got.rest is None):
                    return False
                continue
            # a given table arrives with its content (an empty one may be replaced by a new empty dict)
            if isinstance(got, _Table):
                conds.append(got.content == t.content)
            elif isinstance(got, SDict) and not got.items and got.rest is None:
                conds.append(z3.Not(t.nonempty))
            else:
                return False
        return z3.And(*conds) if conds else True

    def hooks(ctx):
        i = ctx.inputs
        r = ctx.value
        if not isinstance(r, SObj):
            return False
        got = r.fields.get("post_hooks")
        if i["hooks"] is not None:
            return got is i["hooks"]
        from pyvc.symexec import SList
        if not isinstance(got, SList) or len(got.items) != 2 or not all(isinstance(x, str) for x in got.items):
            return False
        want = ["ruff check . --fix --extend-select=I", "ruff format ."] if i["meta"] is i["C"].MetaType.NONE else \
            ["ruff check --fix .", "ruff format ."]
        return list(got.items) == want

    NATIVE_SETUP = (
        "from openapi_python_client.config import Config, ConfigFile, MetaType\n"
        "from pathlib import Path\n"
        "def TARGET_OBJ(**cf):\n"
        "    f = ConfigFile(**cf)\n"
        "    c = Config.from_sources(f, MetaType.NONE, Path('doc.json'), 'utf-8', False, None)\n"
        "    return {'file': f, 'config': c}\n"
        "def SAME(result):\n"
        "    f, c = result['file'], result['config']\n"
        "    return c.content_type_overrides == (f.content_type_overrides or {}) and c.class_overrides == (f.class_overrides or {}) \\\n"
        "        and (f.post_hooks is None or c.post_hooks == f.post_hooks) and c.field_prefix == f.field_prefix\n")

    def pool():
        return [{}, {"content_type_overrides": {"application/vnd.Acme.Thing+custom": "application/json"}},
                {"content_type_overrides": {" text/x ": "text/plain"}},
                {"class_overrides": {"A Model": {"class_name": "Other", "module_name": "other"}}},
                {"class_overrides": {}, "content_type_overrides": {}, "post_hooks": []},
                {"post_hooks": ["echo  x"], "field_prefix": "F_"}]

    nat = "exc is not None or not SAME(result)"
    clauses = [
        Clause("scalars-and-arguments-unchanged", copied, native=nat,
               statement="every scalar option of the config file and every CLI argument is the corresponding Config field, unchanged"),
        Clause("tables-unchanged", tables, native=nat,
               statement="class_overrides / content_type_overrides: absent => {}; given => the same content (keys and values as written)"),
        Clause("post-hooks", hooks, native=nat,
               statement="post_hooks given => kept as given (also when empty); absent => the documented default of the meta type"),
    ]
    case = Case("any-config-file", make, clauses, raises=(), props=["C16"], pool=pool)
    case.native_target = "openapi_python_client.config:Config.from_sources"
    case.native_setup = NATIVE_SETUP
    return FnContract("openapi_python_client.config:Config.from_sources", [case])
