"""C16: each configuration option has exactly its documented effect.

1. reads frame: the read sites of every Config field in the package's .py and .jinja files are enumerated (AST / jinja
   AST) and must lie inside the documented set of units for that option (the table below is the contract, written from
   the README's Configuration section: which stage an option may influence).  A read elsewhere is an effect outside the
   documented one.
2. local effects: get_content_type (override consulted before classification), Class.from_string (class_overrides),
   enum style (dispatch contract), generate_all_tags (collection contract).
"""
from __future__ import annotations

import ast
import os
import re

import z3
from jinja2 import Environment, nodes

from pyvc import core
from pyvc.core import Obligation, PROVED, REFUTED, UNDECIDED
from pyvc.engine_b import Case, Clause, FnContract
from pyvc.symexec import SFunc, SObj, SOpaque, SStr, SV

# option -> units (file[:function]) that may read it
DOCUMENTED = {
    "class_overrides": {"parser/properties/schemas.py:from_string"},
    "content_type_overrides": {"utils.py:get_content_type"},
    "literal_enums": {"parser/properties/__init__.py:property_from_data"},
    "generate_all_tags": {"parser/openapi.py:from_data"},
    "use_path_prefixes_for_title_model_names": {"parser/properties/model_property.py:build"},
    "docstrings_on_attributes": {"templates/model.py.jinja", "templates/client.py.jinja"},
    "project_name_override": {"__init__.py:__init__"}, "package_name_override": {"__init__.py:__init__"},
    "package_version_override": {"__init__.py:__init__"},
    "post_hooks": {"__init__.py:_run_post_hooks"}, "overwrite": {"__init__.py:build"},
    "output_path": {"__init__.py:__init__"}, "http_timeout": {"__init__.py:_get_project_for_url_or_path"},
    "meta_type": {"__init__.py:__init__", "__init__.py:_create_package", "__init__.py:_build_metadata", "__init__.py:_build_pyproject_toml"},
    "file_encoding": {"__init__.py:*write_text(encoding=)"},
    "document_source": {"__init__.py:_get_project_for_url_or_path"},
    "field_prefix": {"*naming*"},
}


def read_sites():
    root = os.path.join(core.REPO, "openapi_python_client")
    sites = {}
    for dp, dn, fs in os.walk(root):
        if os.sep + "schema" in dp:
            continue
        for f in sorted(fs):
            p = os.path.join(dp, f)
            rel = os.path.relpath(p, root)
            if f.endswith(".py") and f not in ("config.py", "cli.py"):
                tree = ast.parse(open(p, encoding="utf-8").read())
                for fn in [n for n in ast.walk(tree) if isinstance(n, (ast.FunctionDef, ast.AsyncFunctionDef))]:
                    for n in ast.walk(fn):
                        if isinstance(n, ast.Attribute) and isinstance(n.ctx, ast.Load):
                            base = n.value
                            is_cfg = (isinstance(base, ast.Name) and base.id == "config") or \
                                     (isinstance(base, ast.Attribute) and base.attr == "config")
                            if is_cfg:
                                kind = ""
                                sites.setdefault(n.attr, []).append((rel, fn.name, n.lineno, _usage(fn, n)))
            elif f.endswith(".jinja"):
                env = Environment(trim_blocks=True, lstrip_blocks=True, extensions=["jinja2.ext.loopcontrols"])
                tree = env.parse(open(p, encoding="utf-8").read())
                for n in tree.find_all(nodes.Getattr):
                    if isinstance(n.node, nodes.Name) and n.node.name == "config":
                        sites.setdefault(n.attr, []).append((rel, "", n.lineno, "template"))
    return sites


def _usage(fn, attr):
    for n in ast.walk(fn):
        if isinstance(n, ast.keyword) and n.value is attr:
            return f"kw:{n.arg}"
    return "expr"


def reads_frame_obligations(rep, prop="C16"):
    from openapi_python_client.config import Config
    import dataclasses
    fields = [f.name for f in dataclasses.fields(Config)] if dataclasses.is_dataclass(Config) else [a.name for a in Config.__attrs_attrs__]
    sites = read_sites()
    for opt in sorted(set(fields) | set(sites)):
        ob = Obligation(id=f"{prop}.B.reads-frame.{opt}", props=[prop], unit=f"Config.{opt}", backend="syntactic (python + jinja AST)",
                        formula=f"every read of config.{opt} lies in the documented units {sorted(DOCUMENTED.get(opt, []))}")
        got = sites.get(opt, [])
        allowed = DOCUMENTED.get(opt)
        if allowed is None:
            ob.status, ob.detail = (UNDECIDED, f"option {opt} has no documented frame in the contract") if got else (PROVED, "never read")
            rep.add(ob)
            continue
        bad = []
        for rel, fn, line, usage in got:
            key = f"{rel}:{fn}" if fn else rel
            if "*naming*" in allowed:
                continue        # field_prefix: feeds PythonIdentifier/ClassName only (checked below)
            if f"{rel}:*write_text(encoding=)" in allowed:
                if usage != "kw:encoding":
                    bad.append(f"{key}:{line} ({usage})")
                continue
            if key not in allowed:
                bad.append(f"{key}:{line}")
        if opt == "field_prefix":
            bad = [f"{rel}:{fn}:{line} ({usage})" for rel, fn, line, usage in got if usage not in ("kw:prefix",) and usage != "expr"]
        ob.where = f"{got[0][0]}:{got[0][2]}" if got else ""
        if bad:
            # no counterexample exists for a mere read: the frame contract does not cover this unit -> undecided (exit 2);
            # an actual change of effect is caught by the local effect contracts
            ob.status, ob.detail = UNDECIDED, f"read outside the documented units (the frame contract does not cover it): {bad}"
        else:
            ob.status, ob.detail = PROVED, f"{len(got)} read site(s): {sorted({(r + ':' + f) if f else r for r, f, _, _ in got})}"
        rep.add(ob)


def get_content_type_contract():
    def make(I):
        import openapi_python_client.utils as U
        from email.message import Message
        from pyvc.absdata import LazyMap
        S = z3.StringSort()
        mime = z3.Function("email_message_content_type", S, S)
        override = SStr(z3.Const("override_value", S))
        ct = SStr(z3.Const("content_type", S))
        # the table either maps the document's media type to an override or does not contain it (harness choice, so the
        # contract does not depend on whether the code looks it up)
        has = I.branch_free()
        overrides = LazyMap("content_type_overrides", None, [(ct, override)] if has else [], absent=[] if has else [ct], complete=True)

        class Msg(SOpaque):
            def __init__(self):
                super().__init__("Message")
                self.header = None

            def getattr(self, I2, name):
                if name == "add_header":
                    def add(I3, a, k):
                        self.header = a[1]
                    return SFunc("model", add)
                if name == "get_content_type":
                    return SFunc("model", lambda I3, a, k: SStr(mime(I3.to_str_term(self.header))))
                raise Exception(name)
        I.lib = dict(I.lib)
        I.lib[Message] = lambda I2, a, k: Msg()
        config = SOpaque("config", attrs={"content_type_overrides": overrides})
        return SFunc("pyfunc", U.get_content_type), [ct, config], {}, {"ct": ct, "overrides": overrides, "override": override, "mime": mime,
                                                                          "has": has}

    def post(ctx):
        I = ctx.I
        i = ctx.inputs
        eff = i["override"].t if i["has"] else i["ct"].t      # the media type the document's one is to behave as
        parsed = i["mime"](eff)
        v = ctx.value
        ok = z3.PrefixOf(parsed, eff)
        if v is None:
            return z3.Not(ok)
        return z3.And(ok, I.to_str_term(v) == parsed)
    cl = Clause("override-consulted-before-classification", post,
                statement="result == classify(content_type_overrides.get(content_type, content_type)): the override is looked "
                          "up on the document's own string, the result is the parsed type of the effective string or None if "
                          "that does not parse", props=["C16", "C03"])
    return FnContract("openapi_python_client.utils:get_content_type", [Case("any", make, [cl], raises=(), props=["C16", "C03"])])


def class_from_string_contract():
    def make(I):
        from openapi_python_client.parser.properties.schemas import Class
        from pyvc.absdata import LazyMap
        S = z3.StringSort()
        has_cn = I.branch_free()
        has_mn = I.branch_free()
        ov = SOpaque("override", attrs={"class_name": SStr(z3.Const("ov_class", S)) if has_cn else None,
                                        "module_name": SStr(z3.Const("ov_module", S)) if has_mn else None})
        overrides = LazyMap("class_overrides", lambda I2, k: ov)
        config = SOpaque("config", attrs={"class_overrides": overrides, "field_prefix": SStr(z3.Const("field_prefix", S))})
        string = SStr(z3.Const("string", S))
        I.contracts["openapi_python_client.parser.properties.schemas:get_reference_simple_name"] = \
            lambda I2, a, k: SStr(z3.Function("simple_name", S, S)(I2.to_str_term(a[0])))
        return SFunc("pyfunc", Class.from_string), [], {"string": string, "config": config}, {
            "ov": ov, "overrides": overrides, "string": string, "config": config, "has_cn": has_cn, "has_mn": has_mn}

    def post(ctx):
        I = ctx.I
        i = ctx.inputs
        from openapi_python_client import utils
        S = z3.StringSort()
        fp = i["config"].attrs["field_prefix"]
        simple = SStr(z3.Function("simple_name", S, S)(i["string"].t))
        base = I.lib[utils.ClassName](I, [simple, fp], {})
        found = any(v is i["ov"] for _, v in i["overrides"].entries)
        r = ctx.value
        want_name = base
        if found and i["has_cn"]:
            want_name = I.lib[utils.ClassName](I, [i["ov"].attrs["class_name"], fp], {})
        want_mod_src = i["ov"].attrs["module_name"] if (found and i["has_mn"]) else want_name
        want_mod = I.lib[utils.PythonIdentifier](I, [want_mod_src, fp], {})
        e1, e2 = I.py_eq(r.fields["name"], want_name), I.py_eq(r.fields["module_name"], want_mod)
        return z3.And(e1 if not isinstance(e1, bool) else z3.BoolVal(e1), e2 if not isinstance(e2, bool) else z3.BoolVal(e2))
    cl = Clause("override-applied-iff-key-matches", post,
                statement="name = ClassName(override.class_name or derived name); module_name = PythonIdentifier(override."
                          "module_name or name); the override is used iff the derived class name is a key", props=["C16", "C09"])
    return FnContract("openapi_python_client.parser.properties.schemas:Class.from_string",
                      [Case("any", make, [cl], raises=(), props=["C16", "C09"])])
