"""Engine F: generated-code fragments, rendered by the REAL generator from schematic documents, verified as code.

A schematic document contains one small model per (property kind x required/optional x default/no default x
nullable) and one operation per (parameter kind x location x required/optional), (body type) and (response shape).
The real generator (real parser, real templates of the current working tree) renders it into a scratch package that is
imported natively; the functions of the generated modules (`from_dict`, `to_dict`, `_get_kwargs`, `_parse_response`,
...) are then executed symbolically by Engine B against behavioural contracts taken from the property statements.

Why this is still "the code that runs": the verified text is what the real templates emit for real property objects
on every run.  What is schematic is the document: the statement for *all* documents follows by induction over the
property tree (one macro set per kind, nested kinds replaced by their own contracts) and the frame argument for
sibling properties (names derived from distinct properties are disjoint, C18) -- a paper argument, listed as an
assumption in the evidence.
"""
from __future__ import annotations

import importlib
import itertools
import json
import os
import shutil
import sys
import tempfile
from pathlib import Path

import z3

from .symexec import SDict, SFunc, SList, SObj, SSeq, SStr, SV, Sorts, Unsupported

_counter = itertools.count()
_live = []


class Package:
    def __init__(self, name, root, errors, tmp):
        self.name, self.root, self.errors, self.tmp = name, root, errors, tmp

    def module(self, rel):
        try:
            return importlib.import_module(f"{self.name}.{rel}")
        except Exception as e:  # noqa
            from .engine_b import Refuted
            raise Refuted(f"the generated module {rel} does not import: {type(e).__name__}: {e}")

    def text(self, rel):
        return (self.root / rel).read_text(encoding="utf-8")

    def cleanup(self):
        for m in [m for m in sys.modules if m == self.name or m.startswith(self.name + ".")]:
            del sys.modules[m]
        if str(self.tmp) in sys.path:
            sys.path.remove(str(self.tmp))
        shutil.rmtree(self.tmp, ignore_errors=True)


def generate_package(document: dict, config: dict | None = None) -> Package:
    from openapi_python_client import generate
    from openapi_python_client.config import Config, ConfigFile, MetaType
    tmp = Path(tempfile.mkdtemp(prefix="pyvc-frag-"))
    name = f"pyvcfrag_{os.getpid()}_{next(_counter)}"
    doc = tmp / "doc.json"
    doc.write_text(json.dumps(document), encoding="utf-8")
    cf = dict(config or {})
    cf.setdefault("post_hooks", [])
    cf["package_name_override"] = name
    cfg = Config.from_sources(ConfigFile(**cf), MetaType.NONE, document_source=doc, file_encoding="utf-8",
                              overwrite=True, output_path=tmp / name)
    import contextlib
    import io
    with contextlib.redirect_stdout(io.StringIO()):
        try:
            errors = generate(config=cfg)
        except Exception as e:      # noqa: BLE001
            import traceback
            from .replay import GeneratorCrashed
            raise GeneratorCrashed(f"{type(e).__name__}: {e}", document, {k: v for k, v in cf.items() if k != "package_name_override"},
                                   "none", traceback.format_exc(limit=6)) from e
    sys.path.insert(0, str(tmp))
    importlib.invalidate_caches()
    pkg = Package(name, tmp / name, errors, tmp)
    _live.append(pkg)
    return pkg


def cleanup_all():
    while _live:
        _live.pop().cleanup()


import atexit  # noqa: E402

_owner_pid = os.getpid()


def _atexit():
    # scratch packages are removed by the process that generated them (not by forked workers)
    if os.getpid() == _owner_pid:
        cleanup_all()


atexit.register(_atexit)


# ---- schematic wire domains -------------------------------------------------------------------------------------------

from .libmodels import Domains  # noqa: E402


def scalar_domain(schema):
    """(JV term -> z3 Bool) for scalar / enum / const / any schemas, or None if the schema is structured"""
    Z = Sorts.get()
    D = Domains.get()
    r, a = Z.rec, Z.acc
    nullable = bool(schema.get("nullable"))
    t = schema.get("type")
    fmt = schema.get("format")

    def wrap(pred):
        if nullable:
            return lambda x: z3.Or(r["none"](x), pred(x))
        return pred
    if "enum" in schema:
        vals = [v for v in schema["enum"] if v is not None]
        has_null = any(v is None for v in schema["enum"]) or nullable

        def pred(x, vals=vals, has_null=has_null):
            alts = []
            for v in vals:
                if isinstance(v, str):
                    alts.append(z3.And(r["str"](x), a["s"](x) == z3.StringVal(v)))
                else:
                    alts.append(z3.And(r["int"](x), a["i"](x) == v))
            if has_null:
                alts.append(r["none"](x))
            return z3.Or(*alts)
        return pred
    if "const" in schema:
        v = schema["const"]
        if isinstance(v, str):
            return wrap(lambda x: z3.And(r["str"](x), a["s"](x) == z3.StringVal(v)))
        if isinstance(v, bool):
            return wrap(lambda x: z3.And(r["bool"](x), a["b"](x) == v))
        return wrap(lambda x: z3.And(r["int"](x), a["i"](x) == v))
    if t == "string":
        if fmt == "date":
            return wrap(lambda x: z3.And(r["str"](x), D.canon_date(a["s"](x))))
        if fmt == "date-time":
            return wrap(lambda x: z3.And(r["str"](x), D.canon_datetime(a["s"](x))))
        if fmt == "uuid":
            return wrap(lambda x: z3.And(r["str"](x), D.canon_uuid(a["s"](x))))
        return wrap(lambda x: r["str"](x))
    if t == "integer":
        return wrap(lambda x: r["int"](x))
    if t == "number":
        return wrap(lambda x: z3.Or(r["int"](x), z3.And(r["flt"](x), a["fk"](x) == Z.fk["fin"])))
    if t == "boolean":
        return wrap(lambda x: r["bool"](x))
    if t == "null":
        return lambda x: r["none"](x)
    if t is None and not any(k in schema for k in ("properties", "allOf", "oneOf", "anyOf", "items", "$ref")):
        # any JSON value
        return lambda x: z3.Or(r["none"](x), r["bool"](x), r["int"](x), z3.And(r["flt"](x), a["fk"](x) == Z.fk["fin"]),
                               r["str"](x), r["list"](x), r["dict"](x))
    return None


def jv_domain(schema, components, depth=0):
    """(JV term -> z3 Bool): the term is a valid instance of the schema.  Scalars/enums/consts/any exactly; objects by
    their declared properties (undeclared keys unconstrained); arrays and unions inside are not expressible without
    quantifiers -> None (the caller falls back to bounded concrete structure)."""
    Z = Sorts.get()
    while "$ref" in schema:
        schema = components[schema["$ref"].rsplit("/", 1)[1]]
    d = scalar_domain(schema)
    if d is not None:
        return d
    if (schema.get("type") == "object" or "properties" in schema) and "allOf" not in schema and depth < 2:
        subs = {}
        for name, ps in schema.get("properties", {}).items():
            sd = jv_domain(ps, components, depth + 1)
            if sd is None:
                return None
            subs[name] = sd
        req = set(schema.get("required", []))
        nullable = bool(schema.get("nullable"))

        closed = schema.get("additionalProperties", True) is False

        def pred(x, subs=subs, req=req, nullable=nullable, closed=closed):
            m = Z.acc["m"](x)
            cs = [Z.rec["dict"](x)]
            for name, sd in subs.items():
                v = z3.Select(m, z3.StringVal(name))
                if name in req:
                    cs.append(z3.And(z3.Not(Z.rec["absent"](v)), sd(v)))
                else:
                    cs.append(z3.Or(Z.rec["absent"](v), sd(v)))
            if closed:
                # additionalProperties: false  ==>  no undeclared key: the map equals its restriction to declared keys
                only = z3.K(z3.StringSort(), Z.con["absent"]())
                for name in subs:
                    only = z3.Store(only, z3.StringVal(name), z3.Select(m, z3.StringVal(name)))
                cs.append(m == only)
            p = z3.And(*cs)
            return z3.Or(Z.rec["none"](x), p) if nullable else p
        return pred
    return None


class WireBuilder:
    """builds a symbolic JSON instance of a schema of the schematic document (the harness authored the document, so
    it knows every schema); structured values are python-side SDict/SSeq, leaves are JV terms assumed in their domain"""

    def __init__(self, I, components):
        self.I = I
        self.components = components
        self.n = itertools.count()

    def resolve(self, schema):
        while "$ref" in schema:
            schema = self.components[schema["$ref"].rsplit("/", 1)[1]]
        if "allOf" in schema and len(schema["allOf"]) == 1 and len(schema) <= 2:
            return self.resolve(schema["allOf"][0])
        return schema

    def value(self, schema, hint="v", depth=0):
        I, Z = self.I, self.I.Z
        schema = self.resolve(schema)
        dom = scalar_domain(schema)
        if dom is not None:
            x = z3.Const(f"{hint}_{next(self.n)}", Z.JV)
            I.assume(dom(x))
            return SV(x)
        if "oneOf" in schema or "anyOf" in schema:
            members = schema.get("oneOf") or schema.get("anyOf")
            k = self.choice(len(members))
            v = self.value(members[k], hint, depth)
            self.last_union_choice = k
            return v
        if isinstance(schema.get("type"), list):
            ts = schema["type"]
            k = self.choice(len(ts))
            return self.value({**{kk: vv for kk, vv in schema.items() if kk != "type"}, "type": ts[k]}, hint, depth)
        if schema.get("type") == "array":
            if schema.get("nullable") and self.I.branch_free():
                return None
            item = self.resolve(schema["items"])
            idom = jv_domain(item, self.components)
            if idom is None:
                # structured items: a list of known small length (bounded; stated in the evidence)
                n = self.choice(3)
                return SList([self.value(item, hint + "_item", depth + 1) for _ in range(n)])
            base = z3.Const(f"{hint}_items_{next(self.n)}", z3.SeqSort(Z.JV))
            return SSeq(base, dom=idom)
        if schema.get("type") == "object" or "properties" in schema or "allOf" in schema:
            if schema.get("nullable") and self.I.branch_free():
                return None
            return self.object(schema, hint, depth)
        raise Unsupported(f"schematic schema not understood: {schema}")

    def choice(self, n):
        for i in range(n - 1):
            if self.I.branch_free():
                return i
        return n - 1

    def all_properties(self, schema):
        props, req = {}, set()
        for sub in schema.get("allOf", []):
            p, r = self.all_properties(self.resolve(sub))
            props.update(p)
            req |= r
        props.update(schema.get("properties", {}))
        req |= set(schema.get("required", []))
        return props, req

    def object(self, schema, hint, depth):
        I, Z = self.I, self.I.Z
        props, req = self.all_properties(schema)
        d = SDict()
        for name, ps in props.items():
            if name in req or I.branch_free():
                d.items[name] = self.value(ps, hint + "_" + "".join(c for c in name if c.isalnum()), depth + 1)
        ap = schema.get("additionalProperties", True)
        if ap is not False:
            rest = z3.Const(f"{hint}_rest_{next(self.n)}", z3.ArraySort(z3.StringSort(), Z.JV))
            for name in props:
                I.assume(Z.rec["absent"](z3.Select(rest, z3.StringVal(name))))
            k = z3.Const(f"{hint}_anykey_{next(self.n)}", z3.StringSort())
            d.rest = rest
            aps = self.resolve(ap) if isinstance(ap, dict) else {}
            d.rest_dom = jv_domain(aps, self.components)
        return d


def plain_json(I, v, _depth=0):
    if _depth > 60:
        from .symexec import CyclicValue
        raise CyclicValue("value nested deeper than 60 levels")
    return _plain_json(I, v, _depth)


def _plain_json(I, v, _depth):
    """z3 Bool / python bool: the value is plain JSON data all the way down (for python-side structures), top-level
    for JV terms (their sub-terms come from the input, which is JSON by assumption, or are checked element-wise)"""
    Z = I.Z
    if v is None or isinstance(v, (bool, int, str)):
        return True
    from .symexec import SBool, SFloat, SInt, STuple
    if isinstance(v, (SBool, SInt, SStr)):
        return True
    if isinstance(v, SFloat):
        return True
    if isinstance(v, SV):
        return I.is_plain_json(v.t)
    if isinstance(v, STuple):
        return False
    if isinstance(v, SList):
        cs = [plain_json(I, x, _depth + 1) for x in v.items]
        if any(c is False for c in cs):
            return False
        cs = [c for c in cs if c is not True]
        return z3.And(*cs) if cs else True
    if isinstance(v, SDict):
        cs = [plain_json(I, x, _depth + 1) for x in v.items.values()]
        if v.rest is not None and v.rest_maps:
            I.rest_term(v)
            cs.append(getattr(v, "_rest_plain", True))
        if any(c is False for c in cs) or not all(isinstance(k, str) for k in v.items):
            return False
        cs = [c for c in cs if c is not True]
        return z3.And(*cs) if cs else True
    if isinstance(v, SSeq):
        I.seq_term(v)
        return getattr(v, "_elem_plain", True)
    return False
