"""Run-time contract checks over exhaustively enumerated small documents (bounded stand-ins, see pyvc.bounded).

Every check runs the REAL parser (GeneratorData.from_dict of the tree on PYTHONPATH) on a small document built from the
case and evaluates the post-conditions of the functions it exercises on the resulting records.
"""
from __future__ import annotations

import itertools
import keyword
import signal

CFG = None


def _config(**kw):
    from openapi_python_client.config import Config, ConfigFile, MetaType
    from pathlib import Path
    return Config.from_sources(ConfigFile(post_hooks=[], **kw), MetaType.NONE, document_source=Path("doc.json"),
                               file_encoding="utf-8", overwrite=True, output_path=None)


class _Timeout(Exception):
    pass


def _parse(doc, seconds=10, **cfg):
    """GeneratorData | GeneratorError, or raises; guarded by an alarm (a hang is a contract violation)"""
    from openapi_python_client.parser.openapi import GeneratorData

    def handler(signum, frame):
        raise _Timeout()
    old = signal.signal(signal.SIGALRM, handler)
    signal.setitimer(signal.ITIMER_REAL, seconds)
    try:
        return GeneratorData.from_dict(doc, config=_config(**cfg))
    finally:
        signal.setitimer(signal.ITIMER_REAL, 0)
        signal.signal(signal.SIGALRM, old)


def _base(paths=None, schemas=None, **components):
    comps = dict(components)
    if schemas is not None:
        comps["schemas"] = schemas
    return {"openapi": "3.0.3", "info": {"title": "t", "version": "1"}, "paths": paths or {}, "components": comps}


def _all_errors(data):
    out = list(data.errors)
    for coll in data.endpoint_collections_by_tag.values():
        out.extend(coll.parse_errors)
    return out


# ---- 1. parameter name conflicts (Endpoint.add_parameters / _check_parameters_for_conflicts) ---------------------------

PARAM_NAMES = ["client", "Client", "url", "client_query", "clientQuery", "client_header", "a", "A", "a_b", "aB", "url_path", "URL"]
LOCS = ["query", "header", "cookie", "path"]


def _rename_closure():
    """names closed under the renaming operators of _check_parameters_for_conflicts (suffix `_<location>`), two levels"""
    base = ["a-b", "a_b", "client"]
    sfx = ["query", "header"]
    lvl1 = [f"{b.replace('-', '_')}_{s}" for b in ("a_b", "client") for s in sfx]
    lvl2 = [f"{n}_{s}" for n in lvl1 for s in sfx]
    return base + lvl1 + lvl2


def param_conflicts_cases(tier):
    pairs = [(n, l) for n in PARAM_NAMES for l in LOCS]
    out = [[p] for p in pairs]
    out += [list(c) for c in itertools.permutations(pairs, 2)]
    # four parameters over a name universe closed under the renaming operators (a rename can collide with a declared name
    # only if that name is in the universe): regression family of the repaired defect first, then sampled / all
    out += [[("a-b", l1), ("a_b_" + l2, l1), (f"a_b_{l2}_{l2}", l1), ("a_b", l2)]
            for l1 in LOCS for l2 in LOCS if l1 != l2]
    import random
    cpairs = [(n, l) for n in _rename_closure() for l in ("query", "header")]
    quads = list(itertools.permutations(cpairs, 4))
    out += [list(c) for c in (random.Random(11).sample(quads, 4000) if tier != "thorough" else random.Random(11).sample(quads, 120000))]
    if tier == "thorough":
        import random
        rnd = random.Random(7)
        trip = list(itertools.permutations(pairs, 3))
        out += [list(c) for c in rnd.sample(trip, 30000)]
    else:
        import random
        rnd = random.Random(7)
        out += [list(rnd.sample(pairs, 3)) for _ in range(3000)]
    return out


def param_conflicts(case):
    params = []
    path = "/x"
    for name, loc in case:
        params.append({"name": name, "in": loc, "required": True if loc == "path" else False, "schema": {"type": "string"}})
        if loc == "path":
            path += "/{" + name + "}"
    doc = _base({path: {"get": {"operationId": "op", "parameters": params, "responses": {"200": {"description": ""}}}}})
    try:
        data = _parse(doc)
    except _Timeout:
        return "parser did not terminate within 10 s"
    except BaseException as e:  # noqa
        return f"parser raised {type(e).__name__}: {e}"
    if not hasattr(data, "endpoint_collections_by_tag"):
        return f"document rejected: {data}"
    eps = [e for c in data.endpoint_collections_by_tag.values() for e in c.endpoints]
    errs = _all_errors(data)
    if not eps:
        return None if errs else "operation dropped without a diagnostic"
    ep = eps[0]
    allp = [(l, p) for l, ps in (("path", ep.path_parameters), ("query", ep.query_parameters),
                                  ("header", ep.header_parameters), ("cookie", ep.cookie_parameters)) for p in ps]
    names = [str(p.python_name) for _, p in allp]
    if len(set(names)) != len(names):
        return f"two parameters share the python name: {sorted(names)}"
    for n in names:
        if n in ("client", "url"):
            return f"a parameter is named {n} (reserved argument of the generated function)"
        if not n.isidentifier() or keyword.iskeyword(n):
            return f"python name {n!r} is not an identifier"
    got = sorted((p.name, l) for l, p in allp)
    if got != sorted((n, l) for n, l in case):
        return f"declared parameters {sorted(case)} but the endpoint has {got} and no diagnostic explains the difference" \
            if not errs else None
    return None


# ---- 2. model attributes (_process_properties / _add_if_no_conflict / required sets) -----------------------------------

PROP_NAMES = ["a", "A", "a_b", "aB", "a-b", "class", "b"]


def model_properties_cases(tier):
    out = []
    names2 = list(itertools.permutations(PROP_NAMES, 2))
    for names in [(n,) for n in PROP_NAMES] + names2:
        for req in ([], [names[0]], list(names)):
            out.append({"shape": "plain", "names": list(names), "required": req})
    # three (thorough: four) properties over names whose snake-case forms collide and whose raw-name fallbacks collide
    # again (the renamed property must be re-checked against the properties already passed)
    tricky = ["foo$Bar", "foo_bar", "fooBar", "foo-bar", "FooBar", "foo bar", "foobar"]
    for names in itertools.permutations(tricky, 3):
        out.append({"shape": "plain", "names": list(names), "required": []})
    if tier == "thorough":
        for names in itertools.permutations(tricky, 4):
            out.append({"shape": "plain", "names": list(names), "required": []})
    # allOf shapes: parent by $ref + inline member; required lists on members with and without properties
    for pn in PROP_NAMES[:4]:
        for cn in PROP_NAMES[:5]:
            for variant in ("inline-required-only", "inline-with-props", "ref-then-required-only", "child-first",
                            "ref-parent-prop-required-by-child"):
                out.append({"shape": "allof", "parent_prop": pn, "child_prop": cn, "variant": variant})
    # two properties (possibly colliding after snake-casing) and a later allOf member that re-declares one of them
    for n1, n2 in itertools.permutations(PROP_NAMES, 2):
        for redo in (n1, n2):
            out.append({"shape": "redeclare", "n1": n1, "n2": n2, "redo": redo})
    return out


def _model_doc(case):
    s = {"type": "string"}
    if case["shape"] == "plain":
        return _base(schemas={"M": {"type": "object", "properties": {n: s for n in case["names"]}, "required": case["required"]}}), \
            {"M": {n: (n in case["required"]) for n in case["names"]}}
    if case["shape"] == "redeclare":
        child = {"allOf": [{"type": "object", "properties": {case["n1"]: s, case["n2"]: s}},
                           {"type": "object", "properties": {case["redo"]: {"type": "string", "format": "date-time"}}}]}
        return _base(schemas={"Child": child}), {"Child": {case["n1"]: False, case["n2"]: False}}
    pn, cn, v = case["parent_prop"], case["child_prop"], case["variant"]
    parent = {"type": "object", "properties": {pn: s, "other": {"type": "integer"}}}
    expect = {pn: False, "other": False}
    if v == "inline-required-only":
        child = {"allOf": [{"type": "object", "properties": {pn: s, "other": {"type": "integer"}}}, {"required": [pn]}]}
        expect = {pn: True, "other": False}
    elif v == "inline-with-props":
        child = {"allOf": [{"type": "object", "properties": {pn: s}}, {"type": "object", "properties": {cn: s}, "required": [cn]}]}
        expect = {pn: False, cn: True} if cn != pn else {pn: True}
    elif v == "ref-then-required-only":
        child = {"allOf": [{"$ref": "#/components/schemas/Parent"}, {"type": "object", "properties": {cn: s}, "required": [cn]}]}
        expect = {pn: False, "other": False}
        expect[cn] = True
    elif v == "ref-parent-prop-required-by-child":
        child = {"allOf": [{"$ref": "#/components/schemas/Parent"}, {"required": [pn]}]}
        expect = {pn: True, "other": False}
    else:
        child = {"allOf": [{"$ref": "#/components/schemas/Parent"}, {"type": "object", "properties": {cn: {"type": "string"}}}]}
        expect = {pn: False, "other": False}
        expect.setdefault(cn, False)
    if v == "child-first":
        schemas = {"Child": child, "Parent": parent}
    else:
        schemas = {"Parent": parent, "Child": child}
    return _base(schemas=schemas), {"Child": expect}


def model_properties(case):
    doc, expect = _model_doc(case)
    try:
        data = _parse(doc)
    except _Timeout:
        return "parser did not terminate within 10 s"
    except BaseException as e:  # noqa
        return f"parser raised {type(e).__name__}: {e}"
    if not hasattr(data, "models"):
        return f"document rejected: {data}"
    models = {m.class_info.name: m for m in list(data.models)}
    for cname, props in expect.items():
        m = models.get(cname)
        if m is None:
            if not data.errors:
                return f"schema {cname} dropped without a diagnostic"
            continue
        got = {p.name: p.required for p in (m.required_properties or []) + (m.optional_properties or [])}
        if set(got) != set(props):
            return f"{cname}: declared properties {sorted(props)} but the class has {sorted(got)}"
        for n, r in props.items():
            if got[n] != r:
                return f"{cname}.{n}: required should be {r} (a member requires it: {r}) but is {got[n]}"
        pyn = [str(p.python_name) for p in (m.required_properties or []) + (m.optional_properties or [])]
        if len(set(pyn)) != len(pyn):
            return f"{cname}: two attributes share the python name: {sorted(pyn)}"
    return None


# ---- 3. enum members (EnumProperty.values_from_list / build) -------------------------------------------------------------

ENUM_VALUES = ["a", "A", "a b", "a-b", "1st", "", "value 1", "2nd", "VALUE_1", "b", "a!", "a?"]


def enum_values_cases(tier):
    out = [[v] for v in ENUM_VALUES]
    out += [list(c) for c in itertools.permutations(ENUM_VALUES, 2)]
    if tier == "thorough":
        out += [list(c) for c in itertools.permutations(ENUM_VALUES, 3)]
    else:
        out += [list(c) for c in itertools.permutations(ENUM_VALUES[:7], 3)]
    return out


def enum_values(case):
    doc = _base(schemas={"E": {"type": "string", "enum": case}})
    try:
        data = _parse(doc)
    except _Timeout:
        return "parser did not terminate within 10 s"
    except BaseException as e:  # noqa
        return f"parser raised {type(e).__name__}: {e}"     # a diagnostic, not an exception (C06)
    if not hasattr(data, "enums"):
        return f"document rejected: {data}"
    enums = list(data.enums)
    if not enums:
        return None if data.errors else "enum dropped without a diagnostic"
    e = enums[0]
    vals = list(e.values.values()) if isinstance(e.values, dict) else list(e.values)
    want = [v.replace('"', '\\"') for v in case]
    if sorted(vals) != sorted(want):
        return f"listed values {case} but the generated enum has members for {vals} (a value was merged or lost without a diagnostic)"
    if isinstance(e.values, dict):
        for k in e.values:
            if not k.isidentifier() or keyword.iskeyword(k):
                return f"member name {k!r} is not an identifier"
    return None


# ---- 4. removal closure / termination (_process_model_errors, _propogate_removal) -----------------------------------------

def removal_closure_cases(tier):
    """graphs over nodes A, B, C (+ Bad): each node refers to a subset of the others via property / array items / union"""
    nodes = ["A", "B", "C"]
    targets = nodes + ["Bad"]
    kinds = ["prop", "array", "union", "nested", "nested2"]      # nested: the reference sits inside an inline object (depth 1 / 2)
    out = []
    opts = []
    for n in nodes:
        o = [()]
        for t in targets:
            for k in kinds:
                o.append(((t, k),))
        for t1, t2 in itertools.combinations(targets, 2):
            o.append(((t1, "prop"), (t2, "prop")))
            o.append(((t2, "prop"), (t1, "prop")))
        opts.append(o)
    import random
    rnd = random.Random(3)
    allc = list(itertools.product(*opts))
    if tier != "thorough":
        allc = rnd.sample(allc, 2500)
    else:
        allc = rnd.sample(allc, min(len(allc), 20000))
    for combo in allc:
        for bad in ("array-no-items", "dangling-prop"):
            out.append({"edges": {n: list(map(list, e)) for n, e in zip(nodes, combo)}, "bad": bad})
    # a schema that fails only in the SECOND stage (model processing): composed of itself / of something that is not there;
    # declared after or before the schemas that use it
    for combo in allc[:400 if tier != "thorough" else 4000]:
        for bad in ("self-allof", "allof-dangling"):
            for first in (False, True):
                out.append({"edges": {n: list(map(list, e)) for n, e in zip(nodes, combo)}, "bad": bad, "bad_first": first})
    # class names that extend the broken schema's name (BadA, BadList ...): removal must go by identity, not by name prefix
    for combo in allc[400:700 if tier != "thorough" else 3400]:
        for bad in ("allof-dangling", "dangling-prop"):
            out.append({"edges": {n: list(map(list, e)) for n, e in zip(nodes, combo)}, "bad": bad, "prefix_names": True})
    return out


def removal_closure(case):
    if case.get("prefix_names"):
        ren = {"A": "BadA", "B": "BadList", "C": "Bad2", "Bad": "Bad"}
        inner = dict(case, prefix_names=False, rename=ren)
        return removal_closure(inner)
    ren = case.get("rename") or {}

    def ref(t):
        return {"$ref": f"#/components/schemas/{ren.get(t, t)}"}
    schemas = {}
    for n, edges in case["edges"].items():
        props = {"id": {"type": "integer"}}
        for i, (t, k) in enumerate(edges):
            if k == "prop":
                props[f"p{i}"] = ref(t)
            elif k == "array":
                props[f"p{i}"] = {"type": "array", "items": ref(t)}
            elif k == "nested":
                props[f"p{i}"] = {"type": "object", "properties": {"inner": ref(t)}}
            elif k == "nested2":
                props[f"p{i}"] = {"type": "array", "items": {"type": "object", "properties": {"deep": {"type": "object", "properties": {"inner": ref(t)}}}}}
            else:
                props[f"p{i}"] = {"oneOf": [ref(t), {"type": "string"}]}
        schemas[n] = {"type": "object", "properties": props}
    if ren:
        schemas = {ren.get(k, k): v for k, v in schemas.items()}
    if case["bad"] == "array-no-items":
        schemas["Bad"] = {"type": "object", "properties": {"x": {"type": "array"}}}
    elif case["bad"] == "self-allof":
        schemas["Bad"] = {"allOf": [ref("Bad"), {"type": "object", "properties": {"x": {"type": "integer"}}}]}
    elif case["bad"] == "allof-dangling":
        schemas["Bad"] = {"allOf": [ref("Nope"), {"type": "object", "properties": {"x": {"type": "integer"}}}]}
    else:
        schemas["Bad"] = {"type": "object", "properties": {"x": {"$ref": "#/components/schemas/Nope"}}}
    if case.get("bad_first"):
        schemas = {"Bad": schemas["Bad"], **{k: v for k, v in schemas.items() if k != "Bad"}}
    doc = _base(schemas=schemas)
    try:
        data = _parse(doc)
    except _Timeout:
        return "parser did not terminate within 10 s"
    except BaseException as e:  # noqa
        return f"parser raised {type(e).__name__}: {str(e)[:100]}"
    if not hasattr(data, "models"):
        return f"document rejected: {data}"
    all_models = list(data.models)
    all_enums = list(data.enums)
    back = {v: k for k, v in ren.items()}
    alive = {back.get(str(m.class_info.name), str(m.class_info.name)) for m in all_models}
    # who depends (transitively) on Bad?
    dep = {n: {t for t, _ in e} for n, e in case["edges"].items()}
    tainted = {"Bad"}
    changed = True
    while changed:
        changed = False
        for n, ts in dep.items():
            if n not in tainted and ts & tainted:
                tainted.add(n)
                changed = True
    for n in case["edges"]:
        if n not in tainted and n not in alive:
            return f"{n} does not depend on the bad schema but was removed (alive: {sorted(alive)})"
    if "Bad" in alive:
        return "the bad schema survived"
    # nothing that remains refers to anything removed
    from openapi_python_client.parser.properties import ModelProperty
    names = {m.class_info.name for m in all_models} | {e.class_info.name for e in all_enums}

    def refs(p, seen=0):
        out = set()
        if isinstance(p, ModelProperty):
            out.add(p.class_info.name)
        for attr in ("inner_property",):
            if hasattr(p, attr):
                out |= refs(getattr(p, attr))
        for q in getattr(p, "inner_properties", []) or []:
            out |= refs(q)
        return out
    for m in all_models:
        for p in (m.required_properties or []) + (m.optional_properties or []):
            for r in refs(p):
                if r not in names:
                    return f"{m.class_info.name}.{p.name} refers to {r}, which was removed (alive: {sorted(alive)})"
    if not data.errors:
        return "the bad schema produced no diagnostic"
    return None


# ---- 5. request body reference chains (bodies._resolve_reference) ---------------------------------------------------------

def body_refs_cases(tier):
    names = ["B1", "B2", "B3"]
    targets = names + ["Missing", None]
    out = []
    for combo in itertools.product(targets, repeat=3):
        for start in names + ["Missing"]:
            out.append({"bodies": dict(zip(names, combo)), "start": start})
    # the same graphs with component names that need percent-encoding inside a reference ("B 1" referenced as B%201):
    # whatever the resolver makes of the escapes, it must terminate with a body or a diagnostic
    for combo in itertools.product(targets, repeat=3):
        for start in names + ["Missing"]:
            out.append({"bodies": dict(zip(names, combo)), "start": start, "encoded": True})
    return out


def body_refs(case):
    inline = {"content": {"application/json": {"schema": {"type": "string"}}}}
    rb = {}
    enc = bool(case.get("encoded"))
    key = (lambda n: n[0] + " " + n[1:]) if enc else (lambda n: n)
    ref = (lambda n: n[0] + "%20" + n[1:]) if enc else (lambda n: n)
    for n, t in case["bodies"].items():
        rb[key(n)] = inline if t is None else {"$ref": f"#/components/requestBodies/{ref(t)}"}
    doc = _base({"/x": {"post": {"operationId": "op", "requestBody": {"$ref": f"#/components/requestBodies/{ref(case['start'])}"},
                                 "responses": {"200": {"description": ""}}}}}, requestBodies=rb)
    try:
        data = _parse(doc, seconds=5)
    except _Timeout:
        return "parser did not terminate within 5 s (reference cycle?)"
    except BaseException as e:  # noqa
        return f"parser raised {type(e).__name__}: {str(e)[:100]}"
    if not hasattr(data, "endpoint_collections_by_tag"):
        return f"document rejected: {data}"
    eps = [e for c in data.endpoint_collections_by_tag.values() for e in c.endpoints]
    if enc:
        if not (eps and eps[0].bodies) and not _all_errors(data):
            return "body reference with percent-escapes: neither a body nor a diagnostic"
        return None
    # follow the chain by hand
    seen, cur = set(), case["start"]
    while True:
        if cur == "Missing" or cur not in case["bodies"] or cur in seen:
            ok = False
            break
        seen.add(cur)
        nxt = case["bodies"][cur]
        if nxt is None:
            ok = True
            break
        cur = nxt
    if ok:
        if not eps or not eps[0].bodies:
            return "the reference chain ends in an inline body, but the endpoint has no body"
    else:
        if eps and eps[0].bodies:
            return "dangling/circular body reference, but a body was generated"
        if not _all_errors(data):
            return "dangling/circular body reference without a diagnostic"
    return None


# ---- 6. request media types (bodies.body_from_data accounting) -----------------------------------------------------------

MEDIA = [("application/json", "ok"), ("application/json", "bad"), ("text/csv", "unsupported"),
         ("application/x-www-form-urlencoded", "ok"), ("application/x-www-form-urlencoded", "bad"),
         ("multipart/form-data", "ok"), ("application/octet-stream", "ok"), ("application/vnd.x+json", "bad")]


def body_media_cases(tier):
    out = []
    for k in (1, 2, 3):
        for combo in itertools.permutations(MEDIA, k):
            if len({c[0] for c in combo}) == k:
                out.append([list(c) for c in combo])
    return out


def body_media(case):
    content = {}
    for ct, kind in case:
        if kind == "bad":
            schema = {"$ref": "#/components/schemas/Nope"}
        elif ct == "application/octet-stream":
            schema = {"type": "string", "format": "binary"}
        else:
            schema = {"type": "object", "properties": {"a": {"type": "string"}}}
        content[ct] = {"schema": schema}
    doc = _base({"/x": {"post": {"operationId": "op", "requestBody": {"content": content},
                                 "responses": {"200": {"description": ""}}}}})
    try:
        data = _parse(doc)
    except _Timeout:
        return "parser did not terminate"
    except BaseException as e:  # noqa
        return f"parser raised {type(e).__name__}: {str(e)[:100]}"
    eps = [e for c in data.endpoint_collections_by_tag.values() for e in c.endpoints]
    errs = _all_errors(data)
    good = [ct for ct, kind in case if kind == "ok"]
    rest = [ct for ct, kind in case if kind != "ok"]
    if not good:
        if eps:
            return "no media type is usable but the operation was generated"
        return None if errs else "operation dropped without a diagnostic"
    if not eps:
        return "a usable media type exists but the operation was dropped"
    ep = eps[0]
    got = [b.content_type for b in ep.bodies]
    if sorted(got) != sorted(good):
        return f"usable media types {good} but the function handles {got}"
    text = " ".join((e.detail or "") + " " + (e.header or "") for e in list(ep.errors) + errs)
    if len(ep.errors) + len(errs) < len(rest):
        return f"media types {rest} are neither handled nor all named in a diagnostic ({len(ep.errors) + len(errs)} diagnostics)"
    return None


# ---- 7. schema fixpoint: order independence of the accepted set (bounded C12(b) / C15 parents-first) ------------------------

def schema_order_cases(tier):
    s = {"type": "string"}
    base = {
        "Pet": {"allOf": [{"$ref": "#/components/schemas/NewPet"}, {"type": "object", "properties": {"id": {"type": "integer"}}}]},
        "NewPet": {"type": "object", "properties": {"name": s, "tag": {"$ref": "#/components/schemas/Tag"}}},
        "Tag": {"type": "string", "enum": ["x", "y"]},
        "Owner": {"type": "object", "properties": {"pets": {"type": "array", "items": {"$ref": "#/components/schemas/Pet"}},
                                                   "friend": {"$ref": "#/components/schemas/Owner"}}},
    }
    base2 = {
        "Error": {"type": "object", "properties": {"m": s}},
        "ApiError": {"allOf": [{"$ref": "#/components/schemas/Error"}, {"type": "object", "properties": {"code": {"type": "integer"}}}]},
        "BaseApiError": {"allOf": [{"$ref": "#/components/schemas/ApiError"}]},
        "Wrapper": {"type": "object", "properties": {"e": {"$ref": "#/components/schemas/BaseApiError"}}},
    }
    out = []
    for name, b in (("pets", base), ("errors", base2), ("unions", _UNION_FAMILY), ("case-tied-names", _CASE_FAMILY)):
        for perm in itertools.permutations(list(b)):
            out.append({"family": name, "order": list(perm)})
    return out


# class names that differ only in case (and one unrelated): sorted output must not fall back on document order for ties
_CASE_FAMILY = {
    "IPhone": {"type": "object", "properties": {"a": {"type": "string"}, "other": {"$ref": "#/components/schemas/Iphone"}}},
    "Iphone": {"type": "object", "properties": {"b": {"type": "integer"}}},
    "Tablet": {"type": "object", "properties": {"both": {"oneOf": [{"$ref": "#/components/schemas/IPhone"}, {"$ref": "#/components/schemas/Iphone"}]}}},
    "Mode": {"type": "string", "enum": ["x", "y"]},
}
_CASE_TREES = {}


# forward references below the top level of a component (array member of a union, nested union, additionalProperties)
_UNION_FAMILY = {
    "Batch": {"oneOf": [{"type": "array", "items": {"$ref": "#/components/schemas/Item"}}, {"type": "string"}]},
    "Item": {"type": "object", "properties": {"n": {"type": "integer"}}},
    "Holder": {"type": "object", "properties": {"b": {"$ref": "#/components/schemas/Batch"}},
               "additionalProperties": {"anyOf": [{"$ref": "#/components/schemas/Item"}, {"type": "integer"}]}},
    "Alt": {"anyOf": [{"type": "array", "items": {"oneOf": [{"$ref": "#/components/schemas/Item"}, {"type": "integer"}]}},
                      {"$ref": "#/components/schemas/Item"}]},
}


_FAMILIES = None


def schema_order(case):
    global _FAMILIES
    s = {"type": "string"}
    fam = {
        "pets": {
            "Pet": {"allOf": [{"$ref": "#/components/schemas/NewPet"}, {"type": "object", "properties": {"id": {"type": "integer"}}}]},
            "NewPet": {"type": "object", "properties": {"name": s, "tag": {"$ref": "#/components/schemas/Tag"}}},
            "Tag": {"type": "string", "enum": ["x", "y"]},
            "Owner": {"type": "object", "properties": {"pets": {"type": "array", "items": {"$ref": "#/components/schemas/Pet"}},
                                                       "friend": {"$ref": "#/components/schemas/Owner"}}}},
        "errors": {
            "Error": {"type": "object", "properties": {"m": s}},
            "ApiError": {"allOf": [{"$ref": "#/components/schemas/Error"}, {"type": "object", "properties": {"code": {"type": "integer"}}}]},
            "BaseApiError": {"allOf": [{"$ref": "#/components/schemas/ApiError"}]},
            "Wrapper": {"type": "object", "properties": {"e": {"$ref": "#/components/schemas/BaseApiError"}}}},
        "unions": _UNION_FAMILY,
        "case-tied-names": _CASE_FAMILY,
    }[case["family"]]
    if case["family"] == "case-tied-names":
        # compared byte for byte (whole tree), against the declaration order
        if "base" not in _CASE_TREES:
            _CASE_TREES["base"] = _tree(_base(schemas=dict(fam)))
        f0, e0 = _CASE_TREES["base"]
        f1, e1 = _tree(_base(schemas={k: fam[k] for k in case["order"]}))
        if e0 or e1:
            return f"order {case['order']}: diagnostics for a valid document: {[(e.header, (e.detail or '')[:60]) for e in (e0 or e1)][:1]}"
        diff = sorted(k for k in set(f0) | set(f1) if f0.get(k) != f1.get(k))
        return f"order {case['order']}: generated files {diff[:3]} differ from the declaration order" if diff else None
    doc = _base(schemas={k: fam[k] for k in case["order"]})
    try:
        data = _parse(doc)
    except _Timeout:
        return "parser did not terminate"
    except BaseException as e:  # noqa
        return f"parser raised {type(e).__name__}: {str(e)[:100]}"
    models = list(data.models)
    got = sorted({m.class_info.name for m in models} | {e.class_info.name for e in data.enums})
    want = sorted(k for k in fam if k != "BaseApiError") if case["family"] == "errors" else sorted(fam)
    if case["family"] == "unions":
        want = ["Holder", "Item"]          # the two unions are not classes
        refs = sorted(str(k).split("/")[-1] for k in data.schemas.classes_by_reference) if hasattr(data, "schemas") else None
    # BaseApiError is a single-reference wrapper: no class of its own
    if data.errors:
        return f"order {case['order']}: diagnostics for a valid document: {[ (e.header, (e.detail or '')[:80]) for e in data.errors][:2]}"
    if got != want:
        return f"order {case['order']}: generated classes {got}, expected {want}"
    props = {m.class_info.name: sorted((p.name, p.required, type(p).__name__) for p in (m.required_properties or []) + (m.optional_properties or []))
             for m in models}
    sig = repr(sorted(props.items()))
    return None if sig == _expected_sig(case["family"], fam) else f"order {case['order']}: class contents differ from the declaration order: {sig}"


_SIGS = {}


def _expected_sig(family, fam):
    if family not in _SIGS:
        data = _parse(_base(schemas=dict(fam)))
        props = {m.class_info.name: sorted((p.name, p.required, type(p).__name__) for p in (m.required_properties or []) + (m.optional_properties or []))
                 for m in data.models}
        _SIGS[family] = repr(sorted(props.items()))
    return _SIGS[family]


# ---- native replay helper for cli.handle_errors -------------------------------------------------------------------------

def handle_errors_violation(levels, fail_on_warning):
    """None if the exit behaviour of cli.handle_errors matches C06 for the given diagnostic levels"""
    import contextlib
    import io
    import click
    from openapi_python_client.cli import handle_errors
    from openapi_python_client.parser.errors import ErrorLevel, GeneratorError
    errs = [GeneratorError(level=ErrorLevel.ERROR if l else ErrorLevel.WARNING, detail="d") for l in levels]
    want = any(levels) or (fail_on_warning and len(levels) > 0)
    with contextlib.redirect_stderr(io.StringIO()), contextlib.redirect_stdout(io.StringIO()):
        try:
            handle_errors(errs, fail_on_warning)
            got = False
        except click.exceptions.Exit as e:
            got = True
            if e.exit_code != 1:
                return f"exit code {e.exit_code}"
        except BaseException as e:  # noqa
            return f"raised {type(e).__name__}: {e}"
    return None if got == want else f"levels={levels} fail_on_warning={fail_on_warning}: exit={got}, expected {want}"


# ---- reference strings (parse_reference_path + the assumed urlparse fact of its contract; bounded C20) ------------------------

def reference_strings_cases(tier):
    frag = ["", "#", "#/components/schemas/Pet", "#/a b", "#%20"]
    pre = ["", "other.yaml", "./d/c.yaml", "/abs", "//example.com", "//example.com/x", "https://e.com/a", "http:", "?x=1", ";p", "a;p?q",
           "file:///x", "mailto:x", " ", "#", "\t", " \n"]
    return [{"ref": p + f} for p in pre for f in frag]


def _url_clean(s):
    """what urlsplit does to the text before splitting: leading C0 controls / spaces stripped, tab / CR / LF removed anywhere"""
    s = s.lstrip("".join(map(chr, range(0x21))))
    for b in "\t\r\n":
        s = s.replace(b, "")
    return s


def reference_strings(case):
    from urllib.parse import urlparse
    from openapi_python_client.parser.properties.schemas import parse_reference_path
    s = case["ref"]
    u = urlparse(s)
    c = _url_clean(s)
    # the library fact the deductive contract assumes
    if not (u.scheme or u.netloc or u.path or u.params or u.query) and c not in ("", "#" + u.fragment):
        return f"assumed urlparse fact is false for {s!r}: {u!r}"
    try:
        r = parse_reference_path(s)
    except BaseException as e:  # noqa
        return f"raised {type(e).__name__}: {e}"
    if isinstance(r, str) and c not in ("", "#" + r):
        return f"{s!r} accepted as the local reference {r!r}"
    return None


# ---- httpx boundary: does the real httpx accept the request the generated code builds, in both variants? (bounded C03) -------

def httpx_accepts_violation(kind="binary"):
    """calls the generated sync_detailed and asyncio_detailed against an httpx.MockTransport and compares what was sent"""
    import asyncio
    import io
    import httpx
    from . import fragments
    bodies = {
        "binary": ({"application/octet-stream": {"schema": {"type": "string", "format": "binary"}}}, "file"),
        "json": ({"application/json": {"schema": {"type": "object", "properties": {"k": {"type": "integer"}}}}}, "model"),
        "form": ({"application/x-www-form-urlencoded": {"schema": {"type": "object", "properties": {"k": {"type": "integer"}}}}}, "model"),
        "multipart": ({"multipart/form-data": {"schema": {"type": "object", "properties": {"k": {"type": "integer"}}}}}, "model"),
    }
    content, how = bodies[kind]
    doc = {"openapi": "3.0.3", "info": {"title": "t", "version": "1"}, "paths": {"/b": {"post": {
        "operationId": "up", "requestBody": {"content": content}, "responses": {"200": {"description": ""}}}}}}
    pkg = fragments.generate_package(doc)
    try:
        mod = pkg.module("api.default.up")
        client_mod = pkg.module("client")
        seen = []

        def handler(request):
            ct = request.headers.get("content-type", "")
            seen.append((request.method, request.url.path, ct.split(";")[0], len(request.content) > 0))
            return httpx.Response(200)

        def body():
            if how == "file":
                return pkg.module("types").File(payload=io.BytesIO(b"abc"))
            return pkg.module("models.up_body").UpBody.from_dict({"k": 1})
        out = {}
        try:
            mod.sync_detailed(client=client_mod.Client(base_url="http://x", httpx_args={"transport": httpx.MockTransport(handler)}), body=body())
            out["sync"] = seen[-1]
        except BaseException as e:  # noqa
            out["sync"] = f"raised {type(e).__name__}: {e}"

        async def go():
            c = client_mod.Client(base_url="http://x", httpx_args={"transport": httpx.MockTransport(handler)})
            return await mod.asyncio_detailed(client=c, body=body())
        try:
            asyncio.run(go())
            out["asyncio"] = seen[-1]
        except BaseException as e:  # noqa
            out["asyncio"] = f"raised {type(e).__name__}: {e}"
        if out["sync"] != out["asyncio"] or isinstance(out["sync"], str):
            return f"{kind} body: blocking variant -> {out['sync']!r}, asyncio variant -> {out['asyncio']!r}"
        return None
    finally:
        pkg.cleanup()


# ---- Endpoint.response_type: the annotation names every documented response type (bounded C11 / C04) --------------------------

def response_type_cases(tier):
    names = ["Any", "ModelA", "ModelB", "list['ModelA']", "str"]
    out = []
    for k in (0, 1, 2, 3):
        out += [{"types": list(c)} for c in itertools.product(names, repeat=k)]
    return out


def response_type(case):
    """the return annotation built for an operation admits the type of each of its documented responses"""
    import types
    from openapi_python_client.parser.openapi import Endpoint
    responses = [types.SimpleNamespace(prop=types.SimpleNamespace(get_type_string=(lambda t: (lambda **kw: t))(t))) for t in case["types"]]
    try:
        r = Endpoint.response_type(types.SimpleNamespace(responses=responses))
    except BaseException as e:  # noqa
        return f"raised {type(e).__name__}: {e}"
    if not case["types"]:
        return None if r == "Any" else f"no responses: {r!r}"
    members = [r]
    if r.startswith("Union[") and r.endswith("]"):
        members, depth, cur = [], 0, ""
        for ch in r[6:-1]:
            if ch == "," and depth == 0:
                members.append(cur.strip())
                cur = ""
                continue
            depth += ch == "["
            depth -= ch == "]"
            cur += ch
        members.append(cur.strip())
    if "Any" in members:
        return None                      # Any admits everything
    missing = [t for t in case["types"] if t not in members]
    return f"responses of types {case['types']} but the annotation is {r!r}: {missing} not admitted" if missing else None


# ---- component accounting of the schema fixpoints (bounded C07 / C06) ---------------------------------------------------------

_ACC = {
    "Good": {"type": "object", "properties": {"x": {"type": "string"}}},
    "Alias": {"allOf": [{"$ref": "#/components/schemas/Target"}]},                      # forward reference: needs a second round
    "Target": {"type": "object", "properties": {"t": {"type": "integer"}}},
    "Broken": {"type": "string", "enum": ["A", 1]},                                      # fails in every round
    "thing": {"type": "object", "properties": {"a": {"type": "string"}}},
    "Thing": {"type": "object", "properties": {"b": {"type": "string"}}},                # same class name as `thing`
    "Child": {"allOf": [{"$ref": "#/components/schemas/Target"}, {"type": "object", "properties": {"c": {"type": "string"}}}]},
    "UsesBroken": {"type": "object", "properties": {"b": {"$ref": "#/components/schemas/Broken"}}},
    "Color": {"type": "string", "enum": ["red", "green"]},
}


def schema_accounting_cases(tier):
    names = list(_ACC)
    out = []
    for k in (3, 4):
        combos = list(itertools.permutations(names, k))
        if k == 4 and tier != "thorough":
            import random
            combos = random.Random(5).sample(combos, 1500)
        out += [{"order": list(c)} for c in combos]
    return out


def schema_accounting(case):
    """every object / enum component is a generated class or is named by a diagnostic"""
    doc = _base(schemas={k: _ACC[k] for k in case["order"]})
    try:
        data = _parse(doc)
    except _Timeout:
        return "parser did not terminate"
    except BaseException as e:  # noqa
        return f"parser raised {type(e).__name__}: {str(e)[:100]}"
    from openapi_python_client import utils
    classes = {m.class_info.name for m in data.models} | {e.class_info.name for e in data.enums}
    texts = " ".join(f"{getattr(e, 'header', '')} {getattr(e, 'detail', '')}" for e in data.errors)
    present = set(case["order"])
    missing = []
    for name in case["order"]:
        if name == "Alias" and "Target" in present:
            continue                       # a single-reference wrapper has no class of its own: it IS Target
        cname = str(utils.ClassName(name, "field_"))
        twin = {"thing": "Thing", "Thing": "thing"}.get(name)
        if cname in classes and not (twin in present):
            continue
        if f"/components/schemas/{name}" in texts or f"schema {name}" in texts:
            continue
        if twin in present and cname in classes:
            # two components, one class: the other one must be named by a diagnostic
            if f"/components/schemas/{twin}" in texts or f"/components/schemas/{name}" in texts:
                continue
        missing.append(name)
    if missing:
        return f"components {missing} are neither generated (classes {sorted(classes)}) nor named by a diagnostic"
    return None


# ---- hash-seed independence (native, bounded) -----------------------------------------------------------------------------

def hashseed_violation(seeds=(0, 1, 2, 3, 4, 5)):
    """generate the schematic documents under several PYTHONHASHSEED values in fresh interpreters and compare the trees"""
    import hashlib
    import json
    import os
    import subprocess
    import sys
    code = (
        "import sys, json, hashlib, shutil\n"
        "sys.path.insert(0, sys.argv[1]); sys.path.insert(0, sys.argv[2])\n"
        "from pyvc.replay import generate_tree\n"
        "import contracts.models_f as mf, contracts.endpoints_f as ef, contracts.determinism as det\n"
        "from pyvc import sites\n"
        "out = {}\n"
        "for name, doc, cfg in (('models', mf.document('3.1.0')[0], {}), ('models-lit', mf.document('3.0.3')[0], {'literal_enums': True}),\n"
        "                       ('endpoints', ef.document('3.0.3')[0], {}), ('slots', sites.slot_document(), {}),\n"
        "                       ('determinism', det.determinism_document(), {}), ('determinism-lit', det.determinism_document(True), {'literal_enums': True})):\n"
        "    import contextlib, io\n"
        "    with contextlib.redirect_stdout(io.StringIO()):\n"
        "        errors, o, files, tmp = generate_tree(document=doc, config=cfg)\n"
        "    for f, t in files.items():\n"
        "        out[name + ':' + f] = hashlib.sha256((t or '').encode()).hexdigest()\n"
        "    shutil.rmtree(tmp)\n"
        "print(json.dumps(out))\n")
    from .core import REPO, VERIF
    trees = {}
    for s in seeds:
        env = dict(os.environ, PYTHONHASHSEED=str(s), PYTHONPATH=REPO + os.pathsep + VERIF)
        p = subprocess.run([sys.executable, "-c", code, REPO, VERIF], capture_output=True, text=True, env=env, timeout=300)
        if p.returncode != 0:
            return f"generation failed under PYTHONHASHSEED={s}: {p.stderr[-300:]}"
        trees[s] = json.loads(p.stdout.strip().splitlines()[-1])
    base = trees[seeds[0]]
    for s in seeds[1:]:
        diff = sorted(k for k in set(base) | set(trees[s]) if base.get(k) != trees[s].get(k))
        if diff:
            return f"PYTHONHASHSEED={seeds[0]} and {s} generate different bytes for {diff[:5]}"
    return None


# ---- class name collisions between enums / models (EnumProperty.build, ModelProperty.build) -------------------------------

def name_collision_cases(tier):
    import itertools
    vals = [["1h", "24h", "7d"], ["24h", "1h", "7d"], ["1h", "24h"], ["a", "b"], ["b", "a"]]
    out = []
    for v1, v2 in itertools.product(vals, repeat=2):
        for order in (0, 1):
            out.append({"kind": "enum-enum", "v1": v1, "v2": v2, "order": order})
    for order in (0, 1):
        for v in vals[:2]:
            out.append({"kind": "model-enum", "v1": v, "order": order})
            out.append({"kind": "model-model", "v1": v, "order": order})
    # a nested inline object whose property name adds nothing to its container's class name
    for pname in ("_", "__", "-", "$"):
        for container in ("component-property", "request-body"):
            out.append({"kind": "nested-inline", "pname": pname, "container": container})
    return out


def name_collision(case):
    s = {"type": "string"}
    if case["kind"] == "nested-inline":
        inner = {"type": "object", "properties": {"latitude": {"type": "number"}}}
        outer = {"type": "object", "properties": {"street": s, case["pname"]: inner}}
        if case["container"] == "component-property":
            doc = _base(schemas={"Order": {"type": "object", "properties": {"shipping": outer}}})
        else:
            doc = _base({"/x": {"post": {"operationId": "op", "requestBody": {"content": {"application/json": {"schema": outer}}},
                                         "responses": {"200": {"description": ""}}}}})
        try:
            data = _parse(doc)
        except _Timeout:
            return "parser did not terminate"
        except BaseException as e:  # noqa
            return f"parser raised {type(e).__name__}: {str(e)[:100]}"
        if data.errors or (hasattr(data, "endpoint_collections_by_tag") and _all_errors(data)):
            return None
        props = sorted(p.name for m in data.models for p in (m.required_properties or []) + (m.optional_properties or []))
        if "latitude" not in props or "street" not in props:
            return f"an inline object schema vanished without a diagnostic: the generated classes declare only {props}"
        return None
    if case["kind"] == "enum-enum":
        a = {"Job": {"type": "object", "properties": {"retry_interval": {"type": "string", "enum": case["v1"]}}}}
        b = {"JobRetry": {"type": "object", "properties": {"interval": {"type": "string", "enum": case["v2"]}}}}
        items = 2
    elif case["kind"] == "model-enum":
        a = {"PetStatus": {"type": "object", "properties": {"x": s}}}
        b = {"Pet": {"type": "object", "properties": {"status": {"type": "string", "enum": case["v1"]}}}}
        items = 2
    else:
        a = {"FooBar": {"type": "object", "properties": {"x": s}}}
        b = {"Foo_Bar": {"type": "object", "properties": {"y": s}}}
        items = 2
    schemas = {**a, **b} if case["order"] == 0 else {**b, **a}
    try:
        data = _parse(_base(schemas=schemas))
    except _Timeout:
        return "parser did not terminate"
    except BaseException as e:  # noqa
        return f"parser raised {type(e).__name__}: {str(e)[:100]}"
    models = list(data.models)
    enums = list(data.enums)
    if data.errors:
        return None        # a diagnostic was issued
    if case["kind"] == "enum-enum":
        # both declarations map to the class name JobRetryInterval: sharing one class without a diagnostic is only
        # behaviour-preserving if value list and order (member names VALUE_i are positional) agree
        naming = lambda vs: {v: (v.upper() if v[:1].isalpha() else f"VALUE_{i}") for i, v in enumerate(vs)}
        if naming(case["v1"]) != naming(case["v2"]):
            names = [e.class_info.name for e in enums]
            if len(set(names)) < 2:
                return f"two different enums {case['v1']} / {case['v2']} share the class {names} without a diagnostic"
        return None
    names = [m.class_info.name for m in models] + [e.class_info.name for e in enums]
    if case["kind"] == "model-enum":
        # three document items: object PetStatus, object Pet, inline enum Pet.status
        if "PetStatus" not in [m.class_info.name for m in models] or not enums or len(set(names)) < 3:
            return f"object schema PetStatus / inline enum Pet.status collapsed into {names} without a diagnostic"
        return None
    if len(set(names)) < 2 or len(names) < 2:
        return f"two document items collapsed into the generated classes {names} without a diagnostic"
    return None


# ---- equivalent documents (C17, native bounded) ---------------------------------------------------------------------------

def _tree(doc=None, text=None, suffix=".json", cfg=None):
    from .replay import generate_tree
    import contextlib
    import io
    import shutil
    with contextlib.redirect_stdout(io.StringIO()):
        errors, out, files, tmp = generate_tree(document=doc, document_text=text, suffix=suffix, config=cfg)
    shutil.rmtree(tmp, ignore_errors=True)
    return files, errors


# ---- every generated endpoint module compiles, whatever mix of defaulted / plain parameters the operation declares (C01) ----------

def signature_order_cases(tier):
    """two path parameters and two query parameters (one required), each with or without a schema default"""
    out = []
    for bits in itertools.product([False, True], repeat=4):
        out.append({"path_defaults": list(bits[:2]), "query_defaults": list(bits[2:])})
    return out


def signature_order(case):
    def param(name, loc, required, dflt):
        sch = {"type": "integer"}
        if dflt:
            sch["default"] = 5
        return {"name": name, "in": loc, "required": required, "schema": sch}
    p1, p2 = case["path_defaults"]
    q1, q2 = case["query_defaults"]
    doc = _base({"/a/{x}/{y}": {"get": {"operationId": "g", "parameters": [
        param("x", "path", True, p1), param("y", "path", True, p2), param("q", "query", False, q1), param("r", "query", True, q2)],
        "responses": {"204": {"description": "ok"}}}}})
    try:
        files, errors = _tree(doc)
    except BaseException as e:  # noqa
        return f"generate() raised {type(e).__name__}: {str(e)[:120]}"
    if errors:
        return None          # a diagnostic is an answer
    for rel, text in sorted(files.items()):
        if not str(rel).endswith(".py"):
            continue
        try:
            compile(text, str(rel), "exec")
        except SyntaxError as e:
            return f"generated module {rel} does not compile: {e.msg} (line {e.lineno}: {(e.text or '').strip()[:60]})"
    return None


def equivalent_docs_cases(tier):
    return ["nullable-30-vs-typelist", "nullable-ref-allof", "wrapper-allof", "wrapper-oneof", "wrapper-anyof", "json-vs-yaml",
            "nullable-model-oneof", "null-enum-param-shared", "wrapper-with-default", "same-ref-twice-in-union",
            "union-of-wrappers", "null-enum-component-shared", "nullable-enum-with-null-30-vs-31", "nullable-redeclared-in-allof",
            "multipart-body-wrapper", "nullable-typed-allof-ref"]


def equivalent_docs(case):
    import copy
    import json
    ref = {"$ref": "#/components/schemas/Leaf"}
    leaf = {"type": "object", "properties": {"x": {"type": "integer"}}}
    en = {"type": "string", "enum": ["a", "b"]}

    def doc(props, extra=None, version="3.1.0", paths=None):
        return {"openapi": version, "info": {"title": "t", "version": "1"}, "paths": paths or {},
                "components": {"schemas": {"Leaf": leaf, "En": en, "M": {"type": "object", "properties": props}, **(extra or {})}}}
    text1 = text2 = None
    s1 = s2 = ".json"
    if case == "nullable-30-vs-typelist":
        d1 = doc({"p": {"type": "string", "nullable": True}, "q": {"type": "integer", "nullable": True}})
        d2 = doc({"p": {"type": ["string", "null"]}, "q": {"type": ["integer", "null"]}})
    elif case == "nullable-ref-allof":
        d1 = doc({"p": {"allOf": [ref], "nullable": True}})
        d2 = doc({"p": {"oneOf": [{"type": "null"}, {"allOf": [ref]}]}})
    elif case == "nullable-model-oneof":
        d1 = doc({"p": {"oneOf": [ref, {"type": "string"}], "nullable": True}})
        d2 = doc({"p": {"oneOf": [ref, {"type": "string"}, {"type": "null"}]}})
    elif case == "nullable-typed-allof-ref":
        # `type: object` next to the reference of an object component says nothing new: nullable must survive it
        d1 = doc({"p": {"type": "object", "nullable": True, "allOf": [ref]}}, version="3.0.3")
        d2 = doc({"p": {"nullable": True, "allOf": [ref]}}, version="3.0.3")
    elif case == "multipart-body-wrapper":
        # request bodies (multipart and json) and a response written as one-element wrappers around the reference
        def paths(sch):
            return {"/up": {"post": {"operationId": "up", "requestBody": {"content": {"multipart/form-data": {"schema": sch}}},
                                     "responses": {"200": {"description": "ok", "content": {"application/json": {"schema": sch}}}}}},
                    "/js": {"post": {"operationId": "js", "requestBody": {"content": {"application/json": {"schema": sch}}},
                                     "responses": {"204": {"description": "ok"}}}}}
        d1 = doc({"x": {"type": "string"}}, paths=paths({"allOf": [ref]}))
        d2 = doc({"x": {"type": "string"}}, paths=paths(ref))
    elif case.startswith("wrapper-") and case != "wrapper-with-default":
        key = {"wrapper-allof": "allOf", "wrapper-oneof": "oneOf", "wrapper-anyof": "anyOf"}[case]
        d1 = doc({"p": {key: [ref]}, "e": {key: [{"$ref": "#/components/schemas/En"}]}})
        d2 = doc({"p": ref, "e": {"$ref": "#/components/schemas/En"}})
    elif case == "wrapper-with-default":
        # a wrapper that only adds a default keeps the default (falsy ones too)
        d1 = doc({"e": {"allOf": [{"$ref": "#/components/schemas/Num"}], "default": 0}}, {"Num": {"type": "integer", "enum": [0, 1]}})
        f1, e1 = _tree(d1)
        t = f1.get("models/m.py", "")
        return None if "= Num.VALUE_0" in t else f"the default 0 declared next to the reference was not emitted: {[l for l in t.splitlines() if ' e:' in l][:2]}"
    elif case == "json-vs-yaml":
        d1 = doc({"p": {"type": "string", "default": "x: y"}, "when": {"type": "string", "format": "date", "default": "2020-01-02"}})
        text2 = ("openapi: 3.1.0\ninfo: {title: t, version: '1'}\npaths: {}\ncomponents:\n  schemas:\n    Leaf: {type: object, properties: {x: {type: integer}}}\n"
                 "    En: {type: string, enum: [a, b]}\n    M:\n      type: object\n      properties:\n        p: {type: string, default: 'x: y'}\n"
                 "        when: {type: string, format: date, default: '2020-01-02'}\n")
        d2, s2 = None, ".yaml"
    elif case == "same-ref-twice-in-union":
        # the same schema reached twice in one union (prefixItems + items), once bare and once through a one-element wrapper
        d1 = doc({"pts": {"type": "array", "prefixItems": [ref], "items": {"allOf": [ref]}}})
        d2 = doc({"pts": {"type": "array", "prefixItems": [ref], "items": ref}})
    elif case == "union-of-wrappers":
        d1 = doc({"u": {"oneOf": [{"allOf": [ref]}, {"type": "string"}, {"anyOf": [{"$ref": "#/components/schemas/En"}]}]}})
        d2 = doc({"u": {"oneOf": [ref, {"type": "string"}, {"$ref": "#/components/schemas/En"}]}})
    elif case == "null-enum-component-shared":
        # an enumeration with a null member in a component parameter used by two operations vs written out on each
        p = {"name": "state", "in": "query", "schema": {"type": ["string", "null"], "enum": ["on", "off", None]}}
        ok = {"200": {"description": ""}}
        d1 = doc({}, paths={"/x": {"get": {"operationId": "g", "parameters": [{"$ref": "#/components/parameters/St"}], "responses": ok}},
                            "/y": {"get": {"operationId": "h", "parameters": [{"$ref": "#/components/parameters/St"}], "responses": ok}}})
        d1["components"]["parameters"] = {"St": p}
        d2 = doc({}, paths={"/x": {"get": {"operationId": "g", "parameters": [copy.deepcopy(p)], "responses": ok}},
                            "/y": {"get": {"operationId": "h", "parameters": [copy.deepcopy(p)], "responses": ok}}})
    elif case == "nullable-redeclared-in-allof":
        # a nullable property re-declared (with another description) by a composed schema: nullable: true vs an explicit null member
        def family(prop):
            return {"Audited": {"type": "object", "properties": {"updated_at": dict(prop, description="when it changed")}},
                    "Invoice": {"allOf": [{"$ref": "#/components/schemas/Audited"},
                                          {"type": "object", "properties": {"updated_at": dict(prop, description="last change of the invoice"),
                                                                           "n": {"type": "integer"}}}]}}
        d1 = doc({}, family({"type": "string", "nullable": True}), version="3.0.3")
        d2 = doc({}, family({"oneOf": [{"type": "string"}, {"type": "null"}]}), version="3.0.3")
    elif case == "nullable-enum-with-null-30-vs-31":
        # an enumeration that lists null AND is declared nullable: 3.0 spelling vs 3.1 type list (both say the same thing)
        d1 = doc({"st": {"type": "string", "nullable": True, "enum": ["queued", "running", None]},
                  "lv": {"type": "integer", "nullable": True, "enum": [1, 2, None]}})
        d2 = doc({"st": {"type": ["string", "null"], "enum": ["queued", "running", None]},
                  "lv": {"type": ["integer", "null"], "enum": [1, 2, None]}})
    elif case == "null-enum-param-shared":
        p = {"name": "mode", "in": "query", "schema": {"type": "string", "enum": ["a", "b", None], "nullable": True}}
        ok = {"200": {"description": ""}}
        d1 = doc({}, paths={"/x": {"parameters": [p], "get": {"operationId": "g", "responses": ok}, "post": {"operationId": "p", "responses": ok}}})
        d2 = doc({}, paths={"/x": {"get": {"operationId": "g", "parameters": [copy.deepcopy(p)], "responses": ok},
                                   "post": {"operationId": "p", "parameters": [copy.deepcopy(p)], "responses": ok}}})
    else:
        return f"unknown case {case}"
    f1, e1 = _tree(d1, text1, s1)
    f2, e2 = _tree(d2, text2, s2)
    if bool(e1) != bool(e2):
        return f"{case}: diagnostics differ: {[(e.header, (e.detail or '')[:60]) for e in e1][:1]} vs {[(e.header, (e.detail or '')[:60]) for e in e2][:1]}"
    diff = sorted(k for k in set(f1) | set(f2) if f1.get(k) != f2.get(k))
    if diff:
        import difflib
        k = diff[0]
        d = "\n".join(list(difflib.unified_diff((f1.get(k) or "").splitlines(), (f2.get(k) or "").splitlines(), lineterm="", n=0))[:8])
        return f"{case}: generated trees differ in {diff[:4]}: {d[:400]}"
    return None


# ---- mypy on schematic packages (C11, bounded: not a post-condition of any /repo function) ----------------------------------

def mypy_same_name_errors():
    """finding C11-K2: a model with a property whose python name is the model's module name (Status.status)"""
    return mypy_violation("same-name", raw=True) or []


def mypy_errors(which="models"):
    """the error lines mypy reports on the schematic package (file name relative to the package : line : message)"""
    r = mypy_violation(which, raw=True)
    return r or []


def _is_literal_enum_redundant_cast(line):
    """finding C11-K1: `return cast(X, value)` inside the generated check_<enum>() of a literal-enum module"""
    return "[redundant-cast]" in line and 'Redundant cast to "Literal[' in line


def mypy_unlisted_violation(which="models"):
    """like mypy_violation, but ignoring the error class of finding C11-K1 (used only while that finding is listed and live)"""
    lines = [l for l in mypy_errors(which) if not _is_literal_enum_redundant_cast(l)]
    if not lines:
        return None
    return f"mypy reports {len(lines)} error(s) on the schematic package '{which}': " + " | ".join(lines[:4])


def mypy_violation(which="models", raw=False):
    import contextlib
    import io
    import os
    import shutil
    import subprocess
    import sys
    import tempfile
    from .replay import generate_tree
    import contracts.endpoints_f as ef
    import contracts.models_f as mf
    same = {"openapi": "3.0.3", "info": {"title": "s", "version": "1"}, "paths": {}, "components": {"schemas": {
        "Status": {"type": "object", "properties": {"status": {"type": "string", "format": "date"}, "other": {"type": "integer"}}}}}}
    doc, cfg = {"models": (mf.document("3.1.0")[0], {}), "models-literal": (mf.document("3.0.3")[0], {"literal_enums": True}),
                "endpoints": (ef.document("3.0.3")[0], {}), "same-name": (same, {})}[which]
    with contextlib.redirect_stdout(io.StringIO()):
        errors, out, files, tmp = generate_tree(document=doc, config=cfg)
    try:
        ini = os.path.join(tmp, "mypy.ini")
        with open(ini, "w") as f:
            f.write("[mypy]\ndisallow_any_generics = True\ndisallow_untyped_defs = True\nwarn_redundant_casts = True\nstrict_equality = True\n"
                    "[mypy-dateutil.*]\nignore_missing_imports = True\n")
        p = subprocess.run(["/venv/bin/python", "-m", "mypy", "--config-file", ini, "--no-incremental", "--cache-dir=/dev/null", str(out)],
                           capture_output=True, text=True, timeout=600, cwd=str(tmp))
        if p.returncode == 0:
            return None
        lines = [l for l in p.stdout.splitlines() if ": error:" in l]
        if raw:
            return [l.split("/")[-1] for l in lines]
        return f"mypy reports {len(lines)} error(s) on the schematic package '{which}': " + " | ".join(l.split("/")[-1] for l in lines[:4])
    finally:
        shutil.rmtree(tmp, ignore_errors=True)


# ---- enum / const / union defaults (convert_value of the composite kinds, natively) -----------------------------------------

ENUM_DEFAULT_VALUES = ["a", "A b", "1st", "", 'q"uote', "it's", "x-y"]


def enum_default_cases(tier):
    out = []
    for style in (False, True):
        for v in ENUM_DEFAULT_VALUES:
            out.append({"kind": "str-enum", "values": [v, "zz"], "default": v, "literal": style})
            out.append({"kind": "str-enum", "values": ["zz", v], "default": "not-listed", "literal": style})
        for d in (0, 2, -4):
            out.append({"kind": "int-enum", "values": [0, 2, -4], "default": d, "literal": style})
        out.append({"kind": "int-enum", "values": [0, 2], "default": 3, "literal": style})
        out.append({"kind": "int-enum", "values": [0, 2], "default": "0", "literal": style})
    for c, d in (("k", "k"), ("k", "other"), (5, 5), (5, 6), (True, True)):
        out.append({"kind": "const", "const": c, "default": d})
    for members, d in (([{"type": "integer"}, {"type": "string", "format": "date"}], 3), ([{"type": "integer"}, {"type": "string", "format": "date"}], "2020-01-02"),
                       ([{"type": "integer"}, {"type": "boolean"}], "nope"), ([{"type": "string"}, {"type": "integer"}], 0)):
        out.append({"kind": "union", "members": members, "default": d})
    return out


def enum_default(case):
    import contextlib
    import importlib
    import io
    from . import fragments
    if case["kind"] in ("str-enum", "int-enum"):
        schema = {"type": "string" if case["kind"] == "str-enum" else "integer", "enum": case["values"], "default": case["default"]}
        valid = case["default"] in case["values"] and type(case["default"]) is type(case["values"][0])
        cfg = {"literal_enums": True} if case.get("literal") else {}
    elif case["kind"] == "const":
        schema = {"const": case["const"], "default": case["default"]}
        valid = case["default"] == case["const"] and type(case["default"]) is type(case["const"])
        cfg = {}
    else:
        schema = {"oneOf": case["members"], "default": case["default"]}
        valid = case["default"] != "nope"
        cfg = {}
    doc = _base(schemas={"M": {"type": "object", "properties": {"p": schema}}})
    try:
        with contextlib.redirect_stdout(io.StringIO()):
            pkg = fragments.generate_package(doc, cfg)
    except BaseException as e:  # noqa
        return f"generator raised {type(e).__name__}: {str(e)[:120]}"
    try:
        has_m = (pkg.root / "models" / "m.py").exists()
        if not valid:
            if has_m:
                try:
                    M = pkg.module("models.m").M
                    v = M().p
                    if type(v).__name__ != "Unset":
                        return f"invalid default {case['default']!r} was emitted (attribute default {v!r})"
                except BaseException:  # noqa
                    pass
            return None if pkg.errors or has_m else "model dropped without a diagnostic"
        if not has_m:
            return f"valid default {case['default']!r} rejected: {[(e.detail or '')[:80] for e in pkg.errors][:1]}"
        try:
            M = pkg.module("models.m").M
            inst = M()
        except BaseException as e:  # noqa
            return f"generated model with default {case['default']!r} does not import/instantiate: {type(e).__name__}: {e}"
        got = inst.to_dict().get("p", "<absent>")
        if got != case["default"] or type(got) is not type(case["default"]):
            return f"omitting the argument encodes {got!r}, the declared default is {case['default']!r}"
        return None
    finally:
        pkg.cleanup()


# ---- response media types (responses.response_from_data: decoder and schema come from the SAME media type) ------------------

RESP_MEDIA = [("application/json", "model"), ("application/json", None), ("application/xml", "string"), ("text/plain", "string"),
              ("text/plain", None), ("application/octet-stream", "binary"), ("application/vnd.x+json", "other"),
              ("application/pdf", None)]
_RESP_SUPPORTED = {"application/json": "response.json()", "application/vnd.x+json": "response.json()",
                   "text/plain": "response.text", "application/octet-stream": "response.content"}


def response_media_cases(tier):
    out = []
    for k in (1, 2, 3):
        for combo in itertools.permutations(RESP_MEDIA, k):
            if len({c[0] for c in combo}) == k:
                out.append([list(c) for c in combo])
    return out


def response_media(case):
    schemas = {"M": {"type": "object", "properties": {"a": {"type": "string"}}},
               "Other": {"type": "object", "properties": {"b": {"type": "integer"}}}}
    kinds = {"model": {"$ref": "#/components/schemas/M"}, "other": {"$ref": "#/components/schemas/Other"},
             "string": {"type": "string"}, "binary": {"type": "string", "format": "binary"}}
    want_type = {"model": "M", "other": "Other", "string": "str", "binary": "File", None: "Any"}
    content = {ct: ({"schema": kinds[k]} if k else {}) for ct, k in case}
    doc = _base({"/x": {"get": {"operationId": "op", "responses": {"200": {"description": "", "content": content}}}}}, schemas)
    try:
        data = _parse(doc)
    except _Timeout:
        return "parser did not terminate"
    except BaseException as e:  # noqa
        return f"parser raised {type(e).__name__}: {str(e)[:100]}"
    eps = [e for c in data.endpoint_collections_by_tag.values() for e in c.endpoints]
    if not eps:
        return "the operation was dropped"
    ep = eps[0]
    first = next(((ct, k) for ct, k in case if ct in _RESP_SUPPORTED), None)
    if first is None:
        if ep.responses:
            return f"no media type of {[c[0] for c in case]} can be decoded, yet the response is handled"
        return None if ep.errors else "undecodable response dropped without a warning"
    if len(ep.responses) != 1:
        return f"response with decodable media type {first[0]} is not handled ({len(ep.responses)} responses)"
    r = ep.responses[0]
    src = r.source["attribute"] if isinstance(r.source, dict) else getattr(r.source, "attribute", None)
    want_src = _RESP_SUPPORTED[first[0]] if first[1] else "None"       # no schema: nothing to parse
    if src != want_src:
        return f"first decodable media type is {first[0]} but the body is read as {src}"
    got = r.prop.get_type_string()
    # text/plain with a string schema and binary bodies are typed by their schema; no schema: Any
    if got != want_type[first[1]]:
        return f"decoded as {first[0]} (schema kind {first[1]}) but typed {got}: the schema of another media type was used"
    return None


# ---- one response component referenced under several status codes ----------------------------------------------------------

def response_refs_cases(tier):
    codes = ["400", "404", "409", "default"]
    out = []
    for k in (1, 2, 3):
        for combo in itertools.combinations(codes, k):
            for inline_first in (False, True):
                out.append({"shared": list(combo), "inline_first": inline_first})
    out.append({"shared": ["400", "404"], "inline_first": True, "two_components": True})
    return out


def response_refs(case):
    problem = {"description": "p", "content": {"application/json": {"schema": {"type": "object", "properties": {"m": {"type": "string"}}}}}}
    other = {"description": "o", "content": {"text/plain": {"schema": {"type": "string"}}}}
    responses = {}
    if case["inline_first"]:
        responses["200"] = {"description": "ok"}
    for i, c in enumerate(case["shared"]):
        name = "Other" if case.get("two_components") and i == 1 else "Problem"
        responses[c] = {"$ref": f"#/components/responses/{name}"}
    if not case["inline_first"]:
        responses["200"] = {"description": "ok"}
    doc = _base({"/x": {"get": {"operationId": "op", "responses": responses}}}, None, responses={"Problem": problem, "Other": other})
    try:
        data = _parse(doc)
    except _Timeout:
        return "parser did not terminate"
    except BaseException as e:  # noqa
        return f"parser raised {type(e).__name__}: {str(e)[:100]}"
    eps = [e for c in data.endpoint_collections_by_tag.values() for e in c.endpoints]
    if not eps:
        return "the operation was dropped"
    ep = eps[0]
    got = sorted(str(getattr(r.status_code, "value", r.status_code)) for r in ep.responses)
    want = sorted(c for c in responses if c != "default")
    named = " ".join((e.detail or "") + (e.header or "") for e in ep.errors)
    missing = [c for c in want if c not in got and c not in named]
    if missing:
        return f"documented statuses {missing} are neither handled ({got}) nor named in a warning"
    if len(got) != len(set(got)):
        return f"a status is handled twice: {got}"
    return None


# ---- documents the loader / validator must reject with a diagnostic (never an exception) -----------------------------------

def rejection_pool_cases(tier):
    ok = {"200": {"description": ""}}
    info = {"title": "t", "version": "1"}
    docs = [
        {"openapi": "3.0.3", "info": info, "paths": {}, "servers": [{"description": "no url"}]},
        {"openapi": "3.0.3", "info": info, "paths": {"/x": {"get": {"parameters": [{"name": "a", "in": "body"}], "responses": ok}}}},
        {"openapi": "3.0.3", "info": info, "paths": {"/x": {"get": {"parameters": [5], "responses": ok}}}},
        {"openapi": "3.0.3", "info": info, "paths": {"/x": {"get": {"tags": [1, {"a": 2}], "responses": ok}}}},
        {"openapi": "3.0.3", "info": info, "paths": {"/x": {"get": {"responses": {"200": 5}}}}},
        {"openapi": "3.0.3", "info": info, "paths": {"/x": {"get": {"responses": ok, "security": [{"k": "notalist"}]}}}},
        {"openapi": "3.0.3", "info": info, "paths": {"/x": {"get": {"responses": ok, "security": [5]}}}},
        {"openapi": "3.0.3", "info": info, "paths": [1, 2]},
        {"openapi": "3.0.3", "info": info, "paths": {"/x": [1]}},
        {"openapi": "3.0.3", "info": info, "paths": {}, "components": {"schemas": {"A": {"type": 5}}}},
        {"openapi": "3.0.3", "info": info, "paths": {}, "components": {"schemas": {"A": {"allOf": [{"type": "object"}, 7]}}}},
        {"openapi": "3.0.3", "info": info, "paths": {}, "components": {"schemas": {"A": {"type": "object", "required": [1, [2]]}}}},
        {"openapi": "3.0.3", "info": info, "paths": {}, "components": {"schemas": {"A": {"enum": "notalist"}}}},
        {"openapi": "3.0.3", "info": info, "paths": {}, "components": {"parameters": {"P": {"name": "p", "in": "nowhere"}}}},
        {"openapi": "3.0.3", "info": info, "paths": {}, "tags": [{"description": "no name"}]},
        {"openapi": "3.0.3", "info": info, "paths": {}, "tags": ["a", "b"]},
        {"openapi": "3.0.3", "info": {"title": ["t"], "version": 1}, "paths": {}},
        {"openapi": "3.0.3", "paths": {}},
        {"openapi": "2.0", "info": info, "paths": {}},
        {"openapi": "4.0.0", "info": info, "paths": {}},
        {"openapi": 3, "info": info, "paths": {}},
        {"swagger": "2.0", "info": info, "paths": {}},
        {"info": info, "paths": {}},
        {"openapi": "3.1.0", "info": info, "paths": {"/x": {"get": {"requestBody": {"content": {"application/json": {"schema": [1]}}}, "responses": ok}}}},
        {"openapi": "3.1.0", "info": info, "paths": {"/x": {"get": {"requestBody": {"content": [{"a": 1}]}, "responses": ok}}}},
        {"openapi": "3.1.0", "info": info, "paths": {"/x": {"parameters": [{"name": "a", "in": "query", "schema": {"type": ["string", 5]}}], "get": {"responses": ok}}}},
        {"openapi": "3.1.0", "info": info, "paths": {}, "components": {"schemas": {"A": {"prefixItems": [1, 2]}}}},
        {"openapi": "3.1.0", "info": info, "paths": {}, "components": {"schemas": {"A": {"oneOf": [{"type": "string"}, [3]]}}}},
        [], 5, None, "text", {"openapi": "3.0.3"}, {},
    ]
    return [{"doc": d} for d in docs]


def rejection_pool(case):
    from openapi_python_client.parser.errors import GeneratorError
    from openapi_python_client.parser.openapi import GeneratorData
    try:
        data = _parse(case["doc"])
    except _Timeout:
        return "the validator did not terminate"
    except BaseException as e:  # noqa
        return f"an invalid document raised {type(e).__name__}: {str(e)[:120]} instead of yielding a diagnostic"
    if isinstance(data, GeneratorError):
        return None
    if isinstance(data, GeneratorData):
        return None         # accepted after all (pydantic coerced it): fine, nothing escaped
    return f"neither a GeneratorError nor GeneratorData: {type(data).__name__}"


# ---- a path-item parameter that the operation overrides is ignored, whatever it looks like ---------------------------------

def param_override_cases(tier):
    out = []
    for loc in ("query", "header", "cookie"):
        for bad in ("missing-ref", "missing-schema", "bad-default"):
            for overridden in (True, False):
                out.append({"loc": loc, "bad": bad, "overridden": overridden})
    return out


def param_override(case):
    loc = case["loc"]
    bad = {"missing-ref": {"name": "mode", "in": loc, "schema": {"$ref": "#/components/schemas/DoesNotExist"}},
           "missing-schema": {"name": "mode", "in": loc},
           "bad-default": {"name": "mode", "in": loc, "schema": {"type": "integer", "default": "x"}}}[case["bad"]]
    op = {"operationId": "op", "responses": {"200": {"description": ""}}}
    if case["overridden"]:
        op["parameters"] = [{"name": "mode", "in": loc, "schema": {"type": "string"}}]
    doc = _base({"/x": {"parameters": [bad], "get": op}})
    try:
        data = _parse(doc)
    except _Timeout:
        return "parser did not terminate"
    except BaseException as e:  # noqa
        return f"parser raised {type(e).__name__}: {str(e)[:100]}"
    eps = [e for c in data.endpoint_collections_by_tag.values() for e in c.endpoints]
    errs = _all_errors(data)
    if case["overridden"]:
        if not eps:
            return f"the operation overrides the bad path-item parameter ({case['bad']}, {loc}) but was dropped: {[(e.detail or '')[:60] for e in errs][:1]}"
        lists = {"query": eps[0].query_parameters, "header": eps[0].header_parameters, "cookie": eps[0].cookie_parameters}
        names = [(p.name, p.get_type_string()) for p in lists[loc]]
        if names != [("mode", "Union[Unset, str]")]:
            return f"expected the operation's own parameter mode: str, got {names}"
        return None
    if eps and case["bad"] != "missing-schema":
        return "a path-item parameter that cannot be parsed was ignored silently" if not errs else None
    if not eps and not errs:
        return "operation dropped without a diagnostic"
    return None


# ---- reordering paths changes nothing (C12 b): operations that share components ------------------------------------------------

def path_order_cases(tier):
    return [{"family": f, "order": list(p)} for f in ("shared-body-model", "shared-enum-param", "shared-response", "shared-component-param")
            for p in itertools.permutations([0, 1, 2])]


_PATH_SIGS = {}


def _path_family(name):
    ok = {"200": {"description": ""}}
    note = {"$ref": "#/components/schemas/Note"}
    schemas = {"Note": {"type": "object", "properties": {"t": {"type": "string"}}}, "Mode": {"type": "string", "enum": ["a", "b"]}}
    if name == "shared-body-model":
        paths = [("/form", {"post": {"operationId": "a_form", "requestBody": {"content": {"multipart/form-data": {"schema": note}}}, "responses": ok}}),
                 ("/json", {"post": {"operationId": "b_json", "requestBody": {"content": {"application/json": {"schema": note}}}, "responses": ok}}),
                 ("/url", {"post": {"operationId": "c_url", "requestBody": {"content": {"application/x-www-form-urlencoded": {"schema": note}}}, "responses": ok}})]
    elif name == "shared-enum-param":
        p = lambda d: {"name": "mode", "in": "query", "schema": {"type": "string", "enum": ["x", "y"], "title": "Order", **d}}  # noqa
        paths = [("/a", {"get": {"operationId": "a", "parameters": [p({"default": "x"})], "responses": ok}}),
                 ("/b", {"get": {"operationId": "b", "parameters": [p({})], "responses": ok}}),
                 ("/c", {"get": {"operationId": "c", "parameters": [{"name": "m", "in": "query", "schema": {"$ref": "#/components/schemas/Mode"}}], "responses": ok}})]
    elif name == "shared-component-param":
        # a component parameter with an inline enum / inline object schema, used by operations under different paths: the names of
        # the classes it gives rise to must not depend on which operation is met first
        pr = {"$ref": "#/components/parameters/Sort"}
        pf = {"$ref": "#/components/parameters/Filter"}
        paths = [("/widgets", {"get": {"operationId": "list_widgets", "parameters": [pr], "responses": ok}}),
                 ("/gadgets", {"get": {"operationId": "list_gadgets", "parameters": [pr, pf], "responses": ok}}),
                 ("/gizmos", {"get": {"operationId": "list_gizmos", "parameters": [pf], "responses": ok}})]
    else:
        r = {"$ref": "#/components/responses/R"}
        paths = [("/a", {"get": {"operationId": "a", "responses": {"200": r}}}),
                 ("/b", {"get": {"operationId": "b", "responses": {"200": {"description": ""}, "404": r}}}),
                 ("/c", {"get": {"operationId": "c", "responses": {"200": {"description": "", "content": {"application/json": {"schema": note}}}}}})]
    params = {"Sort": {"name": "sort_order", "in": "query", "schema": {"type": "string", "enum": ["asc", "desc"]}},
              "Filter": {"name": "filter", "in": "query", "schema": {"type": "object", "properties": {"q": {"type": "string"}}}}}
    comps = {"parameters": params, "responses": {"R": {"description": "r", "content": {"application/json": {"schema": {"type": "array", "prefixItems": [note], "items": note}}}}}}
    return paths, schemas, comps


def path_order(case):
    paths, schemas, comps = _path_family(case["family"])

    def tree(order):
        doc = _base({paths[i][0]: paths[i][1] for i in order}, schemas, **comps)
        doc["openapi"] = "3.1.0"
        files, errors = _tree(doc)
        return files, errors
    if case["family"] not in _PATH_SIGS:
        _PATH_SIGS[case["family"]] = tree([0, 1, 2])
    f0, e0 = _PATH_SIGS[case["family"]]
    f1, e1 = tree(case["order"])
    if e0:
        return f"the probe family {case['family']} no longer generates without diagnostics: {[(e.header, (e.detail or '')[:60]) for e in e0][:1]}"
    if e1:
        return f"paths in order {case['order']}: diagnostics appear that the declaration order does not have: {[(e.header, (e.detail or '')[:60]) for e in e1][:1]}"
    diff = sorted(k for k in set(f0) | set(f1) if f0.get(k) != f1.get(k))
    if diff:
        import difflib
        k = diff[0]
        d = "\n".join(list(difflib.unified_diff((f0.get(k) or "").splitlines(), (f1.get(k) or "").splitlines(), lineterm="", n=0))[:8])
        return f"paths in order {case['order']}: generated files {diff[:4]} differ from the declaration order: {d[:400]}"
    return None


# ---- a rejected component used by several operations: every one of them is accounted for -------------------------------------

def shared_bad_component_cases(tier):
    out = []
    for kind in ("param-content-only", "param-bad-schema", "response-missing", "body-missing"):
        for n in (2, 3):
            out.append({"kind": kind, "ops": n})
    return out


def shared_bad_component(case):
    ok = {"200": {"description": ""}}
    comps = {}
    ops = {}
    for i in range(case["ops"]):
        op = {"operationId": f"op{i}", "responses": dict(ok)}
        if case["kind"].startswith("param"):
            op["parameters"] = [{"$ref": "#/components/parameters/P"}]
        elif case["kind"] == "response-missing":
            op["responses"]["404"] = {"$ref": "#/components/responses/Nope"}
        else:
            op["requestBody"] = {"$ref": "#/components/requestBodies/Nope"}
        ops[f"/things{i}"] = {"get": op}
    if case["kind"] == "param-content-only":
        comps["parameters"] = {"P": {"name": "p", "in": "query", "content": {"application/json": {"schema": {"type": "string"}}}}}
    elif case["kind"] == "param-bad-schema":
        comps["parameters"] = {"P": {"name": "p", "in": "query", "schema": {"$ref": "#/components/schemas/Nope"}}}
    doc = _base(ops, None, **comps)
    try:
        data = _parse(doc)
    except _Timeout:
        return "parser did not terminate"
    except BaseException as e:  # noqa
        return f"parser raised {type(e).__name__}: {str(e)[:100]}"
    if not hasattr(data, "endpoint_collections_by_tag"):
        return None          # the whole document is rejected with a diagnostic: accounted for
    eps = {e.path for c in data.endpoint_collections_by_tag.values() for e in c.endpoints}
    text = " ".join((e.header or "") + " " + (e.detail or "") for e in _all_errors(data))
    handled_warn = " ".join((w.header or "") + " " + (w.detail or "") for c in data.endpoint_collections_by_tag.values()
                            for e in c.endpoints for w in e.errors)
    for i in range(case["ops"]):
        path = f"/things{i}"
        if path in eps:
            continue
        if f"GET {path}" not in text and f"{path} " not in text and not text.rstrip().endswith(path):
            return f"operation GET {path} is neither generated nor named by a diagnostic (diagnostics name: {sorted(set(w for w in text.split() if w.startswith('/things')))})"
    return None


# ---- loadable documents with unusual but legal content: generate() returns, whatever it thinks of them ------------------------

def odd_documents_cases(tier):
    ok = {"200": {"description": ""}}
    obj = lambda props, **kw: {"type": "object", "properties": props, **kw}      # noqa: E731
    docs = {
        "non-string-examples": _base({"/x": {"get": {"operationId": "g", "parameters": [
            {"name": "n", "in": "query", "schema": {"type": "integer", "example": 25}},
            {"name": "o", "in": "query", "schema": {"type": "string", "example": {"k": [1, 2]}}}], "responses": ok}}},
            {"M": obj({"count": {"type": "integer", "example": 3}, "tags": {"type": "array", "items": {"type": "string"}, "example": ["a", "b"]},
                       "flag": {"type": "boolean", "example": False}, "when": {"type": "string", "format": "date", "example": None}},
                      example={"count": 1})}),
        "non-string-descriptions-of-values": _base({}, {"M": obj({"p": {"type": "string", "default": "x", "example": 1.5, "description": ""}})}),
        "empty-everything": {"openapi": "3.0.3", "info": {"title": "", "version": ""}, "paths": {}},
        "numeric-looking-names": _base({"/1/{2}": {"get": {"parameters": [{"name": "2", "in": "path", "required": True, "schema": {"type": "string"}}],
                                                           "responses": {"200": {"description": ""}, "default": {"description": ""}}}}},
                                       {"1": obj({"2": {"type": "integer"}, "": {"type": "string"}})}),
        "unhashable-defaults": _base({}, {"E": {"type": "string", "enum": ["a", "b"], "default": ["a"]},
                                          "M": obj({"e": {"allOf": [{"$ref": "#/components/schemas/E"}], "default": {"a": 1}},
                                                    "i": {"type": "integer", "enum": [1, 2], "default": [1]},
                                                    "u": {"oneOf": [{"type": "string"}, {"type": "integer"}], "default": {"x": 1}},
                                                    "c": {"const": "k", "default": ["k"]}})}),
        "defaults-of-other-types": _base({}, {"M": obj({"b": {"type": "boolean", "default": "maybe"}, "n": {"type": "number", "default": [1]},
                                                         "d": {"type": "string", "format": "date", "default": 5},
                                                         "u": {"type": "string", "format": "uuid", "default": {"a": 1}}})}),
        "deep-nesting": _base({}, {"M": obj({"a": obj({"b": obj({"c": obj({"d": {"type": "array", "items": obj({"e": {"type": "integer"}})}})})})})}),
        "self-references": _base({}, {"A": obj({"a": {"$ref": "#/components/schemas/A"}, "l": {"type": "array", "items": {"$ref": "#/components/schemas/A"}}}),
                                      "B": {"allOf": [{"$ref": "#/components/schemas/B"}]}, "C": {"$ref": "#/components/schemas/C"}}),
        "everything-optional-missing": _base({"/x": {"get": {"responses": {}}, "post": {"requestBody": {"content": {}}, "responses": ok}}}),
        "media-type-parameters": _base({"/x": {"post": {"requestBody": {"content": {"application/json; charset=utf-8": {"schema": obj({"a": {"type": "string"}})},
                                                                                     "multipart/form-data; boundary=x": {"schema": obj({"b": {"type": "string"}})}}},
                                                      "responses": {"200": {"description": "", "content": {"text/plain; charset=utf-8": {"schema": {"type": "string"}}}}}}}}),
    }
    long_name = "relative_path_of_the_requested_artifact_file_in_the_store"
    docs["long-placeholders-with-suffixes"] = _base({
        "/artifacts/{" + long_name + ":path}": {"get": {"parameters": [{"name": long_name, "in": "path", "required": True, "schema": {"type": "string"}}],
                                                        "responses": ok}},
        "/a/{" + "x" * 60 + "/b": {"get": {"responses": ok}},
        "/c/{" + "a.b-c_d" * 8 + "}/{unclosed": {"get": {"responses": ok}}})
    return [{"name": k, "doc": v} for k, v in docs.items()]


def odd_documents(case):
    def handler(signum, frame):
        raise _Timeout()
    old = signal.signal(signal.SIGALRM, handler)
    signal.setitimer(signal.ITIMER_REAL, 30)
    try:
        files, errors = _tree(case["doc"])
    except _Timeout:
        return f"generate() did not terminate within 30 s on the legal document {case['name']!r}"
    except BaseException as e:  # noqa
        e = getattr(e, "__cause__", None) or e
        return f"generate() raised {type(e).__name__}: {str(e)[:160]} on the legal document {case['name']!r} instead of returning diagnostics"
    finally:
        signal.setitimer(signal.ITIMER_REAL, 0)
        signal.signal(signal.SIGALRM, old)
    return None


# ---- tags: where an operation is filed, and module names within a tag ---------------------------------------------------------

def tag_filing_cases(tier):
    tag_lists = [["pets", "admin"], ["admin", "pets"], ["alpha", "shared"], ["beta", "shared"], ["shared"], ["Zed", "alpha"], []]
    ids = [("get-item", "get_item"), ("getItem", "get_item"), ("a", "b")]
    out = []
    for all_tags in (False, True):
        for t1, t2 in itertools.product(tag_lists, repeat=2):
            for i1, i2 in ids:
                out.append({"all_tags": all_tags, "tags": [t1, t2], "ids": [i1, i2]})
    return out


def tag_filing(case):
    from openapi_python_client import utils
    ok = {"200": {"description": ""}}
    ops = {}
    for k, (tags, opid) in enumerate(zip(case["tags"], case["ids"])):
        op = {"operationId": opid, "responses": ok}
        if tags:
            op["tags"] = tags
        ops[f"/p{k}"] = {"get": op}
    doc = _base(ops)
    try:
        data = _parse(doc, generate_all_tags=case["all_tags"])
    except _Timeout:
        return "parser did not terminate"
    except BaseException as e:  # noqa
        return f"parser raised {type(e).__name__}: {str(e)[:100]}"
    colls = data.endpoint_collections_by_tag
    text = " ".join((e.header or "") + " " + (e.detail or "") for e in _all_errors(data))
    for k, (tags, opid) in enumerate(zip(case["tags"], case["ids"])):
        path = f"/p{k}"
        want_tags = [str(utils.PythonIdentifier(t, "tag")) for t in (tags or ["default"])]
        if not case["all_tags"]:
            want_tags = want_tags[:1]
        filed = [str(t) for t, c in colls.items() if any(e.path == path for e in c.endpoints)]
        if not filed:
            if f"GET {path}" not in text:
                return f"operation GET {path} is neither generated nor named by a diagnostic"
            continue
        if sorted(set(filed)) != sorted(set(want_tags)):
            return (f"operation GET {path} with tags {tags} (generate_all_tags={case['all_tags']}) is filed under {sorted(filed)}, "
                    f"the document says {sorted(set(want_tags))}")
    for t, c in colls.items():
        mods = [str(utils.PythonIdentifier(e.name, "field_")) for e in c.endpoints]
        if len(mods) != len(set(mods)):
            return f"tag {t}: two operations share the module name(s) {sorted(m for m in set(mods) if mods.count(m) > 1)}: one file overwrites the other"
    return None
