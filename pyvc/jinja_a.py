"""Engine A over Jinja: the output language of a macro of the REAL templates as a function of its parameters' languages.

The macro is parsed with jinja2's own parser from the template file of the current tree; its AST is executed over
regular languages: literal template text is itself, `{{ x }}` is the language of x, filters are exact images
(replace, trim, string) or stated over-approximations (wordwrap/indent: may insert spaces and newlines anywhere), `if`
tests that are regular predicates on a parameter refine its language (both branches are joined).
Whitespace control (`-%}`, trim_blocks, lstrip_blocks) only removes whitespace *between* nodes; it is over-approximated
by allowing whitespace around every node to be dropped.
"""
from __future__ import annotations

import os

from jinja2 import nodes

from . import alphabet as _alpha
from .automata import DFA, NFA, Lang
from .strabs import OutOfReach, Vocab


def templates_dir():
    from .core import REPO
    return os.path.join(REPO, "openapi_python_client", "templates")


def parse_template(rel):
    from jinja2 import Environment
    env = Environment(trim_blocks=True, lstrip_blocks=True, extensions=["jinja2.ext.loopcontrols"], keep_trailing_newline=True)
    path = os.path.join(templates_dir(), rel)
    with open(path, encoding="utf-8") as f:
        src = f.read()
    return env.parse(src), src, path


def find_macro(tree, name):
    for n in tree.find_all(nodes.Macro):
        if n.name == name:
            return n
    return None


def replace_run(L: Lang, ch: int, k: int, w) -> Lang:
    """exact image of L under str.replace(c*k, w) for a run pattern of k equal characters c (leftmost, non-overlapping):
    a sequential transducer with a counter of pending c's"""
    A = _alpha.get()
    d = L.dfa
    n = len(d.rows)
    a = NFA()
    # state (q, j): DFA state q (after reading everything incl. the j pending c's), j pending c's not yet emitted
    idx = {}

    def st(q, j):
        key = (q, j)
        if key not in idx:
            idx[key] = a.new()
        return idx[key]

    def add_word(src, word, dst):
        if not word:
            a.add_eps(src, dst)
            return
        cur = src
        for b in word[:-1]:
            nx = a.new()
            a.add(cur, b, nx)
            cur = nx
        a.add(cur, word[-1], dst)
    work = [(0, 0)]
    seen = {(0, 0)}
    st(0, 0)
    while work:
        q, j = work.pop()
        row = d.rows[q]
        for sym, t in enumerate(row):
            if sym == ch:
                if j + 1 == k:
                    add_word(st(q, j), tuple(w), st(t, 0))
                    nxt = (t, 0)
                else:
                    a.add_eps(st(q, j), st(t, j + 1))
                    nxt = (t, j + 1)
            else:
                add_word(st(q, j), (ch,) * j + (sym,), st(t, 0))
                nxt = (t, 0)
            if nxt not in seen:
                seen.add(nxt)
                work.append(nxt)
    fin = a.new()
    for (q, j), s in list(idx.items()):
        if d.finals[q]:
            add_word(s, (ch,) * j, fin)
    a.inits = {idx[(0, 0)]}
    a.finals = {fin}
    return Lang(a.determinize())


class MacroInterp:
    def __init__(self):
        self.V = Vocab.get()
        self.A = _alpha.get()
        self.ws = self.A.chars(" \n")
        self.notes = []

    def text(self, s):
        return Lang.text(s)

    def loosen_ws(self, s: str) -> Lang:
        """literal template text whose leading/trailing whitespace may be removed by whitespace control"""
        core = s.strip(" \n\t")
        lead = s[:len(s) - len(s.lstrip(" \n\t"))]
        trail = s[len(s.rstrip(" \n\t")):]
        if not core:
            return Lang.texts({s[i:j] for i in range(len(s) + 1) for j in range(i, len(s) + 1)} | {""})
        leads = Lang.texts({lead[i:] for i in range(len(lead) + 1)})
        trails = Lang.texts({trail[:i] for i in range(len(trail) + 1)})
        return leads + Lang.text(core) + trails

    def expr(self, node, env) -> Lang:
        if isinstance(node, nodes.TemplateData):
            # whitespace control (trim_blocks, lstrip_blocks, -%}) is applied by jinja2's lexer: the parsed data is exact
            return Lang.text(node.data)
        if isinstance(node, nodes.Const):
            return Lang.text(str(node.value))
        if isinstance(node, nodes.Name):
            if node.name in env:
                v = env[node.name]
                if isinstance(v, tuple) and v and v[0] == "lazy":
                    # {% set x = e %}: x is re-evaluated under the CURRENT refinement of the variables e mentions (jinja
                    # variables are immutable, so this is the value x has; it keeps x correlated with later tests on them)
                    return self.expr(v[1], {k: w for k, w in env.items() if k != node.name})
                return v
            raise OutOfReach(f"template variable {node.name} has no language")
        if isinstance(node, nodes.Filter):
            L = self.expr(node.node, env)
            if node.name == "replace" and len(node.args) == 2 and all(isinstance(a, nodes.Const) for a in node.args):
                old, new = node.args[0].value, node.args[1].value
                if len(set(old)) == 1 and ord(old[0]) < 128:
                    return replace_run(L, ord(old[0]), len(old), self.A.word(new))
                raise OutOfReach(f"replace of {old!r}")
            if node.name in ("wordwrap", "indent"):
                # may insert spaces/newlines anywhere, never deletes (wordwrap breaks at whitespace; a break replaces a
                # space by a newline: over-approximated by also allowing a space to become a newline)
                return L.subst({ord(" "): [(ord(" "),), (ord("\n"),)]}).insert(self.ws)
            if node.name == "trim":
                sp = self.A.classes_where("str_space")
                S = Lang.over(sp)
                nonsp = self.V.ALLC - sp
                return L.lquot(S).rquot(S) & (Lang.eps() | (Lang.sym(nonsp) + self.V.SIGMA) & (self.V.SIGMA + Lang.sym(nonsp)) | Lang.sym(nonsp))
            if node.name == "string":
                return L
            raise OutOfReach(f"filter {node.name}")
        if isinstance(node, nodes.Output):
            out = Lang.eps()
            for c in node.nodes:
                out = out + self.expr(c, env)
            return out
        raise OutOfReach(f"template expression {type(node).__name__}")

    def refine(self, test, env):
        """(env if true, env if false); None = unreachable"""
        V = self.V
        if isinstance(test, nodes.Not):
            t, f = self.refine(test.node, env)
            return f, t
        if isinstance(test, nodes.Or):
            t1, f1 = self.refine(test.left, env)
            t2, f2 = self.refine(test.right, f1) if f1 is not None else (None, None)
            return self.join(t1, t2), f2
        if isinstance(test, nodes.And):
            t1, f1 = self.refine(test.left, env)
            t2, f2 = self.refine(test.right, t1) if t1 is not None else (None, None)
            return t2, self.join(f1, f2)
        if isinstance(test, nodes.Compare) and len(test.ops) == 1 and test.ops[0].op in ("in", "notin") \
                and isinstance(test.expr, nodes.Const) and isinstance(test.ops[0].expr, nodes.Name):
            name = test.ops[0].expr.name
            P = V.SIGMA + Lang.text(test.expr.value) + V.SIGMA
            if test.ops[0].op == "notin":
                P = ~P
            L = env[name]
            if isinstance(L, tuple):
                L = self.expr(nodes.Name(name, "load"), env)
            et = dict(env, **{name: L & P}) if not (L & P).is_empty() else None
            ef = dict(env, **{name: L - P}) if not (L - P).is_empty() else None
            return et, ef
        # anything else: unknown, no refinement
        self.notes.append(f"unrefined test {type(test).__name__}")
        return env, env

    @staticmethod
    def join(a, b):
        if a is None:
            return b
        if b is None:
            return a
        return {k: (a[k] | b[k]) for k in a if k in b}

    def body(self, stmts, env) -> Lang:
        out = Lang.eps()
        for st in stmts:
            if isinstance(st, nodes.Output):
                out = out + self.expr(st, env)
            elif isinstance(st, nodes.If):
                et, ef = self.refine(st.test, env)
                lt = self.body(st.body, et) if et is not None else None
                if st.elif_:
                    raise OutOfReach("elif")
                lf = self.body(st.else_, ef) if ef is not None else None
                both = [x for x in (lt, lf) if x is not None]
                out = out + (both[0] | both[1] if len(both) == 2 else both[0])
            elif isinstance(st, nodes.Assign) and isinstance(st.target, nodes.Name):
                env = dict(env)
                self.expr(st.node, env)                     # must be within reach now
                env[st.target.name] = ("lazy", st.node)
            else:
                raise OutOfReach(f"template statement {type(st).__name__}")
        return out


def macro_output_lang(rel, macro_name, param_langs):
    tree, src, path = parse_template(rel)
    m = find_macro(tree, macro_name)
    if m is None:
        raise OutOfReach(f"macro {macro_name} not found in {rel}")
    mi = MacroInterp()
    return mi.body(m.body, dict(param_langs)), m, path, mi.notes
