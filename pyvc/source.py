"""Reads the real functions of /repo on every run: module object (imported from the current working tree), AST of every
function keyed by "module:qualname", file, first line and a hash of the function's source text."""
from __future__ import annotations

import ast
import hashlib
import importlib
import inspect
import os

REPO = os.environ.get("PYVC_REPO", "/repo")

_cache = {}


class ModuleSrc:
    def __init__(self, modname):
        self.modname = modname
        self.module = importlib.import_module(modname)
        self.file = inspect.getsourcefile(self.module)
        with open(self.file, encoding="utf-8") as f:
            self.text = f.read()
        self.tree = ast.parse(self.text)
        self.lines = self.text.splitlines()
        self.funcs = {}
        self.classes = {}
        self._index(self.tree.body, "")

    def _index(self, body, prefix):
        for node in body:
            if isinstance(node, (ast.FunctionDef, ast.AsyncFunctionDef)):
                # skip @overload stubs
                if any(isinstance(d, ast.Name) and d.id == "overload" for d in node.decorator_list):
                    continue
                self.funcs[f"{self.modname}:{prefix}{node.name}"] = node
                # functions defined directly inside this one (closures), as outer.inner
                for inner in node.body:
                    if isinstance(inner, (ast.FunctionDef, ast.AsyncFunctionDef)):
                        self.funcs.setdefault(f"{self.modname}:{prefix}{node.name}.{inner.name}", inner)
            elif isinstance(node, ast.ClassDef):
                self.classes[f"{self.modname}:{prefix}{node.name}"] = node
                self._index(node.body, f"{prefix}{node.name}.")

    def func_text(self, node) -> str:
        return "\n".join(self.lines[node.lineno - 1:node.end_lineno])

    def func_hash(self, node) -> str:
        return hashlib.sha256(self.func_text(node).encode()).hexdigest()[:16]

    def where(self, node) -> str:
        return f"{os.path.relpath(self.file, REPO)}:{node.lineno}"


def load(modname) -> ModuleSrc:
    m = _cache.get(modname)
    if m is None:
        m = ModuleSrc(modname)
        if not modname.startswith("pyvcfrag_") and not os.path.abspath(m.file).startswith(os.path.abspath(REPO) + os.sep):
            raise RuntimeError(f"{modname} was imported from {m.file}, not from {REPO}")
        _cache[modname] = m
    return m


def func(qualname):
    modname = qualname.split(":")[0]
    m = load(modname)
    return m, m.funcs.get(qualname)


def resolve_native(qualname):
    modname, path = qualname.split(":")
    obj = importlib.import_module(modname)
    for part in path.split("."):
        obj = getattr(obj, part)
    return obj
