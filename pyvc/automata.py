"""Engine A, part 2: regular languages over the class alphabet (complete minimal DFAs, NFA constructions).

Everything here is exact: inclusion, emptiness, images under substitutions, quotients.  A language is a `Lang`
wrapping a complete DFA (state 0 initial).  Symbols are class ids 0..n-1 of pyvc.alphabet.
"""
from __future__ import annotations

import random
from collections import deque

from . import alphabet as _alpha


def N() -> int:
    return _alpha.get().n


class NFA:
    """epsilon-NFA; trans[s] = {sym: set(states)}, eps[s] = set(states)"""

    __slots__ = ("trans", "eps", "inits", "finals")

    def __init__(self):
        self.trans = []
        self.eps = []
        self.inits = set()
        self.finals = set()

    def new(self) -> int:
        self.trans.append({})
        self.eps.append(set())
        return len(self.trans) - 1

    def add(self, s, sym, t):
        self.trans[s].setdefault(sym, set()).add(t)

    def add_set(self, s, syms, t):
        tr = self.trans[s]
        for a in syms:
            tr.setdefault(a, set()).add(t)

    def add_eps(self, s, t):
        self.eps[s].add(t)

    def closure(self, states):
        st = set(states)
        stack = list(st)
        while stack:
            s = stack.pop()
            for t in self.eps[s]:
                if t not in st:
                    st.add(t)
                    stack.append(t)
        return frozenset(st)

    def embed(self, other: "NFA"):
        """copy `other` into self; returns offset"""
        off = len(self.trans)
        for s in range(len(other.trans)):
            self.trans.append({a: {t + off for t in ts} for a, ts in other.trans[s].items()})
            self.eps.append({t + off for t in other.eps[s]})
        return off

    def determinize(self) -> "DFA":
        n = N()
        start = self.closure(self.inits)
        ids = {start: 0}
        order = [start]
        rows = []
        finals = []
        i = 0
        while i < len(order):
            S = order[i]
            i += 1
            finals.append(any(s in self.finals for s in S))
            # collect moves
            moves = {}
            for s in S:
                for a, ts in self.trans[s].items():
                    m = moves.get(a)
                    if m is None:
                        moves[a] = set(ts)
                    else:
                        m.update(ts)
            row = [None] * n
            cache = {}
            for a, ts in moves.items():
                key = frozenset(ts)
                T = cache.get(key)
                if T is None:
                    T = self.closure(key)
                    cache[key] = T
                k = ids.get(T)
                if k is None:
                    k = len(order)
                    ids[T] = k
                    order.append(T)
                row[a] = k
            rows.append(row)
        # sink for missing transitions
        sink = None
        for row in rows:
            for a in range(n):
                if row[a] is None:
                    if sink is None:
                        sink = len(rows)
                    row[a] = sink
        if sink is not None:
            rows.append([sink] * n)
            finals.append(False)
        return DFA(rows, finals)


class DFA:
    __slots__ = ("rows", "finals")

    def __init__(self, rows, finals):
        self.rows = rows
        self.finals = finals

    def minimize(self) -> "DFA":
        rows, finals = self.rows, self.finals
        n = len(rows)
        # reachable
        reach = [False] * n
        reach[0] = True
        stack = [0]
        while stack:
            s = stack.pop()
            for t in rows[s]:
                if not reach[t]:
                    reach[t] = True
                    stack.append(t)
        states = [s for s in range(n) if reach[s]]
        # symbol columns that are identical everywhere can be merged: compute distinct columns
        nsym = len(rows[0])
        colkey = {}
        cols = []
        for a in range(nsym):
            k = tuple(rows[s][a] for s in states)
            if k not in colkey:
                colkey[k] = a
                cols.append(a)
        part = {s: (1 if finals[s] else 0) for s in states}
        nparts = len(set(part.values()))
        while True:
            sigs = {}
            newpart = {}
            for s in states:
                r = rows[s]
                sig = (part[s],) + tuple(part[r[a]] for a in cols)
                k = sigs.get(sig)
                if k is None:
                    k = len(sigs)
                    sigs[sig] = k
                newpart[s] = k
            part = newpart
            if len(sigs) == nparts:
                break
            nparts = len(sigs)
        # renumber with initial = 0
        remap = {}
        order = []
        dq = deque([0])
        remap[part[0]] = 0
        order.append(0)
        while dq:
            s = dq.popleft()
            for t in rows[s]:
                p = part[t]
                if p not in remap:
                    remap[p] = len(order)
                    order.append(t)
                    dq.append(t)
        nrows = [[remap[part[t]] for t in rows[s]] for s in order]
        nfin = [finals[s] for s in order]
        return DFA(nrows, nfin)

    def to_nfa(self) -> NFA:
        nfa = NFA()
        for _ in self.rows:
            nfa.new()
        for s, row in enumerate(self.rows):
            tr = nfa.trans[s]
            for a, t in enumerate(row):
                tr[a] = {t}
        nfa.inits = {0}
        nfa.finals = {s for s, f in enumerate(self.finals) if f}
        return nfa

    def live(self):
        """states from which a final state is reachable"""
        n = len(self.rows)
        rev = [[] for _ in range(n)]
        for s, row in enumerate(self.rows):
            for t in set(row):
                rev[t].append(s)
        live = [False] * n
        stack = [s for s in range(n) if self.finals[s]]
        for s in stack:
            live[s] = True
        while stack:
            t = stack.pop()
            for s in rev[t]:
                if not live[s]:
                    live[s] = True
                    stack.append(s)
        return live


def _product(d1: DFA, d2: DFA, op) -> DFA:
    n = len(d1.rows[0])
    ids = {(0, 0): 0}
    order = [(0, 0)]
    rows = []
    finals = []
    i = 0
    r1, r2, f1, f2 = d1.rows, d2.rows, d1.finals, d2.finals
    while i < len(order):
        p, q = order[i]
        i += 1
        finals.append(op(f1[p], f2[q]))
        rp, rq = r1[p], r2[q]
        row = [0] * n
        for a in range(n):
            key = (rp[a], rq[a])
            k = ids.get(key)
            if k is None:
                k = len(order)
                ids[key] = k
                order.append(key)
            row[a] = k
        rows.append(row)
    return DFA(rows, finals)


class Lang:
    """A regular language over the class alphabet, kept as a minimal complete DFA."""

    __slots__ = ("dfa", "_name")

    def __init__(self, dfa: DFA, name: str | None = None, minimal=False):
        self.dfa = dfa if minimal else dfa.minimize()
        self._name = name

    # ---- constructors -------------------------------------------------------------------------------------------
    @staticmethod
    def empty() -> "Lang":
        return Lang(DFA([[0] * N()], [False]), minimal=True)

    @staticmethod
    def eps() -> "Lang":
        n = N()
        return Lang(DFA([[1] * n, [1] * n], [True, False]), minimal=True)

    @staticmethod
    def all() -> "Lang":
        return Lang(DFA([[0] * N()], [True]), minimal=True)

    @staticmethod
    def sym(classes) -> "Lang":
        n = N()
        cs = set(classes)
        return Lang(DFA([[1 if a in cs else 2 for a in range(n)], [2] * n, [2] * n], [False, True, False]))

    @staticmethod
    def over(classes) -> "Lang":
        """classes* : all strings over the given set of classes"""
        n = N()
        cs = set(classes)
        return Lang(DFA([[0 if a in cs else 1 for a in range(n)], [1] * n], [True, False]))

    @staticmethod
    def word(w) -> "Lang":
        return Lang.words([tuple(w)])

    @staticmethod
    def words(ws) -> "Lang":
        n = N()
        rows = [[None] * n]
        finals = [False]
        for w in ws:
            s = 0
            for a in w:
                t = rows[s][a]
                if t is None:
                    t = len(rows)
                    rows.append([None] * n)
                    finals.append(False)
                    rows[s][a] = t
                s = t
            finals[s] = True
        sink = len(rows)
        rows.append([sink] * n)
        finals.append(False)
        for r in rows:
            for a in range(n):
                if r[a] is None:
                    r[a] = sink
        return Lang(DFA(rows, finals))

    @staticmethod
    def text(s: str) -> "Lang":
        return Lang.word(_alpha.get().word(s))

    @staticmethod
    def texts(ss) -> "Lang":
        A = _alpha.get()
        return Lang.words([A.word(s) for s in ss])

    # ---- boolean ------------------------------------------------------------------------------------------------
    def __and__(self, o):
        return Lang(_product(self.dfa, o.dfa, lambda a, b: a and b))

    def __or__(self, o):
        return Lang(_product(self.dfa, o.dfa, lambda a, b: a or b))

    def __sub__(self, o):
        return Lang(_product(self.dfa, o.dfa, lambda a, b: a and not b))

    def __invert__(self):
        return Lang(DFA(self.dfa.rows, [not f for f in self.dfa.finals]), minimal=True)

    def __le__(self, o):
        return (self - o).is_empty()

    def equals(self, o):
        return self <= o and o <= self

    # ---- rational -----------------------------------------------------------------------------------------------
    def __add__(self, o):
        a = self.dfa.to_nfa()
        off = a.embed(o.dfa.to_nfa())
        for f in list(a.finals):
            a.add_eps(f, off)
        a.finals = {s + off for s, fin in enumerate(o.dfa.finals) if fin}
        return Lang(a.determinize())

    def star(self):
        a = self.dfa.to_nfa()
        s0 = a.new()
        a.add_eps(s0, 0)
        for f in list(a.finals):
            a.add_eps(f, s0)
        a.inits = {s0}
        a.finals = {s0}
        return Lang(a.determinize())

    def plus(self):
        return self + self.star()

    def opt(self):
        return self | Lang.eps()

    # ---- images -------------------------------------------------------------------------------------------------
    def subst(self, image) -> "Lang":
        """image: dict class -> iterable of alternative class words; classes not in the dict map to themselves.
        Result: { w' | w in L, w' obtained by replacing each symbol by one of its alternatives } (exact)."""
        d = self.dfa
        a = NFA()
        for _ in d.rows:
            a.new()
        for s, row in enumerate(d.rows):
            for sym, t in enumerate(row):
                alts = image.get(sym)
                if alts is None:
                    a.add(s, sym, t)
                    continue
                for w in alts:
                    if len(w) == 0:
                        a.add_eps(s, t)
                    elif len(w) == 1:
                        a.add(s, w[0], t)
                    else:
                        cur = s
                        for b in w[:-1]:
                            nx = a.new()
                            a.add(cur, b, nx)
                            cur = nx
                        a.add(cur, w[-1], t)
        a.inits = {0}
        a.finals = {s for s, f in enumerate(d.finals) if f}
        return Lang(a.determinize())

    def delete(self, classes) -> "Lang":
        """image under deletion of every symbol in `classes` (a filter)"""
        return self.subst({c: [()] for c in classes})

    def insert(self, classes) -> "Lang":
        """arbitrary insertion of symbols of `classes` anywhere (over-approximation helper)"""
        d = self.dfa
        a = d.to_nfa()
        for s in range(len(d.rows)):
            for c in classes:
                a.add(s, c, s)
        return Lang(a.determinize())

    def factors(self) -> "Lang":
        d = self.dfa
        live = d.live()
        a = d.to_nfa()
        a.inits = {s for s in range(len(d.rows)) if live[s]}   # all states are reachable in a minimal DFA
        a.finals = {s for s in range(len(d.rows)) if live[s]}
        return Lang(a.determinize())

    def prefixes(self) -> "Lang":
        d = self.dfa
        live = d.live()
        return Lang(DFA(d.rows, list(live)))

    def suffixes(self) -> "Lang":
        d = self.dfa
        a = d.to_nfa()
        a.inits = set(range(len(d.rows)))
        return Lang(a.determinize())

    def lquot(self, U: "Lang") -> "Lang":
        """{ v | exists u in U: u v in L }"""
        d, e = self.dfa, U.dfa
        # states of d reachable by words of U: explore product
        seen = {(0, 0)}
        dq = deque([(0, 0)])
        starts = set()
        while dq:
            p, q = dq.popleft()
            if e.finals[q]:
                starts.add(p)
            rp, rq = d.rows[p], e.rows[q]
            for a in range(len(rp)):
                k = (rp[a], rq[a])
                if k not in seen:
                    seen.add(k)
                    dq.append(k)
        a = d.to_nfa()
        a.inits = starts
        return Lang(a.determinize())

    def rquot(self, V: "Lang") -> "Lang":
        """{ u | exists v in V: u v in L }"""
        d, e = self.dfa, V.dfa
        n = len(d.rows)
        fin = []
        for s in range(n):
            # is there v in V with d.run(s, v) final?
            seen = {(s, 0)}
            dq = deque([(s, 0)])
            ok = False
            while dq and not ok:
                p, q = dq.popleft()
                if d.finals[p] and e.finals[q]:
                    ok = True
                    break
                rp, rq = d.rows[p], e.rows[q]
                for a in range(len(rp)):
                    k = (rp[a], rq[a])
                    if k not in seen:
                        seen.add(k)
                        dq.append(k)
            fin.append(ok)
        return Lang(DFA(d.rows, fin))

    def reverse(self) -> "Lang":
        d = self.dfa
        a = NFA()
        for _ in d.rows:
            a.new()
        for s, row in enumerate(d.rows):
            for sym, t in enumerate(row):
                a.add(t, sym, s)
        a.inits = {s for s, f in enumerate(d.finals) if f}
        a.finals = {0}
        return Lang(a.determinize())

    # ---- queries ------------------------------------------------------------------------------------------------
    def is_empty(self) -> bool:
        return not any(self.dfa.finals)    # minimal DFA: all states reachable

    def has_eps(self) -> bool:
        return self.dfa.finals[0]

    def accepts(self, w) -> bool:
        s = 0
        rows = self.dfa.rows
        for a in w:
            s = rows[s][a]
        return self.dfa.finals[s]

    def accepts_text(self, text: str) -> bool:
        return self.accepts(_alpha.get().word(text))

    def witness(self):
        """shortest accepted class word (ties: smallest class ids), or None"""
        d = self.dfa
        if d.finals[0]:
            return ()
        prev = {0: None}
        dq = deque([0])
        while dq:
            s = dq.popleft()
            row = d.rows[s]
            for a in range(len(row)):
                t = row[a]
                if t not in prev:
                    prev[t] = (s, a)
                    if d.finals[t]:
                        w = []
                        while prev[t] is not None:
                            s2, a2 = prev[t]
                            w.append(a2)
                            t = s2
                        return tuple(reversed(w))
                    dq.append(t)
        return None

    def witnesses(self, k=5, maxlen=12):
        """up to k distinct short accepted words, preferring different symbols"""
        out = []
        d = self.dfa
        live = d.live()
        seen_states = set()
        dq = deque([(0, ())])
        visits = {}
        while dq and len(out) < k:
            s, w = dq.popleft()
            if d.finals[s] and w not in out:
                out.append(w)
            if len(w) >= maxlen:
                continue
            row = d.rows[s]
            succ = {}
            for a in range(len(row)):
                t = row[a]
                if live[t] and t not in succ:
                    succ[t] = a
            for t, a in succ.items():
                c = visits.get(t, 0)
                if c < 2:
                    visits[t] = c + 1
                    dq.append((t, w + (a,)))
        return out

    def alphabet(self) -> frozenset:
        """symbols that occur in some accepted word"""
        d = self.dfa
        live = d.live()
        out = set()
        for s, row in enumerate(d.rows):
            if not live[s]:
                continue
            for a, t in enumerate(row):
                if live[t]:
                    out.add(a)
        return frozenset(out)

    def size(self) -> int:
        return len(self.dfa.rows)

    def sample(self, rnd: random.Random, maxlen=8, prefer=None):
        """a random accepted class word (or None if empty)"""
        d = self.dfa
        live = d.live()
        if not live[0]:
            return None
        s = 0
        w = []
        while True:
            if d.finals[s] and (len(w) >= maxlen or rnd.random() < 0.3):
                return tuple(w)
            row = d.rows[s]
            cands = [a for a in range(len(row)) if live[row[a]]]
            if not cands:
                return tuple(w) if d.finals[s] else None
            if len(w) >= maxlen:
                # head for a final state along a shortest path
                path = Lang(DFA(d.rows, d.finals), minimal=True)._path_to_final(s)
                return tuple(w) + path
            if prefer and rnd.random() < 0.7:
                pc = [a for a in cands if a in prefer]
                if pc:
                    cands = pc
            a = rnd.choice(cands)
            w.append(a)
            s = row[a]

    def _path_to_final(self, s0):
        d = self.dfa
        prev = {s0: None}
        dq = deque([s0])
        if d.finals[s0]:
            return ()
        while dq:
            s = dq.popleft()
            for a, t in enumerate(d.rows[s]):
                if t not in prev:
                    prev[t] = (s, a)
                    if d.finals[t]:
                        w = []
                        while prev[t] is not None:
                            s2, a2 = prev[t]
                            w.append(a2)
                            t = s2
                        return tuple(reversed(w))
                    dq.append(t)
        return ()


def concat(*ls):
    out = ls[0]
    for l in ls[1:]:
        out = out + l
    return out


def union(*ls):
    out = ls[0]
    for l in ls[1:]:
        out = out | l
    return out
