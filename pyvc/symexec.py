"""Engine B: an `ast -> z3` symbolic executor for the data code of /repo (and for generated-code fragments).

The body of the real function (AST re-read from the working tree) is executed on symbolic values.  Dynamically typed
values (`Any`) are terms of one z3 datatype JV; records (attrs/dataclass instances) are Python-side objects with
symbolic fields, so aliasing is the interpreter's own object identity.  Control flow forks by *decision replay*: a
path is a list of branch decisions, every run starts from the beginning of the function, the first undecided branch
whose two sides are both satisfiable pushes the alternative on a work list.  Loop-free code is thereby explored
completely (every feasible path, every input); loops over symbolic-length sequences need an invariant.

Exceptions are outcomes: modelled partial operations raise their documented exception types on the inputs for
which CPython raises them; `try/except` of the real code catches them with the real class hierarchy.

Anything outside the supported subset raises Unsupported: the obligation is then undecided, never passed or failed.
"""
from __future__ import annotations

import ast
import builtins
import inspect
import itertools
import re
import types

import z3

from . import source


class Unsupported(Exception):
    pass


class Infeasible(Exception):
    pass


class PyRaise(Exception):
    """an exception raised by the interpreted program; .value is an SObj whose cls is the real exception class"""

    def __init__(self, value):
        self.value = value


class _Return(Exception):
    def __init__(self, value):
        self.value = value


class _Break(Exception):
    pass


class _Continue(Exception):
    pass


# ---- sorts ------------------------------------------------------------------------------------------------------------

_SMT_DECL = """
(declare-datatypes ((FK 0)) (((fin) (pinf) (ninf) (nan))))
(declare-datatypes ((JV 0)) ((
  (none) (unset) (absent)
  (bool (b Bool)) (int (i Int)) (flt (fk FK) (r Real)) (str (s String))
  (list (items (Seq JV))) (dict (m (Array String JV)))
  (val (code String) (raw JV))
  (obj (oid Int))
)))
(declare-const __x JV)
(declare-const __k FK)
(assert (= __x __x))
(assert (= __k __k))
"""


class Sorts:
    _inst = None

    def __init__(self):
        s = z3.Solver()
        s.from_string(_SMT_DECL)
        a = s.assertions()
        self.JV = a[0].arg(0).sort()
        self.FK = a[1].arg(0).sort()
        JV, FK = self.JV, self.FK
        self.con = {}
        self.rec = {}
        self.acc = {}
        for i in range(JV.num_constructors()):
            c = JV.constructor(i)
            name = c.name()
            self.con[name] = c
            self.rec[name] = JV.recognizer(i)
            for j in range(c.arity()):
                ac = JV.accessor(i, j)
                self.acc[ac.name()] = ac
        self.fk = {FK.constructor(i).name(): FK.constructor(i)() for i in range(FK.num_constructors())}
        S, I, R, B = z3.StringSort(), z3.IntSort(), z3.RealSort(), z3.BoolSort()
        F = z3.Function
        # assumed (uninterpreted) library functions -- the trusted base of Engine B
        self.int_str = F("int_str", I, S)                 # str(int)
        self.flt_str = F("flt_str", R, S)                 # str(finite float)
        self.repr_str = F("repr_str", S, S)               # repr(str)
        self.str_of = F("str_of", JV, S)                  # str() of containers / opaque objects
        self.lower = F("str_lower", S, S)
        self.upper = F("str_upper", S, S)
        self.float_ok = F("float_parses", S, B)           # float(str) does not raise ValueError
        self.float_fk = F("float_kind", S, FK)
        self.float_r = F("float_real", S, R)
        self.int_ok = F("int_parses", S, B)
        self.int_of = F("int_of_str", S, I)
        self.iso_ok = F("isoparse_ok", S, B)              # dateutil.parser.isoparse(str) does not raise ValueError
        self.uuid_ok = F("uuid_ok", S, B)                 # uuid.UUID(str) does not raise ValueError
        self.eval_code = F("eval_code", S, JV)            # value that the Python expression text evaluates to
        self.evaluable = F("code_evaluable", S, B)        # the text is an expression evaluable in the generated module
        self.dbl = F("nearest_double", R, R)              # the double nearest to a real (round-half-even); identity on doubles
        self.HALF_ULP_MAX = z3.RealVal(2 ** 970)          # ints below MAXF + 2**970 in magnitude still round to a finite double
        self.MAXF = z3.RealVal("179769313486231570814527423731704356798070567525844996598917476803157260780028538760589558632766878171540458953514382464234321326889464182768467546703537516986049910576551282076245490090389328944075868508455133942304583236903222948165808559332123348274797826204144723168738177180919299881250404026184124858368")

    def int_as_double(self, i):
        """float(i) for an integer term i whose nearest double is finite: exact up to 2**53, the nearest double beyond"""
        r = z3.ToReal(i)
        return z3.If(z3.And(i <= 2 ** 53, i >= -(2 ** 53)), r, self.dbl(r))

    def int_overflows_double(self, i):
        r = z3.ToReal(i)
        return z3.Or(r >= self.MAXF + self.HALF_ULP_MAX, r <= -(self.MAXF + self.HALF_ULP_MAX))

    @classmethod
    def get(cls):
        if cls._inst is None:
            cls._inst = Sorts()
        return cls._inst


# ---- symbolic values --------------------------------------------------------------------------------------------------

class SV:
    """dynamically typed value: a JV term"""
    __slots__ = ("t",)

    def __init__(self, t):
        self.t = t

    def __repr__(self):
        return f"SV({self.t})"


class SBool:
    __slots__ = ("t",)

    def __init__(self, t):
        self.t = t

    def __repr__(self):
        return f"SBool({self.t})"


class SInt:
    __slots__ = ("t",)

    def __init__(self, t):
        self.t = t

    def __repr__(self):
        return f"SInt({self.t})"


class SStr:
    __slots__ = ("t",)

    def __init__(self, t):
        self.t = t

    def __repr__(self):
        return f"SStr({self.t})"


class SFloat:
    __slots__ = ("k", "r")

    def __init__(self, k, r):
        self.k, self.r = k, r

    def __repr__(self):
        return f"SFloat({self.k},{self.r})"


class SObj:
    """instance of a known class (real Python class object in .cls) with symbolic fields; mutable, identity = aliasing"""

    def __init__(self, cls, fields=None, tag=None):
        self.cls = cls
        self.fields = fields if fields is not None else {}
        self.tag = tag

    def __repr__(self):
        return f"SObj<{self.cls.__name__}>({self.fields})"


class SList:
    """list of known length with symbolic elements"""

    def __init__(self, items=None):
        self.items = list(items or [])

    def __repr__(self):
        return f"SList({self.items})"


class STuple(SList):
    pass


class SDict:
    """dict with concrete (hashable python) keys in insertion order and symbolic values"""

    def __init__(self, items=None, rest=None, rest_maps=None, rest_dom=None):
        self.items = dict(items or {})
        self.rest = rest            # z3 Array String -> JV for all keys not in items (None: no further keys)
        self.rest_maps = list(rest_maps or [])   # element functions applied to every value of the remainder
        self.rest_dom = rest_dom    # (JV term -> z3 Bool) assumed of every present value of the remainder

    def __repr__(self):
        return f"SDict({self.items}{', rest=' + str(self.rest) if self.rest is not None else ''})"


class SSeq:
    """a list of symbolic length: the elements of a z3 sequence `base` (Seq JV), each passed through the element
    functions `maps` (python callables value -> value, re-running interpreted loop bodies).  `dom` (JV term -> z3 Bool)
    is what is assumed of every element of base."""

    def __init__(self, base, dom=None, maps=None):
        self.base = base
        self.dom = dom
        self.maps = list(maps or [])

    def __repr__(self):
        return f"SSeq({self.base}, maps={len(self.maps)})"


class SGenerated:
    """what an eagerly run generator function yielded: an ordered list of pieces (SList of known length / SSeq of symbolic length)"""

    def __init__(self):
        self.pieces = []


class SFiltered:
    """{image(x) for x in seq if keep(x)} over a collection of symbolic length (set / list comprehension with a condition)"""

    def __init__(self, seq, keep, image, kind="SetComp"):
        self.seq, self.keep, self.image, self.kind = seq, keep, image, kind

    def __repr__(self):
        return f"SFiltered({self.seq})"


class SDictItems:
    """d.items() of a dict with a symbolic remainder (only usable as the iterable of a for loop)"""

    def __init__(self, d):
        self.d = d


class SSet:
    """set with concrete python elements (strings / enum members)"""

    def __init__(self, items=None):
        self.items = set(items or [])

    def __repr__(self):
        return f"SSet({self.items})"


class SOpaque:
    """a value the engine does not look into (e.g. Config, pydantic data) identified by a name; attribute reads yield
    further opaque values or values supplied by the harness through .attrs"""

    def __init__(self, name, attrs=None, cls=None):
        self.name = name
        self.attrs = attrs if attrs is not None else {}
        self.cls = cls

    def __repr__(self):
        return f"SOpaque({self.name})"


class SFunc:
    """a python-level callable value inside the interpreted program (bound method / function / class / lambda)"""

    def __init__(self, kind, target, self_val=None, name=""):
        self.kind, self.target, self.self_val, self.name = kind, target, self_val, name


class Frame:
    def __init__(self, module, locals_, func_qualname="", cls=None):
        self.module = module          # real module object (globals)
        self.locals = locals_
        self.qualname = func_qualname
        self.cls = cls                # real class for super()/cls resolution


# ---- the interpreter -------------------------------------------------------------------------------------------------

class Path:
    def __init__(self, decisions):
        self.decisions = list(decisions)
        self.pos = 0
        self.pc = []            # branch conditions taken
        self.facts = []         # ground instances of assumed library axioms
        self.notes = []
        self.effects = []       # effect trace (for effect contracts)


class Interp:
    MAX_PATHS = 4000
    MAX_INLINE_DEPTH = 6

    def __init__(self, timeout_ms=10000, contracts=None, lib=None):
        self.Z = Sorts.get()
        self.timeout_ms = timeout_ms
        self.contracts = contracts or {}     # qualname -> callable summary(interp, args, kwargs) (assumed post of callee)
        self.path = None
        self.pending = []
        self.fresh_id = itertools.count()
        self.depth = 0
        self.solver_time = 0.0
        self.queries = 0
        from . import libmodels
        self.lib = libmodels.MODELS if lib is None else lib
        self.unknown_sat = 0
        self.elem_domains = {}      # id of a JV list term -> (JV term -> z3 Bool): assumed domain of its elements
        self.in_clause = False      # equality of mapped sequences introduces fresh witnesses: only sound in clauses
        self._generic_key = None
        self._generic_store = None
        self.inlined = {}           # repo functions whose real source was interpreted inside the proof of a caller
        self.loop_specs = {}        # (function qualname, loop ordinal) -> LoopSpec  (inductive invariants from contracts)
        self.loop_obligations = []  # (description, z3 Bool that must be valid under the path condition at that point)

    # -- solver ---------------------------------------------------------------------------------------------------------
    def _check(self, extra):
        import time
        s = z3.Solver()
        s.set("timeout", self.timeout_ms)
        for c in self.path.pc:
            s.add(c)
        for c in self.path.facts:
            s.add(c)
        for c in self.base_facts():
            s.add(c)
        for c in extra:
            s.add(c)
        t = time.time()
        r = s.check()
        self.solver_time += time.time() - t
        self.queries += 1
        if r == z3.unsat and SECOND["budget"] > 0:
            _second_backend(s)
        return r, s

    _base = None

    def base_facts(self):
        """ground axioms about constant code texts (assumed): True/False/None/UNSET evaluate to themselves"""
        if Interp._base is None:
            Z = self.Z
            S = z3.StringVal
            Interp._base = [
                Z.evaluable(S("True")), Z.eval_code(S("True")) == Z.con["bool"](z3.BoolVal(True)),
                Z.evaluable(S("False")), Z.eval_code(S("False")) == Z.con["bool"](z3.BoolVal(False)),
                Z.evaluable(S("None")), Z.eval_code(S("None")) == Z.con["none"](),
                Z.evaluable(S("UNSET")), Z.eval_code(S("UNSET")) == Z.con["unset"](),
            ]
        return Interp._base

    def feasible(self, cond):
        r, _ = self._check([cond])
        if r == z3.unknown:
            self.unknown_sat += 1
            return True
        return r == z3.sat

    def must(self, cond):
        """is cond entailed by the path condition?"""
        r, _ = self._check([z3.Not(cond)])
        return r == z3.unsat

    def branch(self, cond):
        """decide a symbolic boolean; returns a python bool and records the decision"""
        if isinstance(cond, bool):
            return cond
        cond = z3.simplify(cond)
        if z3.is_true(cond):
            return True
        if z3.is_false(cond):
            return False
        p = self.path
        if p.pos < len(p.decisions):
            d = p.decisions[p.pos]
        else:
            t = self.feasible(cond)
            f = self.feasible(z3.Not(cond))
            if t and f:
                self.pending.append(p.decisions[:p.pos] + [False])
                d = True
            elif t:
                d = True
            elif f:
                d = False
            else:
                raise Infeasible()
            p.decisions.append(d)
        p.pos += 1
        p.pc.append(cond if d else z3.Not(cond))
        return d

    def choose(self, n, feasible_fn=None):
        """non-deterministic choice among n alternatives, encoded as a sequence of binary decisions"""
        for i in range(n - 1):
            cond = z3.Bool(f"__choice{next(self.fresh_id)}")
            # a fresh boolean: both sides feasible; decision replay keeps them apart
            if self.branch_free():
                return i
        return n - 1

    def branch_free(self):
        p = self.path
        if p.pos < len(p.decisions):
            d = p.decisions[p.pos]
        else:
            self.pending.append(p.decisions[:p.pos] + [False])
            d = True
            p.decisions.append(d)
        p.pos += 1
        return d

    def assume(self, cond):
        self.path.pc.append(cond)

    def fact(self, cond):
        self.path.facts.append(cond)

    def fresh(self, prefix, sort):
        return z3.Const(f"{prefix}!{next(self.fresh_id)}", sort)

    # -- conversions ----------------------------------------------------------------------------------------------------
    def to_jv(self, v):
        self._jv_depth = getattr(self, "_jv_depth", 0) + 1
        try:
            if self._jv_depth > 60:
                raise CyclicValue("value nested deeper than 60 levels (a structure that contains itself)")
            return self._to_jv(v)
        finally:
            self._jv_depth -= 1

    def _to_jv(self, v):
        Z = self.Z
        if isinstance(v, SV):
            return v.t
        if v is None:
            return Z.con["none"]()
        if isinstance(v, bool):
            return Z.con["bool"](z3.BoolVal(v))
        if isinstance(v, int):
            return Z.con["int"](z3.IntVal(v))
        if isinstance(v, float):
            return self.to_jv(self.float_const(v))
        if isinstance(v, str):
            return Z.con["str"](z3.StringVal(v))
        if isinstance(v, SBool):
            return Z.con["bool"](v.t)
        if isinstance(v, SInt):
            return Z.con["int"](v.t)
        if isinstance(v, SStr):
            return Z.con["str"](v.t)
        if isinstance(v, SFloat):
            return Z.con["flt"](v.k, v.r)
        if isinstance(v, SObj) and v.cls.__name__ == "Value" and "python_code" in v.fields:
            return Z.con["val"](self.to_str_term(v.fields["python_code"]), self.to_jv(v.fields["raw_value"]))
        if isinstance(v, SList) and not isinstance(v, STuple):
            seq = z3.Empty(z3.SeqSort(Z.JV))
            for it in v.items:
                seq = z3.Concat(seq, z3.Unit(self.to_jv(it)))
            return Z.con["list"](seq)
        if isinstance(v, SDict):
            arr = self.rest_term(v) if v.rest is not None else z3.K(z3.StringSort(), Z.con["absent"]())
            for k, x in v.items.items():
                if not isinstance(k, str):
                    raise Unsupported("non-string dict key in a JSON value")
                arr = z3.Store(arr, z3.StringVal(k), self.to_jv(x))
            return Z.con["dict"](arr)
        if isinstance(v, SSeq):
            return Z.con["list"](self.seq_term(v))
        if isinstance(v, _Tagged):
            return v.t
        if isinstance(v, SObj):
            if v.tag is None:
                v.tag = next(self.fresh_id) + 1000
            return Z.con["obj"](z3.IntVal(v.tag))
        import enum as _enum
        if isinstance(v, _enum.Enum) or _is_singleton(v):
            return Z.con["obj"](z3.IntVal(-(abs(hash(repr(v))) % (10 ** 9)) - 1))
        raise Unsupported(f"cannot lift {type(v).__name__} to JV")

    def seq_term(self, q):
        """z3 Seq JV term of an SSeq.  With element maps the result is a fresh sequence R constrained by the generic
        element argument:  (dom(x*) ==> maps(x*) == x*)  ==>  R == base   (x* fresh: a counterexample element makes R
        unconstrained, so the enclosing obligation fails exactly when some element is not mapped to itself)."""
        if not q.maps:
            return q.base
        Z = self.Z
        cached = getattr(q, "_term", None)
        if cached is not None:
            return cached
        x = self.fresh("elem", Z.JV)
        R = self.fresh("mapped", z3.SeqSort(Z.JV))
        val = SV(x)
        hyp = q.dom(x) if q.dom is not None else z3.BoolVal(True)
        saved_pc = len(self.path.pc)
        try:
            self.path.pc.append(hyp)
            for f in q.maps:
                val = f(val)
            ident = self.to_jv(val) == x
            plain = self.is_plain_json(self.to_jv(val))
        except PyRaise as e:
            # some element makes the element function raise: the whole loop raises
            raise
        finally:
            extra = self.path.pc[saved_pc + 1:]
            del self.path.pc[saved_pc:]
        # branch decisions taken while mapping the generic element are conditions on x*: keep them as hypotheses
        cond = z3.And(hyp, *extra) if extra else hyp
        self.fact(z3.Implies(z3.Implies(cond, ident), R == q.base))
        self.fact(z3.Length(R) == z3.Length(q.base))
        q._term = R
        q._elem_plain = z3.Implies(cond, plain)
        return R

    def rest_term(self, d):
        """z3 array of the remainder of a dict; with value maps: generic-entry argument as in seq_term"""
        if not d.rest_maps:
            return d.rest
        Z = self.Z
        cached = getattr(d, "_rest_term", None)
        if cached is not None and cached[0] is d.rest and cached[1] == len(d.rest_maps):
            return cached[2]
        k = self.fresh("key", z3.StringSort())
        x = z3.Select(d.rest, k)
        R = self.fresh("mappedrest", z3.ArraySort(z3.StringSort(), Z.JV))
        hyp = z3.Not(Z.rec["absent"](x))
        if d.rest_dom is not None:
            hyp = z3.And(hyp, d.rest_dom(x))
        saved_pc = len(self.path.pc)
        val = SV(x)
        try:
            self.path.pc.append(hyp)
            for f in d.rest_maps:
                val = f(val)
            ident = self.to_jv(val) == x
            plain = self.is_plain_json(self.to_jv(val))
        finally:
            extra = self.path.pc[saved_pc + 1:]
            del self.path.pc[saved_pc:]
        cond = z3.And(hyp, *extra) if extra else hyp
        self.fact(z3.Implies(z3.Implies(cond, ident), R == d.rest))
        d._rest_term = (d.rest, len(d.rest_maps), R)
        d._rest_plain = z3.Implies(cond, plain)
        return R

    def is_plain_json(self, t):
        """the JV term is plain JSON data at the top level (no UNSET/absent/opaque object/Value)"""
        r = self.Z.rec
        return z3.Or(r["none"](t), r["bool"](t), r["int"](t), r["flt"](t), r["str"](t), r["list"](t), r["dict"](t))

    def float_const(self, f):
        Z = self.Z
        if f != f:
            return SFloat(Z.fk["nan"], z3.RealVal(0))
        if f == float("inf"):
            return SFloat(Z.fk["pinf"], z3.RealVal(0))
        if f == float("-inf"):
            return SFloat(Z.fk["ninf"], z3.RealVal(0))
        from fractions import Fraction
        fr = Fraction(f)
        return SFloat(Z.fk["fin"], z3.RealVal(f"{fr.numerator}/{fr.denominator}"))

    def to_str_term(self, v):
        if isinstance(v, str):
            return z3.StringVal(v)
        if isinstance(v, SStr):
            return v.t
        if isinstance(v, SV):
            # must be a string on this path
            if self.must(self.Z.rec["str"](v.t)):
                return self.Z.acc["s"](v.t)
        raise Unsupported(f"string expected, got {v!r}")

    def view(self, v):
        """typed view of a dynamically typed value: forks on the constructor of the JV term"""
        if not isinstance(v, SV):
            return v
        Z = self.Z
        t = v.t
        order = ["none", "str", "val", "bool", "int", "flt", "list", "dict", "obj", "unset", "absent"]
        for name in order:
            if self.branch(Z.rec[name](t)):
                if name == "none":
                    return None
                if name == "bool":
                    return SBool(Z.acc["b"](t))
                if name == "int":
                    return SInt(Z.acc["i"](t))
                if name == "flt":
                    return SFloat(Z.acc["fk"](t), Z.acc["r"](t))
                if name == "str":
                    return SStr(Z.acc["s"](t))
                if name == "val":
                    from openapi_python_client.parser.properties.protocol import Value
                    return SObj(Value, {"python_code": SStr(Z.acc["code"](t)), "raw_value": SV(Z.acc["raw"](t))})
                if name == "dict":
                    return self._cached_view(t, lambda: SDict({}, rest=Z.acc["m"](t)))
                if name == "list":
                    return self._cached_view(t, lambda: SSeq(Z.acc["items"](t), dom=self.elem_domains.get(t.get_id())))
                return _Tagged(name, t)
        raise Infeasible()

    def _cached_view(self, t, make):
        cache = self.path.__dict__.setdefault("views", {})
        k = t.get_id()
        if k not in cache:
            cache[k] = make()
        return cache[k]

    def truth(self, v):
        """python truthiness as python bool or z3 Bool"""
        Z = self.Z
        if v is None:
            return False
        if isinstance(v, (bool, int, float, str, tuple, frozenset, set, list, dict)):
            return bool(v)
        if isinstance(v, SBool):
            return v.t
        if isinstance(v, SInt):
            return v.t != 0
        if isinstance(v, SStr):
            return z3.Length(v.t) > 0
        if isinstance(v, SFloat):
            return z3.Not(z3.And(v.k == Z.fk["fin"], v.r == 0))
        if isinstance(v, (SList, STuple)):
            return len(v.items) > 0
        if isinstance(v, SDict):
            if v.rest is not None and not v.items:
                dict_nonempty = z3.Function("dict_nonempty", z3.ArraySort(z3.StringSort(), Z.JV), z3.BoolSort())
                return dict_nonempty(self.rest_term(v))
            return len(v.items) > 0
        if isinstance(v, SSeq):
            return z3.Length(v.base) > 0
        if isinstance(v, SSet):
            return len(v.items) > 0
        if isinstance(v, SObj):
            if hasattr(v.cls, "__len__") or hasattr(v.cls, "__bool__"):
                raise Unsupported(f"truthiness of {v.cls.__name__}")
            return True
        if isinstance(v, (SFunc, SOpaque)):
            if isinstance(v, SOpaque) and getattr(v, "nonempty", None) is not None:
                return v.nonempty
            if isinstance(v, SOpaque) and v.cls in (list, dict, set, str):
                raise Unsupported(f"truthiness of opaque {v.name}")
            if isinstance(v, SOpaque) and v.cls is None:
                # a value of unknown type: its truth value is unknown (but the same every time it is asked)
                t = getattr(v, "_truth", None)
                if t is None:
                    t = v._truth = self.fresh("truth_of_" + re.sub(r"\W+", "_", v.name)[:30], z3.BoolSort())
                return t
            return True
        if isinstance(v, SV):
            return self.truth(self.view(v))
        if isinstance(v, _Tagged):
            if v.tag == "list":
                return z3.Length(Z.acc["items"](v.t)) > 0
            if v.tag in ("unset", "absent"):
                return False
            if v.tag == "dict":
                raise Unsupported("truthiness of symbolic dict")
            return True
        if isinstance(v, type) or inspect.isfunction(v) or inspect.ismodule(v):
            return True
        if isinstance(v, _Poison):
            raise Unsupported(f"use of {v.name} after a generically executed loop")
        if not isinstance(v, (SSeq, SDictItems)):
            return bool(v)       # a real python object (enum member, UNSET sentinel, ...)
        raise Unsupported(f"truthiness of {type(v).__name__}")

    def is_true(self, v):
        return self.branch(self.truth(v))

    # -- equality -------------------------------------------------------------------------------------------------------
    def py_eq(self, a, b):
        """python == as python bool or z3 Bool"""
        self._eq_depth = getattr(self, "_eq_depth", 0) + 1
        try:
            if self._eq_depth > 60:
                raise CyclicValue("comparison nested deeper than 60 levels (a structure that contains itself)")
            return self._py_eq(a, b)
        finally:
            self._eq_depth -= 1

    def _py_eq(self, a, b):
        Z = self.Z
        if isinstance(a, SV) and isinstance(b, SV):
            # structural equality, plus numeric cross-type equality, minus NaN reflexivity
            ta, tb = a.t, b.t
            num = lambda t: z3.Or(Z.rec["int"](t), Z.rec["flt"](t), Z.rec["bool"](t))
            isnan = lambda t: z3.And(Z.rec["flt"](t), Z.acc["fk"](t) == Z.fk["nan"])
            same = z3.And(ta == tb, z3.Not(isnan(ta)))
            if z3.eq(ta, tb):
                return z3.Not(isnan(ta))
            cross = z3.And(num(ta), num(tb), self._numval_ok(ta), self._numval_ok(tb), self._numval(ta) == self._numval(tb))
            return z3.Or(same, cross)
        if isinstance(a, (SSeq,)) or isinstance(b, (SSeq,)) or (isinstance(a, SDict) and a.rest is not None) or \
                (isinstance(b, SDict) and b.rest is not None) or \
                (isinstance(a, SV) and isinstance(b, (SDict, SList)) and not isinstance(b, STuple)) or \
                (isinstance(b, SV) and isinstance(a, (SDict, SList)) and not isinstance(a, STuple)):
            if not self.in_clause and (isinstance(a, SSeq) and a.maps or isinstance(b, SSeq) and b.maps):
                raise Unsupported("equality of element-wise mapped sequences outside a post-condition")
            return self.to_jv(a) == self.to_jv(b)
        if isinstance(a, SV):
            a = self.view(a)
        if isinstance(b, SV):
            b = self.view(b)
        if isinstance(a, _Tagged) or isinstance(b, _Tagged):
            if isinstance(a, _Tagged) and isinstance(b, _Tagged):
                return a.t == b.t
            return False
        num_types = (bool, int, float, SBool, SInt, SFloat)
        if isinstance(a, num_types) and isinstance(b, num_types):
            fa, fb = self.as_float(a), self.as_float(b)
            return z3.And(fa.k == Z.fk["fin"], fb.k == Z.fk["fin"], fa.r == fb.r) if not (
                isinstance(a, (bool, int, float)) and isinstance(b, (bool, int, float))) else a == b
        if isinstance(a, (str, SStr)) and isinstance(b, (str, SStr)):
            if isinstance(a, str) and isinstance(b, str):
                return a == b
            return self.to_str_term(a) == self.to_str_term(b)
        if a is None or b is None:
            return a is None and b is None
        if isinstance(a, SObj) and isinstance(b, SObj):
            if a is b:
                return True
            if a.cls is not b.cls:
                return False
            if "__encoded__" in a.fields and "__encoded__" in b.fields:
                return self.py_eq(a.fields["__encoded__"], b.fields["__encoded__"])
            if _is_enum_member_obj(a):
                return a is b
            if _has_value_eq(a.cls):
                conj = []
                for f in _eq_fields(a.cls):
                    e = self.py_eq(a.fields.get(f), b.fields.get(f))
                    if e is False:
                        return False
                    if e is not True:
                        conj.append(e)
                return z3.And(*conj) if conj else True
            return False
        if isinstance(a, (SList,)) and isinstance(b, (SList,)):
            if isinstance(a, STuple) != isinstance(b, STuple):
                return False
            if len(a.items) != len(b.items):
                return False
            conj = []
            for x, y in zip(a.items, b.items):
                e = self.py_eq(x, y)
                if e is False:
                    return False
                if e is not True:
                    conj.append(e)
            return z3.And(*conj) if conj else True
        if isinstance(a, SOpaque) and isinstance(b, SOpaque) and hasattr(a, "opaque_eq"):
            return True if a is b else a.opaque_eq(self, b)
        for x, y in ((a, b), (b, a)):
            if isinstance(x, SOpaque) and hasattr(x, "eq_any"):
                return x.eq_any(self, y)
        if type(a) in (SObj, SList, SDict, SSet, SOpaque, SFunc) or type(b) in (SObj, SList, SDict, SSet, SOpaque, SFunc):
            if isinstance(a, SOpaque) and isinstance(b, SOpaque):
                if a is b:
                    return True
                if hasattr(a, "opaque_eq"):
                    return a.opaque_eq(self, b)
                n1, n2 = sorted([a.name, b.name])
                return z3.Bool(f"opaque_eq[{n1}=={n2}]")      # unknown, but consistent
            if isinstance(a, SSet) and isinstance(b, SSet):
                return a.items == b.items
            if isinstance(a, (SObj, SList, SDict, SSet)) and isinstance(b, (SObj, SList, SDict, SSet)):
                if isinstance(a, SDict) and isinstance(b, SDict):
                    if list(a.items.keys()) != list(b.items.keys()) and set(a.items) != set(b.items):
                        return False
                    conj = []
                    for k in a.items:
                        e = self.py_eq(a.items[k], b.items[k])
                        if e is False:
                            return False
                        if e is not True:
                            conj.append(e)
                    return z3.And(*conj) if conj else True
                return False
            return False
        try:
            return a == b
        except Exception:
            raise Unsupported(f"equality of {type(a).__name__} and {type(b).__name__}")

    def _numval_ok(self, t):
        Z = self.Z
        return z3.Or(z3.Not(Z.rec["flt"](t)), Z.acc["fk"](t) == Z.fk["fin"])

    def _numval(self, t):
        Z = self.Z
        return z3.If(Z.rec["int"](t), z3.ToReal(Z.acc["i"](t)),
                     z3.If(Z.rec["bool"](t), z3.If(Z.acc["b"](t), z3.RealVal(1), z3.RealVal(0)), Z.acc["r"](t)))

    def as_float(self, v):
        """the numeric value of v as a (kind, real) pair -- exact, for comparisons; float(<int>) is int_to_float"""
        Z = self.Z
        if isinstance(v, SFloat):
            return v
        if isinstance(v, bool):
            return SFloat(Z.fk["fin"], z3.RealVal(int(v)))
        if isinstance(v, int):
            return SFloat(Z.fk["fin"], z3.RealVal(v))      # the exact numeric value (comparisons are exact in Python)
        if isinstance(v, float):
            return self.float_const(v)
        if isinstance(v, SInt):
            return SFloat(Z.fk["fin"], z3.ToReal(v.t))
        if isinstance(v, SBool):
            return SFloat(Z.fk["fin"], z3.If(v.t, z3.RealVal(1), z3.RealVal(0)))
        raise Unsupported("numeric value expected")

    def int_to_float(self, i):
        """float(<int term>): OverflowError when the nearest double is not finite, otherwise the nearest double"""
        Z = self.Z
        if self.branch(Z.int_overflows_double(i)):
            self.raise_(OverflowError, "int too large to convert to float")
        r = Z.int_as_double(i)
        self.assume(z3.And(r <= Z.MAXF, r >= -Z.MAXF))
        return SFloat(Z.fk["fin"], r)

    # -- exceptions -----------------------------------------------------------------------------------------------------
    def raise_(self, cls, msg=""):
        raise PyRaise(SObj(cls, {"args": STuple([msg])}))

    # -- str() ---------------------------------------------------------------------------------------------------------
    def py_str(self, v):
        Z = self.Z
        if isinstance(v, SV):
            v = self.view(v)
        if isinstance(v, str):
            return v
        if isinstance(v, SStr):
            return v
        if v is None:
            return "None"
        if isinstance(v, bool):
            return str(v)
        if isinstance(v, int):
            return str(v)
        if isinstance(v, float):
            return str(v)
        if isinstance(v, SBool):
            return SStr(z3.If(v.t, z3.StringVal("True"), z3.StringVal("False")))
        if isinstance(v, SInt):
            t = Z.int_str(v.t)
            self.fact(Z.eval_code(t) == Z.con["int"](v.t))
            self.fact(Z.evaluable(t))
            self.fact(z3.InRe(t, _INT_RE()))
            c0 = z3.StrToCode(z3.SubString(t, 0, 1))
            self.fact(z3.Implies(v.t >= 0, z3.And(c0 >= 48, c0 <= 57)))      # a non-negative int starts with a digit
            return SStr(t)
        if isinstance(v, SFloat):
            fin = Z.flt_str(v.r)
            t = z3.If(v.k == Z.fk["fin"], fin,
                      z3.If(v.k == Z.fk["pinf"], z3.StringVal("inf"),
                            z3.If(v.k == Z.fk["ninf"], z3.StringVal("-inf"), z3.StringVal("nan"))))
            self.fact(Z.eval_code(fin) == Z.con["flt"](Z.fk["fin"], v.r))
            self.fact(Z.evaluable(fin))
            self.fact(z3.Not(Z.evaluable(z3.StringVal("inf"))))
            self.fact(z3.Not(Z.evaluable(z3.StringVal("-inf"))))
            self.fact(z3.Not(Z.evaluable(z3.StringVal("nan"))))
            self.fact(fin != z3.StringVal("inf"))
            self.fact(fin != z3.StringVal("-inf"))
            self.fact(fin != z3.StringVal("nan"))
            return SStr(t)
        if isinstance(v, _Tagged):
            return SStr(Z.str_of(v.t))
        if isinstance(v, SObj):
            if issubclass(v.cls, BaseException):
                a = v.fields.get("args")
                if a is not None and a.items:
                    return self.py_str(a.items[0])
                return ""
            if "__of__" in v.fields and v.cls.__name__ == "date":
                # str(date) == date.isoformat()
                import datetime as _dt
                return self.lib[_dt.date.isoformat](self, [v], {})
            if "__text__" in v.fields and v.cls.__name__ == "UUID":
                from . import libmodels
                return libmodels.uuid_str(self, v)
            if issubclass(v.cls, str):
                inner = v.fields.get("__str__")
                if inner is not None:
                    return inner
            return SStr(Z.str_of(self.to_jv(v)))
        if isinstance(v, (SList, SDict, SSet, SSeq)):
            return SStr(self.fresh("str_of_container", z3.StringSort()))
        if isinstance(v, SOpaque):
            return SStr(self.fresh("str_of_" + v.name, z3.StringSort()))
        if hasattr(v, "__members__") or isinstance(v, type):
            return str(v)
        import enum
        if isinstance(v, enum.Enum):
            return str(v)
        if isinstance(v, (set, frozenset, tuple, list, dict)):
            return str(v)
        raise Unsupported(f"str() of {type(v).__name__}")

    def py_repr(self, v):
        Z = self.Z
        if isinstance(v, SV):
            v = self.view(v)
        if isinstance(v, str):
            v = SStr(z3.StringVal(v))
        if isinstance(v, SStr):
            t = Z.repr_str(v.t)
            self.fact(Z.eval_code(t) == Z.con["str"](v.t))
            self.fact(Z.evaluable(t))
            return SStr(t)
        if isinstance(v, (SInt, SBool, SFloat, bool, int, float)) or v is None:
            return self.py_str(v)
        if isinstance(v, _Tagged):
            return SStr(Z.str_of(v.t))
        if isinstance(v, (SList, SDict, SSet, SSeq)):
            return SStr(self.fresh("repr_of_container", z3.StringSort()))
        if isinstance(v, (set, frozenset, tuple, list, dict, type)) or isinstance(v, __import__("enum").Enum):
            return repr(v)
        raise Unsupported(f"repr() of {type(v).__name__}")

    def concat(self, parts):
        if all(isinstance(p, str) for p in parts):
            return "".join(parts)
        ts = [self.to_str_term(p) for p in parts if not (isinstance(p, str) and p == "")]
        if len(ts) == 1:
            return SStr(ts[0])
        return SStr(z3.Concat(*ts))

    # -- running a function ---------------------------------------------------------------------------------------------
    def explore(self, run_path):
        """run_path(interp) executes one path from the start and returns an outcome; explores all decision vectors.
        Yields (path, outcome) where outcome is ('return', value) | ('raise', SObj)."""
        import os
        import time as _time
        self.pending = [[]]
        n = 0
        # wall-clock budget per case: a change that makes the path count explode ends as "undecided", not as a check that hangs
        limit = float(os.environ.get("PYVC_CASE_SECONDS", "0") or 0) or (150.0 if getattr(self, "tier", "quick") == "quick" else 1500.0)
        t_end = _time.time() + limit
        while self.pending:
            dec = self.pending.pop()
            self.path = Path(dec)
            n += 1
            if n > self.MAX_PATHS:
                raise Unsupported(f"more than {self.MAX_PATHS} paths")
            if n % 16 == 0 and _time.time() > t_end:
                raise Unsupported(f"time budget of {int(limit)} s per case exceeded after {n} paths")
            try:
                out = run_path(self)
            except Infeasible:
                continue
            except PyRaise as e:
                out = ("raise", e.value)
            yield self.path, out

    def call_function(self, fn_node, module, args, kwargs, qualname="", cls=None, self_val=None):
        """interpret a FunctionDef with bound arguments; returns the returned value (raises PyRaise)"""
        if self.depth > self.MAX_INLINE_DEPTH:
            raise Unsupported(f"inlining depth exceeded at {qualname}")
        locals_ = self.bind(fn_node, module, args, kwargs, self_val)
        fr = Frame(module, locals_, qualname, cls)
        fr.local_names = _function_locals(fn_node)
        is_gen = any(isinstance(n, (ast.Yield, ast.YieldFrom)) for st in fn_node.body for n in ast.walk(st))
        if is_gen:
            # a generator function is run eagerly: what it yields is collected in order (sound for consumers that exhaust it
            # and do not interleave effects with the generator's own -- the generators of /repo only read)
            fr.yielded = SGenerated()
        self.depth += 1
        try:
            self.exec_block(fn_node.body, fr)
        except _Return as r:
            return fr.yielded if is_gen else r.value
        finally:
            self.depth -= 1
        return fr.yielded if is_gen else None

    def bind(self, fn, module, args, kwargs, self_val):
        a = fn.args
        params = [p.arg for p in a.posonlyargs + a.args]
        locals_ = {}
        args = list(args)
        if self_val is not None:
            args = [self_val] + args
        if len(args) > len(params) and a.vararg is None:
            raise Unsupported(f"too many positional arguments for {fn.name}")
        for p, v in zip(params, args):
            locals_[p] = v
        if a.vararg is not None:
            locals_[a.vararg.arg] = STuple(args[len(params):])
        kwargs = dict(kwargs)
        kwonly = [p.arg for p in a.kwonlyargs]
        for k in list(kwargs):
            if k in params or k in kwonly:
                if k in locals_:
                    raise Unsupported("duplicate argument")
                locals_[k] = kwargs.pop(k)
        if a.kwarg is not None:
            locals_[a.kwarg.arg] = SDict(kwargs)
        elif kwargs:
            raise Unsupported(f"unexpected keyword arguments {list(kwargs)} for {fn.name}")
        # defaults
        fr0 = Frame(module, {}, "")
        nd = len(a.defaults)
        for i, d in enumerate(a.defaults):
            p = params[len(params) - nd + i]
            if p not in locals_:
                locals_[p] = self.eval(d, fr0)
        for p, d in zip(kwonly, a.kw_defaults):
            if p not in locals_:
                if d is None:
                    raise Unsupported(f"missing keyword-only argument {p} for {fn.name}")
                locals_[p] = self.eval(d, fr0)
        for p in params:
            if p not in locals_:
                raise Unsupported(f"missing argument {p} for {fn.name}")
        return locals_

    # -- statements -----------------------------------------------------------------------------------------------------
    def exec_block(self, stmts, fr):
        for st in stmts:
            self.exec_stmt(st, fr)

    def exec_stmt(self, st, fr):
        if isinstance(st, ast.Expr):
            if isinstance(st.value, ast.Constant):
                return
            self.eval(st.value, fr)
            return
        if isinstance(st, ast.Assign):
            v = self.eval(st.value, fr)
            for tgt in st.targets:
                self.assign(tgt, v, fr)
            return
        if isinstance(st, ast.AnnAssign):
            if st.value is not None:
                self.assign(st.target, self.eval(st.value, fr), fr)
            return
        if isinstance(st, ast.AugAssign):
            cur = self.eval(_load(st.target), fr)
            v = self.binop(st.op, cur, self.eval(st.value, fr), inplace=True)
            self.assign(st.target, v, fr)
            return
        if isinstance(st, ast.Return):
            raise _Return(self.eval(st.value, fr) if st.value is not None else None)
        if isinstance(st, ast.If):
            if self.is_true(self.eval(st.test, fr)):
                self.exec_block(st.body, fr)
            else:
                self.exec_block(st.orelse, fr)
            return
        if isinstance(st, ast.Pass):
            return
        if isinstance(st, ast.Raise):
            if st.exc is None:
                cur = fr.locals.get("__current_exc__")
                if cur is None:
                    raise Unsupported("bare raise outside handler")
                raise PyRaise(cur)
            e = self.eval(st.exc, fr)
            if isinstance(e, type) and issubclass(e, BaseException):
                e = SObj(e, {"args": STuple([])})
            if not (isinstance(e, SObj) and issubclass(e.cls, BaseException)):
                raise Unsupported("raise of a non-exception")
            raise PyRaise(e)
        if isinstance(st, ast.Try):
            return self.exec_try(st, fr)
        if isinstance(st, ast.For):
            return self.exec_for(st, fr)
        if isinstance(st, ast.While):
            return self.exec_while(st, fr)
        if isinstance(st, ast.Break):
            raise _Break()
        if isinstance(st, ast.Continue):
            raise _Continue()
        if isinstance(st, (ast.Import, ast.ImportFrom)):
            return self.exec_import(st, fr)
        if isinstance(st, ast.Assert):
            if not self.is_true(self.eval(st.test, fr)):
                self.raise_(AssertionError)
            return
        if isinstance(st, ast.Delete):
            for t in st.targets:
                if isinstance(t, ast.Subscript):
                    obj = self.eval(t.value, fr)
                    key = self.eval(t.slice, fr)
                    self.del_item(obj, key)
                elif isinstance(t, ast.Name):
                    fr.locals.pop(t.id, None)
                else:
                    raise Unsupported("del target")
            return
        if isinstance(st, (ast.FunctionDef, ast.AsyncFunctionDef)):
            self._def_time_names(st, fr)
            fr.locals[st.name] = SFunc("closure", (st, fr), name=st.name)
            return
        if isinstance(st, ast.With):
            raise Unsupported("with statement")
        if isinstance(st, ast.Nonlocal) or isinstance(st, ast.Global):
            return
        raise Unsupported(f"statement {type(st).__name__}")

    def _def_time_names(self, fn, fr):
        """python evaluates parameter annotations, the return annotation and default values when the `def` statement runs,
        in the enclosing scope: a name in them that is a not-yet-bound local of the enclosing function raises
        UnboundLocalError, a name bound nowhere raises NameError (string annotations are constants: nothing to resolve)"""
        a = fn.args
        exprs = [p.annotation for p in a.posonlyargs + a.args + a.kwonlyargs if p.annotation is not None]
        exprs += [x.annotation for x in (a.vararg, a.kwarg) if x is not None and x.annotation is not None]
        exprs += [d for d in list(a.defaults) + list(a.kw_defaults) if d is not None]
        if fn.returns is not None:
            exprs.append(fn.returns)
        for e in exprs:
            for n in ast.walk(e):
                if isinstance(n, ast.Name) and isinstance(n.ctx, ast.Load):
                    if n.id in fr.locals:
                        continue
                    if n.id in getattr(fr, "local_names", ()):
                        self.raise_(UnboundLocalError, f"cannot access local variable '{n.id}' where it is not associated with a value")
                    if n.id in fr.module.__dict__ or hasattr(builtins, n.id):
                        continue
                    self.raise_(NameError, f"name '{n.id}' is not defined")

    def exec_import(self, st, fr):
        import importlib
        if isinstance(st, ast.ImportFrom):
            pkg = fr.module.__package__ if st.level else None
            name = "." * st.level + (st.module or "")
            try:
                mod = importlib.import_module(name, pkg)
            except Unsupported:
                raise
            except Exception as e:      # noqa: BLE001
                # an import statement of the code under contract fails natively (a sibling generated module that does not even
                # import): python raises that exception at this statement
                self.raise_(type(e) if isinstance(e, (ImportError, SyntaxError, NameError, TypeError, ValueError, AttributeError))
                            else ImportError, f"import of {name} failed: {type(e).__name__}: {str(e)[:160]}")
            for al in st.names:
                if not hasattr(mod, al.name):
                    self.raise_(ImportError, f"cannot import name '{al.name}' from '{name}'")
                fr.locals[al.asname or al.name] = getattr(mod, al.name)
        else:
            for al in st.names:
                mod = importlib.import_module(al.name)
                fr.locals[al.asname or al.name.split(".")[0]] = mod if al.asname else importlib.import_module(al.name.split(".")[0])

    def exec_try(self, st, fr):
        try:
            try:
                self.exec_block(st.body, fr)
            except PyRaise as e:
                for h in st.handlers:
                    if h.type is None:
                        match = True
                    else:
                        ht = self.eval(h.type, fr)
                        hts = ht.items if isinstance(ht, (STuple, SList)) else (list(ht) if isinstance(ht, tuple) else [ht])
                        match = any(isinstance(x, type) and issubclass(e.value.cls, x) for x in hts)
                    if match:
                        if h.name:
                            fr.locals[h.name] = e.value
                        saved = fr.locals.get("__current_exc__")
                        fr.locals["__current_exc__"] = e.value
                        try:
                            self.exec_block(h.body, fr)
                        finally:
                            fr.locals["__current_exc__"] = saved
                        break
                else:
                    raise
            else:
                self.exec_block(st.orelse, fr)
        finally:
            if st.finalbody:
                self.exec_block(st.finalbody, fr)

    def iterate(self, it):
        """python list of the elements of an iterable value (known length)"""
        if isinstance(it, (SList, STuple)):
            return list(it.items)
        if isinstance(it, SDict):
            return list(it.items.keys())
        if isinstance(it, SSet):
            return _sorted_any(it.items)      # order abstracted: callers that depend on it must say so (C12)
        if isinstance(it, (list, tuple)):
            return list(it)
        if isinstance(it, (set, frozenset)):
            return _sorted_any(it)
        if isinstance(it, dict):
            return list(it.keys())
        if isinstance(it, str):
            return list(it)
        if isinstance(it, type) and hasattr(it, "__members__"):
            return list(it)
        if it is None or isinstance(it, (bool, int, float, SBool, SInt, SFloat)) or _is_singleton(it):
            self.raise_(TypeError, f"'{type(it).__name__}' object is not iterable")
        if isinstance(it, SOpaque) and hasattr(it, "iterate_hook"):
            return it.iterate_hook(self)
        if isinstance(it, SGenerated):
            out = []
            for p in it.pieces:
                if isinstance(p, SSeq):
                    raise Unsupported("iteration over a generator that yields from a list of symbolic length")
                out.extend(p.items)
            return out
        if isinstance(it, SV):
            return self.iterate(self.view(it))
        raise Unsupported(f"iteration over {type(it).__name__}")

    def exec_for(self, st, fr):
        it = self.eval(st.iter, fr)
        if isinstance(it, SV):
            it = self.view(it)
        if isinstance(it, SSeq):
            spec = self.loop_specs.get((fr.qualname, self._loop_ordinal(fr, st)))
            if spec is not None:
                return self.exec_for_invariant(st, fr, it, spec)
            return self.exec_for_generic(st, fr, it)
        if isinstance(it, SList) and it.items and all(isinstance(x, str) for x in it.items):
            # a contract may give an invariant for a loop over a list of known strings too (one generic iteration instead of
            # len(list) unrolled ones): the list becomes a sequence term with exactly these elements
            spec = self.loop_specs.get((fr.qualname, self._loop_ordinal(fr, st)))
            if spec is not None:
                Z = self.Z
                base = z3.Concat(*[z3.Unit(Z.con["str"](z3.StringVal(x))) for x in it.items]) if len(it.items) > 1 else \
                    z3.Unit(Z.con["str"](z3.StringVal(it.items[0])))
                seq = SSeq(base, lambda x: Z.rec["str"](x), [lambda v: SStr(Z.acc["s"](v.t))])
                return self.exec_for_invariant(st, fr, seq, spec)
        if isinstance(it, SDictItems):
            return self.exec_for_dictitems(st, fr, it.d)
        items = self.iterate(it)
        broke = False
        for x in items:
            self.assign(st.target, x, fr)
            try:
                self.exec_block(st.body, fr)
            except _Break:
                broke = True
                break
            except _Continue:
                continue
        if not broke:
            self.exec_block(st.orelse, fr)

    def _loop_ordinal(self, fr, st):
        """ordinal of a loop statement among the for/while statements of its function (source order)"""
        msrc, fn = source.func(fr.qualname) if fr.qualname else (None, None)
        if fn is None:
            return -1
        loops = [n for n in ast.walk(fn) if isinstance(n, (ast.For, ast.While))]
        loops.sort(key=lambda n: (n.lineno, n.col_offset))
        for i, n in enumerate(loops):
            if n.lineno == st.lineno and n.col_offset == st.col_offset:
                return i
        return -1

    def exec_for_invariant(self, st, fr, seq, spec):
        """`for x in <sequence of symbolic length>` by an inductive invariant from the contract (LoopSpec):
             establish   Inv(state, seen = [])                                         [obligation]
             preserve    Inv(state, seen) and base = seen ++ [x] ++ rest  {body}  Inv(state', seen ++ [x])   [obligation]
             use         after exhaustion: Inv(state', base);  on break: the state at the break, with x in base.
           Variables assigned in the body are havocked by the generators of the spec (typed havoc); everything else in
           the frame must not be mutated by the body (checked for lists/dicts/sets reachable by name)."""
        Z = self.Z
        E = z3.Empty(z3.SeqSort(Z.JV))
        assigned = _assigned_names(st.body) | _assigned_names([ast.Assign(targets=[st.target], value=ast.Constant(None))])
        target_names = _assigned_names([ast.Assign(targets=[st.target], value=ast.Constant(None))])
        missing = (assigned - target_names) - set(spec.havoc) - {n for n in assigned if n not in fr.locals}
        self._loop_check(f"{fr.qualname} loop invariant holds on entry", spec.inv(self, fr.locals, E))
        # continuations, chosen non-deterministically: (z) the sequence is empty: nothing happens, the state is the entry
        # state (variables first bound inside the body stay unbound); (a) exit after >= 1 iterations; (b) one generic iteration
        if self.branch(z3.Length(seq.base) == 0):
            self.loop_index = None
            self.exec_block(st.orelse, fr)
            return
        which = 0 if self.branch_free() else 1
        for name in sorted(missing):
            fr.locals[name] = self._auto_havoc(name, fr.locals[name])
        self._havoc_mutables(fr, spec, missing, st.body)
        for name, gen in spec.havoc.items():
            # a generator taking (I, current value) may havoc a mutable object in place (keeps aliasing intact)
            if len(inspect.signature(gen).parameters) >= 2:
                fr.locals[name] = gen(self, fr.locals.get(name))
            else:
                fr.locals[name] = gen(self)
        if which == 0:
            self.assume(_b(spec.inv(self, fr.locals, seq.base)))
            self.loop_index = None
            self.exec_block(st.orelse, fr)          # for/else: the else block runs after exhaustion only
            return
        seen = self.fresh("seen", z3.SeqSort(Z.JV))
        rest = self.fresh("rest", z3.SeqSort(Z.JV))
        x = self.fresh("elem", Z.JV)
        self.assume(seq.base == z3.Concat(seen, z3.Unit(x), rest))
        if seq.dom is not None:
            self.assume(seq.dom(x))
        self.assume(_b(spec.inv(self, fr.locals, seen)))
        val = SV(x)
        for f in seq.maps:
            val = f(val)
        if getattr(seq, "enumerated", False):
            val = STuple([SInt(z3.Length(seen)), val])
        self.loop_index = z3.Length(seen)          # ghost: position of the generic iteration (for contract hooks)
        containers = {n: (v, _container_snapshot(v)) for n, v in fr.locals.items() if isinstance(v, (SList, SDict, SSet))
                      and n not in spec.havoc}
        self.assign(st.target, val, fr)
        try:
            self.exec_block(st.body, fr)
        except _Break:
            # leaves the loop with the current state: nothing more to prove here, the code after the loop continues
            return
        except _Continue:
            pass
        for n, (v, snap) in containers.items():
            if _container_snapshot(v) != snap and n not in spec.mutates:
                raise Unsupported(f"loop body mutates {n}, which the invariant does not mention")
        self._loop_check(f"{fr.qualname} loop invariant preserved", spec.inv(self, fr.locals, z3.Concat(seen, z3.Unit(x))))
        raise Infeasible()       # the inductive step is a proof obligation only; execution continues on continuation (a)

    def _auto_havoc(self, name, v):
        """typed havoc of a variable the loop body assigns and the contract does not mention by name: mutable abstract
        containers are havocked in place (aliasing survives), booleans / integers get a fresh value of their type"""
        if hasattr(v, "havoc_inplace"):
            v.havoc_inplace(self)
            return v
        if isinstance(v, (bool, SBool)):
            return SBool(self.fresh(f"havoc_{name}", z3.BoolSort()))
        if isinstance(v, (int, SInt)):
            return SInt(self.fresh(f"havoc_{name}", z3.IntSort()))
        raise Unsupported(f"loop invariant does not say how to havoc {name!r}")

    def _havoc_mutables(self, fr, spec, already, body):
        """abstract containers that the body may mutate in place (a method call on, or a subscript store / delete through, a
        local name -- no assignment to see) are havocked too, by object identity (so an alias of such a container is covered;
        a container the body only reads, e.g. an argument it compares with, keeps its value)"""
        touched = set()
        for st in body:
            for n in ast.walk(st):
                if isinstance(n, ast.Call) and isinstance(n.func, ast.Attribute) and isinstance(n.func.value, ast.Name):
                    touched.add(n.func.value.id)
                elif isinstance(n, ast.Subscript) and isinstance(n.ctx, (ast.Store, ast.Del)) and isinstance(n.value, ast.Name):
                    touched.add(n.value.id)
                elif isinstance(n, ast.AugAssign) and isinstance(n.target, ast.Name):
                    touched.add(n.target.id)
        done = set()
        for name in sorted(touched):
            v = fr.locals.get(name)
            if v is None or name in spec.havoc or name in already or id(v) in done:
                continue
            if hasattr(v, "havoc_inplace"):
                v.havoc_inplace(self)
                done.add(id(v))

    def _loop_check(self, what, cond):
        if cond is True:
            self.loop_obligations.append((what, True))
            return
        neg = z3.BoolVal(True) if cond is False else z3.Not(cond)
        r, s = self._check([neg])
        self.loop_obligations.append((what, r == z3.unsat))
        if r != z3.unsat:
            import os
            if os.environ.get("PYVC_DEBUG_INV") and r == z3.sat:
                print("INV-CEX", what, "\n  cond:", cond, "\n  model:", s.model())
            raise LoopInvariantFailure(what + (": solver returned unknown" if r == z3.unknown else ": counterexample exists"))

    def exec_for_generic(self, st, fr, seq):
        """`for x in <list of symbolic length>`: the body is executed once on a generic element.  Supported shape (the
        only one the templates emit): the body appends exactly one value to one list that was empty before the loop and
        has no other effect that survives the loop; then that list becomes the element-wise image of the sequence.
        The body's exceptions propagate (some element raises => the loop raises, on a path where the list is non-empty)."""
        if st.orelse:
            raise Unsupported("for/else over a symbolic sequence")
        if getattr(seq, "enumerated", False):
            raise Unsupported("enumerate() over a list of symbolic length needs a loop invariant")
        if not self.branch(z3.Length(seq.base) > 0):
            return
        lists_before = {n: (v, len(v.items)) for n, v in fr.locals.items() if type(v) is SList}
        assigned = _assigned_names(st.body) | _assigned_names([ast.Assign(targets=[st.target], value=ast.Constant(None))])

        def run_body(elem, frame):
            self.assign(st.target, elem, frame)
            try:
                self.exec_block(st.body, frame)
            except (_Break, _Continue, _Return):
                raise Unsupported("break/continue/return in a loop over a symbolic sequence")

        # generic element
        Z = self.Z
        x = self.fresh("elem", Z.JV)
        if seq.dom is not None:
            self.assume(seq.dom(x))
        self.assume(z3.Contains(seq.base, z3.Unit(x)))
        val = SV(x)
        for f in seq.maps:
            val = f(val)
        run_body(val, fr)
        grown = [(n, v) for n, (v, k) in lists_before.items() if len(v.items) != k]
        for n, (v, k) in lists_before.items():
            if fr.locals.get(n) is not v:
                raise Unsupported(f"list {n} rebound in a loop over a symbolic sequence")
        if len(grown) > 1 or any(lists_before[n][1] != 0 or len(v.items) != 1 for n, v in grown):
            raise Unsupported("loop over a symbolic sequence must append exactly once to one initially empty list")
        snapshot = {k: v for k, v in fr.locals.items() if k not in assigned}
        for n in assigned:
            if n in fr.locals and not any(n == g for g, _ in grown):
                fr.locals[n] = _Poison(n)
        if grown:
            name, lst = grown[0]

            def elem_fn(e, name=name):
                f2 = Frame(fr.module, dict(snapshot), fr.qualname, fr.cls)
                acc = SList()
                f2.locals[name] = acc
                run_body(e, f2)
                if len(acc.items) != 1:
                    raise Unsupported("element function appended a different number of items")
                return acc.items[0]
            fr.locals[name] = SSeq(seq.base, seq.dom, seq.maps + [elem_fn])
            # aliases of the accumulator (e.g. stored into a dict before the loop) are not tracked
            lst.items[:] = [_Poison(name)]

    def exec_for_dictitems(self, st, fr, d):
        """`for k, v in d.items()` where d has a symbolic remainder: concrete entries are unrolled, the remainder is
        handled by one generic entry.  Supported shape: the body stores exactly once `target[k] = f(v)` into one dict
        that had no remainder before the loop; then target's remainder becomes the value-wise image of d's."""
        if st.orelse:
            raise Unsupported("for/else over dict items")
        for k, v in list(d.items.items()):
            self.assign(st.target, STuple([k, v]), fr)
            try:
                self.exec_block(st.body, fr)
            except (_Break, _Continue, _Return):
                raise Unsupported("break/continue/return in a loop over a dict with symbolic remainder")
        Z = self.Z
        assigned = _assigned_names(st.body) | _assigned_names([ast.Assign(targets=[st.target], value=ast.Constant(None))])
        kk = self.fresh("key", z3.StringSort())
        x = z3.Select(d.rest, kk)
        if not self.branch(z3.Not(Z.rec["absent"](x))):
            # no further entries on this path -- but only this generic key is known absent; treat the remainder as
            # empty is unsound, so the loop is executed for the generic entry only on the other branch and here we
            # record nothing: the remainder relation is established below in both cases
            pass_through = True
        else:
            pass_through = False
        # run the body on the generic entry in a scratch frame to find the target dict and the value function
        snapshot = {k: v for k, v in fr.locals.items() if k not in assigned}

        def run(entry_val, frame):
            self._generic_store = None
            self._generic_key = kk
            self.assign(st.target, STuple([SStr(kk), entry_val]), frame)
            try:
                self.exec_block(st.body, frame)
            except (_Break, _Continue, _Return):
                raise Unsupported("break/continue/return in a loop over a dict with symbolic remainder")
            finally:
                self._generic_key = None
            gs = self._generic_store
            self._generic_store = None
            return gs
        if pass_through:
            # the loop body is still analysed (for the target and the value function) under the hypothesis of a present
            # generic entry; exceptions on that hypothetical entry do not belong to this path
            return self._establish_rest_map(st, fr, d, run, snapshot, assigned, hypothetical=True, kk=kk, x=x)
        if d.rest_dom is not None:
            self.assume(d.rest_dom(x))
        return self._establish_rest_map(st, fr, d, run, snapshot, assigned, hypothetical=False, kk=kk, x=x)

    def _establish_rest_map(self, st, fr, d, run, snapshot, assigned, hypothetical, kk, x):
        Z = self.Z
        val = SV(x)
        saved_pc = len(self.path.pc)
        saved_dec = None
        if hypothetical:
            self.path.pc.append(z3.Not(Z.rec["absent"](x)))
            if d.rest_dom is not None:
                self.path.pc.append(d.rest_dom(x))
        try:
            for f in d.rest_maps:
                val = f(val)
            f2 = Frame(fr.module, dict(snapshot), fr.qualname, fr.cls)
            # dicts reachable by name in the frame are shared (the store must hit the real target)
            gs = run(val, f2)
        except PyRaise:
            if hypothetical:
                gs = "raised"
            else:
                raise
        finally:
            if hypothetical:
                del self.path.pc[saved_pc:]
        if gs == "raised":
            # cannot determine the target from a raising hypothetical entry; fall back to an empty mapped remainder
            raise Unsupported("loop body raises on the hypothetical generic entry of an empty remainder")
        if gs is None:
            raise Unsupported("loop over dict items must store target[key] = value exactly once")
        target, value = gs
        if target.rest is not None:
            raise Unsupported("target dict of a loop over dict items already has a symbolic remainder")

        def value_fn(e):
            f3 = Frame(fr.module, dict(snapshot), fr.qualname, fr.cls)
            scratch = SDict()
            # redirect the store: find the name bound to target in the snapshot
            for n, v in list(f3.locals.items()):
                if v is target:
                    f3.locals[n] = scratch
            g = run(e, f3)
            if g is None or g[0] is not scratch:
                raise Unsupported("value function of a dict loop did not store into the target")
            return g[1]
        target.rest = d.rest
        target.rest_maps = list(d.rest_maps) + [value_fn]
        target.rest_dom = d.rest_dom
        for n in assigned:
            if n in fr.locals:
                fr.locals[n] = _Poison(n)

    LOOP_BOUND = 64

    def exec_while_invariant(self, st, fr, spec):
        """`while c: body` by an inductive invariant (partial correctness; termination arguments are separate ghost
        obligations of the contract):   Inv on entry [obligation];  Inv and c {body} Inv [obligation];  afterwards Inv and
        not c.  Variables assigned in the body are havocked by the generators of the spec."""
        if st.orelse:
            raise Unsupported("while/else with an invariant")
        assigned = _assigned_names(st.body)
        missing = assigned - set(spec.havoc) - {n for n in assigned if n not in fr.locals}
        self._loop_check(f"{fr.qualname} loop invariant holds on entry", spec.inv(self, fr.locals, None))
        for name in sorted(missing):
            fr.locals[name] = self._auto_havoc(name, fr.locals[name])
        self._havoc_mutables(fr, spec, missing, st.body)
        for name, gen in spec.havoc.items():
            if len(inspect.signature(gen).parameters) >= 2:
                fr.locals[name] = gen(self, fr.locals.get(name))
            else:
                fr.locals[name] = gen(self)
        self.assume(_b(spec.inv(self, fr.locals, None)))
        if not self.is_true(self.eval(st.test, fr)):
            return                                   # continuation: invariant and negated condition
        v0 = spec.variant(self, fr.locals) if spec.variant is not None else None
        try:
            self.exec_block(st.body, fr)
        except _Break:
            return
        except _Continue:
            pass
        self._loop_check(f"{fr.qualname} loop invariant preserved", spec.inv(self, fr.locals, None))
        if v0 is not None:
            again = self.truth(self.eval(st.test, fr))
            v1 = spec.variant(self, fr.locals)
            self._loop_check(f"{fr.qualname} termination: the variant is non-negative and decreases whenever the loop continues",
                             z3.Implies(_b(again), z3.And(v0 >= 0, v1 < v0)))
        raise Infeasible()

    def exec_while(self, st, fr):
        spec = self.loop_specs.get((fr.qualname, self._loop_ordinal(fr, st)))
        if spec is not None:
            return self.exec_while_invariant(st, fr, spec)
        n = 0
        while self.is_true(self.eval(st.test, fr)):
            n += 1
            if n > self.LOOP_BOUND:
                raise Unsupported("while loop without invariant exceeded the unrolling bound")
            try:
                self.exec_block(st.body, fr)
            except _Break:
                return
            except _Continue:
                continue
        self.exec_block(st.orelse, fr)

    def assign(self, tgt, v, fr):
        if isinstance(tgt, ast.Name):
            fr.locals[tgt.id] = v
            return
        if isinstance(tgt, (ast.Tuple, ast.List)):
            items = self.iterate(v)
            if len(items) != len(tgt.elts):
                raise Unsupported("unpacking length mismatch")
            for t, x in zip(tgt.elts, items):
                self.assign(t, x, fr)
            return
        if isinstance(tgt, ast.Attribute):
            obj = self.eval(tgt.value, fr)
            self.set_attr(obj, tgt.attr, v)
            return
        if isinstance(tgt, ast.Subscript):
            obj = self.eval(tgt.value, fr)
            key = self.eval(tgt.slice, fr)
            self.set_item(obj, key, v)
            return
        raise Unsupported("assignment target")

    def set_attr(self, obj, name, v):
        if isinstance(obj, SObj):
            obj.fields[name] = v
            return
        if isinstance(obj, SOpaque):
            if hasattr(obj, "setattr"):
                return obj.setattr(self, name, v)
            obj.attrs[name] = v
            return
        raise Unsupported(f"attribute assignment on {type(obj).__name__}")

    def set_item(self, obj, key, v):
        if isinstance(obj, SDict) and isinstance(key, SStr) and getattr(self, "_generic_key", None) is not None \
                and z3.eq(key.t, self._generic_key):
            if self._generic_store is not None:
                raise Unsupported("more than one store under the generic key")
            self._generic_store = (obj, v)
            return
        if isinstance(obj, SDict):
            obj.items[self.hashable(key)] = v
            return
        if isinstance(obj, SList) and isinstance(key, int):
            obj.items[key] = v
            return
        if isinstance(obj, SOpaque) and hasattr(obj, "setitem"):
            return obj.setitem(self, key, v)
        raise Unsupported(f"item assignment on {type(obj).__name__}")

    def del_item(self, obj, key):
        if isinstance(obj, SDict):
            k = self.hashable(key)
            if k not in obj.items:
                self.raise_(KeyError, str(k))
            del obj.items[k]
            return
        if isinstance(obj, SOpaque) and hasattr(obj, "delitem"):
            return obj.delitem(self, key)
        raise Unsupported("del item")

    def symbolic_key_lookup(self, d, key):
        """lookup of a symbolic key in a dict with CONCRETE keys (str / int / bool / None): returns (found, value), forking on
        the key's type and on equality with each candidate key; python's rules: lists / dicts / sets are unhashable (TypeError),
        True == 1 and False == 0 share a slot with the integers, 1.0 == 1 as well, a str never equals a number"""
        key = self.view(key) if isinstance(key, SV) else key
        if isinstance(key, (SSeq, SList, SSet)) or (isinstance(key, SDict)) or (isinstance(key, _Tagged) and key.tag in ("list", "dict")):
            self.raise_(TypeError, f"unhashable type: '{'dict' if isinstance(key, SDict) or getattr(key, 'tag', '') == 'dict' else 'list'}'")
        if key is None:
            return (None in d.items), d.items.get(None)
        if isinstance(key, SStr):
            for k in list(d.items):
                if isinstance(k, str) and self.branch(key.t == z3.StringVal(k)):
                    return True, d.items[k]
            return False, None
        if isinstance(key, (SInt, SBool, SFloat)):
            if isinstance(key, SFloat):
                if not self.branch(key.k == self.Z.fk["fin"]):
                    return False, None
                num = key.r
            elif isinstance(key, SBool):
                num = z3.If(key.t, z3.RealVal(1), z3.RealVal(0))
            else:
                num = z3.ToReal(key.t)
            for k in list(d.items):
                if isinstance(k, (int, bool)) and self.branch(num == z3.RealVal(int(k))):
                    return True, d.items[k]
            return False, None
        if isinstance(key, (str, int, bool)):
            return (key in d.items), d.items.get(key)
        raise Unsupported(f"symbolic dict key {key!r}")

    def hashable(self, key):
        if isinstance(key, (str, int, bool, tuple, frozenset, type)) or key is None:
            return key
        import enum
        if isinstance(key, enum.Enum):
            return key
        if isinstance(key, STuple):
            return tuple(self.hashable(k) for k in key.items)
        if isinstance(key, SObj) and issubclass(key.cls, str) and isinstance(key.fields.get("__str__"), str):
            return key.fields["__str__"]
        if isinstance(key, (SObj, SOpaque)):
            return _IdKey(key)
        raise Unsupported(f"symbolic dict/set key {key!r}")

    # -- expressions ----------------------------------------------------------------------------------------------------
    def eval(self, node, fr):
        m = getattr(self, "e_" + type(node).__name__, None)
        if m is None:
            raise Unsupported(f"expression {type(node).__name__}")
        return m(node, fr)

    def e_Constant(self, node, fr):
        v = node.value
        if isinstance(v, float):
            return self.float_const(v)
        return v

    def e_Name(self, node, fr):
        n = node.id
        if n in fr.locals:
            v = fr.locals[n]
            if isinstance(v, _Poison):
                raise Unsupported(f"use of {n} after a generically executed loop")
            return v
        if n in getattr(fr, "local_names", ()):
            # python scoping: a name the function assigns somewhere is local everywhere in it; read before any assignment
            self.raise_(UnboundLocalError, f"cannot access local variable '{n}' where it is not associated with a value")
        g = fr.module.__dict__
        if n in g:
            return g[n]
        if hasattr(builtins, n):
            return getattr(builtins, n)
        raise Unsupported(f"unbound name {n}")

    def e_JoinedStr(self, node, fr):
        parts = []
        for v in node.values:
            if isinstance(v, ast.Constant):
                parts.append(v.value)
            else:
                if v.format_spec is not None:
                    raise Unsupported("format spec")
                x = self.eval(v.value, fr)
                if v.conversion == ord("r"):
                    parts.append(self.py_repr(x))
                elif v.conversion in (-1, ord("s")):
                    parts.append(self.py_str(x))
                else:
                    raise Unsupported("f-string conversion")
        return self.concat(parts)

    def e_Tuple(self, node, fr):
        out = []
        for e in node.elts:
            if isinstance(e, ast.Starred):
                out.extend(self.iterate(self.eval(e.value, fr)))      # (a, *b): b of known length
            else:
                out.append(self.eval(e, fr))
        return STuple(out)

    def e_List(self, node, fr):
        if not node.elts and getattr(self, "empty_list_hook", None) is not None:
            return self.empty_list_hook()
        out = []
        for e in node.elts:
            if isinstance(e, ast.Starred):
                sv = self.eval(e.value, fr)
                if isinstance(sv, SOpaque) and hasattr(sv, "concat_display"):
                    # [*a, *b, x] over lists of unknown length: the abstract list decides
                    rest = [self.eval(x.value, fr) if isinstance(x, ast.Starred) else ("item", self.eval(x, fr))
                            for x in node.elts[node.elts.index(e) + 1:]]
                    return sv.concat_display(self, out, rest)
                out.extend(self.iterate(sv))
            else:
                out.append(self.eval(e, fr))
        return SList(out)

    def e_Set(self, node, fr):
        vals, stars = [], []
        for e in node.elts:
            if isinstance(e, ast.Starred):
                stars.append(self.eval(e.value, fr))
            else:
                vals.append(self.eval(e, fr))
        try:
            items = [self.hashable(v) for v in vals]
            for s in stars:
                if not isinstance(s, (SSet, set, frozenset)):
                    raise Unsupported("starred non-set in a set display")
                items.extend(s.items if isinstance(s, SSet) else s)
            return SSet(items)
        except Unsupported:
            # symbolic elements / sets of unknown content: a set that records what was put into it
            from .absdata import GrowSet
            g = GrowSet("set-display")
            for s in stars:
                g.added.append(("update", s))
            for v in vals:
                g.added.append(("add", v))
            return g

    def e_Dict(self, node, fr):
        if not node.keys and getattr(self, "empty_dict_hook", None) is not None:
            return self.empty_dict_hook()
        d = SDict()
        for k, v in zip(node.keys, node.values):
            if k is None:
                src = self.eval(v, fr)
                if isinstance(src, SOpaque) and hasattr(src, "lookup"):
                    # {k1: v1, **m, ...}: a copy of m; earlier keys survive only where m has no such key
                    m = src.copy()
                    earlier = list(d.entries) if isinstance(d, SOpaque) else list(d.items.items())
                    for key, val in earlier:
                        found, _ = m.lookup(self, key)
                        if not found:
                            m.store(self, key, val)
                    m.log = []
                    m.displayed_before = dict(earlier) if not isinstance(d, SOpaque) else {}
                    m.displayed_before_entries = earlier
                    d = m
                    continue
                if isinstance(d, SOpaque):
                    raise Unsupported("second ** in a dict display over a dict of unknown content")
                if isinstance(src, dict):
                    src = SDict(dict(src))
                if not isinstance(src, SDict):
                    raise Unsupported("** of non-dict")
                d.items.update(src.items)
            else:
                if isinstance(d, SOpaque):
                    d.store(self, self.eval(k, fr), self.eval(v, fr))
                    continue
                kv = self.eval(k, fr)
                try:
                    hk = self.hashable(kv)
                except Unsupported:
                    # symbolic key in a dict display: continue as a dict of (so far) known entries
                    from .absdata import LazyMap
                    m = LazyMap("dict-display", None, [(kk, vv) for kk, vv in d.items.items()], complete=True)
                    m.store(self, kv, self.eval(v, fr))
                    d = m
                    continue
                d.items[hk] = self.eval(v, fr)
        return d

    def e_IfExp(self, node, fr):
        if self.is_true(self.eval(node.test, fr)):
            return self.eval(node.body, fr)
        return self.eval(node.orelse, fr)

    def truth_jv(self, t):
        """python truthiness of a JV term as a formula (no forking)"""
        Z = self.Z
        r, a = Z.rec, Z.acc
        dict_nonempty = z3.Function("dict_nonempty", z3.ArraySort(z3.StringSort(), Z.JV), z3.BoolSort())
        return z3.Or(z3.And(r["bool"](t), a["b"](t)), z3.And(r["int"](t), a["i"](t) != 0),
                     z3.And(r["flt"](t), z3.Not(z3.And(a["fk"](t) == Z.fk["fin"], a["r"](t) == 0))),
                     z3.And(r["str"](t), z3.Length(a["s"](t)) > 0), z3.And(r["list"](t), z3.Length(a["items"](t)) > 0),
                     r["val"](t), r["obj"](t), z3.And(r["dict"](t), dict_nonempty(a["m"](t))))

    @staticmethod
    def _pure_simple(node):
        while isinstance(node, ast.Attribute):
            node = node.value
        return isinstance(node, (ast.Name, ast.Constant))

    def e_BoolOp(self, node, fr):
        # operands that are plain names/attributes/constants have no effects: `a or b` over symbolic booleans or
        # dynamic values is then an if-then-else term instead of a fork (same value semantics, fewer paths)
        if all(self._pure_simple(v) for v in node.values):
            saved = (self.path.pos, len(self.path.pc), len(self.path.decisions))
            try:
                vals = [self.eval(v, fr) for v in node.values]
            except PyRaise:
                vals = None
            if vals is not None and (self.path.pos, len(self.path.pc), len(self.path.decisions)) == saved:
                if all(isinstance(v, (SBool, bool)) for v in vals) and any(isinstance(v, SBool) for v in vals):
                    ts = [v.t if isinstance(v, SBool) else z3.BoolVal(v) for v in vals]
                    return SBool(z3.Or(*ts) if isinstance(node.op, ast.Or) else z3.And(*ts))
                if any(isinstance(v, SV) for v in vals) and all(
                        isinstance(v, (SV, SStr, str, SBool, bool, SInt, int)) or v is None for v in vals):
                    out = self.to_jv(vals[-1])
                    for v in reversed(vals[:-1]):
                        t = self.to_jv(v)
                        tr = self.truth_jv(t)
                        out = z3.If(tr, t, out) if isinstance(node.op, ast.Or) else z3.If(tr, out, t)
                    return SV(out)
        # python value semantics: returns the deciding operand
        last = None
        for v in node.values:
            last = self.eval(v, fr)
            t = self.is_true(last)
            if isinstance(node.op, ast.And) and not t:
                return last
            if isinstance(node.op, ast.Or) and t:
                return last
        return last

    def e_UnaryOp(self, node, fr):
        v = self.eval(node.operand, fr)
        if isinstance(node.op, ast.Not):
            t = self.truth(v)
            return (not t) if isinstance(t, bool) else SBool(z3.Not(t))
        if isinstance(node.op, ast.USub):
            if isinstance(v, SV):
                v = self.view(v)
            if isinstance(v, (int, float)):
                return -v
            if isinstance(v, SInt):
                return SInt(-v.t)
        raise Unsupported("unary operator")

    def e_BinOp(self, node, fr):
        return self.binop(node.op, self.eval(node.left, fr), self.eval(node.right, fr))

    def binop(self, op, a, b, inplace=False):
        if isinstance(a, SV):
            a = self.view(a)
        if isinstance(b, SV):
            b = self.view(b)
        if isinstance(op, ast.Add):
            if isinstance(a, (str, SStr)) and isinstance(b, (str, SStr)):
                return self.concat([a, b])
            if isinstance(a, (int, SInt)) and isinstance(b, (int, SInt)) and not isinstance(a, bool) and not isinstance(b, bool):
                if isinstance(a, int) and isinstance(b, int):
                    return a + b
                return SInt(_it(a) + _it(b))
            if isinstance(a, SList) and isinstance(b, SList) and type(a) is type(b):
                if inplace and not isinstance(a, STuple):
                    a.items.extend(b.items)
                    return a
                return type(a)(a.items + b.items)
        if isinstance(op, ast.Sub):
            if isinstance(a, (int, SInt)) and isinstance(b, (int, SInt)):
                if isinstance(a, int) and isinstance(b, int):
                    return a - b
                return SInt(_it(a) - _it(b))
            if isinstance(a, SSet) and isinstance(b, SSet):
                return SSet(a.items - b.items)
        if isinstance(op, ast.BitOr):
            if isinstance(a, SSet) and isinstance(b, SOpaque) and b.cls is set:
                tgt = a if inplace else SSet(a.items)
                tgt.__dict__.setdefault("absorbed", list(getattr(a, "absorbed", []))).append(b)
                return tgt
            if isinstance(a, SSet) and isinstance(b, SSet):
                if inplace:
                    a.items |= b.items
                    return a
                return SSet(a.items | b.items)
            if isinstance(a, (set, frozenset)) and isinstance(b, (set, frozenset)):
                return a | b
            if isinstance(a, SDict) and isinstance(b, SDict):
                d = SDict(a.items)
                d.items.update(b.items)
                return d
        if isinstance(op, ast.BitAnd):
            if isinstance(a, SSet) and isinstance(b, SSet):
                return SSet(a.items & b.items)
        if isinstance(op, ast.Div) and hasattr(a, "__opaque_div__"):
            return a.__opaque_div__(self, b)
        if isinstance(op, ast.Mod) and isinstance(a, str) and isinstance(b, (str, int)):
            return a % b
        raise Unsupported(f"binary operator {type(op).__name__} on {type(a).__name__}, {type(b).__name__}")

    def e_Compare(self, node, fr):
        left = self.eval(node.left, fr)
        result = None
        for op, rn in zip(node.ops, node.comparators):
            right = self.eval(rn, fr)
            r = self.compare(op, left, right)
            if result is None:
                result = r
            else:
                result = _and(result, r)
            if result is False:
                return False
            left = right
        return result if isinstance(result, bool) else SBool(result)

    def compare(self, op, a, b):
        if isinstance(op, ast.Is) or isinstance(op, ast.IsNot):
            r = self.py_is(a, b)
            if isinstance(op, ast.IsNot):
                r = (not r) if isinstance(r, bool) else z3.Not(r)
            return r
        if isinstance(op, (ast.Eq, ast.NotEq)):
            r = self.py_eq(a, b)
            if isinstance(op, ast.NotEq):
                r = (not r) if isinstance(r, bool) else z3.Not(r)
            return r
        if isinstance(op, (ast.In, ast.NotIn)):
            r = self.py_in(a, b)
            if isinstance(op, ast.NotIn):
                r = (not r) if isinstance(r, bool) else z3.Not(r)
            return r
        if isinstance(op, (ast.Lt, ast.LtE, ast.Gt, ast.GtE)):
            if isinstance(a, SV):
                a = self.view(a)
            if isinstance(b, SV):
                b = self.view(b)
            if isinstance(a, (SSet, set, frozenset)) and isinstance(b, (SSet, set, frozenset)):
                # subset / superset tests between concrete sets
                x = a.items if isinstance(a, SSet) else a
                y = b.items if isinstance(b, SSet) else b
                return {ast.Lt: x < y, ast.LtE: x <= y, ast.Gt: x > y, ast.GtE: x >= y}[type(op)]
            if isinstance(a, (int, SInt)) and isinstance(b, (int, SInt)) and not isinstance(a, bool):
                if isinstance(a, int) and isinstance(b, int):
                    return {ast.Lt: a < b, ast.LtE: a <= b, ast.Gt: a > b, ast.GtE: a >= b}[type(op)]
                x, y = _it(a), _it(b)
                return {ast.Lt: x < y, ast.LtE: x <= y, ast.Gt: x > y, ast.GtE: x >= y}[type(op)]
            if hasattr(a, "__opaque_cmp__"):
                return a.__opaque_cmp__(self, op, b)
        raise Unsupported(f"comparison {type(op).__name__} on {type(a).__name__}, {type(b).__name__}")

    def py_is(self, a, b):
        Z = self.Z
        for x, y in ((a, b), (b, a)):
            if y is None or isinstance(y, bool) or _is_singleton(y):
                if isinstance(x, SV):
                    if y is None:
                        return Z.rec["none"](x.t)
                    if isinstance(y, bool):
                        return z3.And(Z.rec["bool"](x.t), Z.acc["b"](x.t) == y)
                    if getattr(y, "__class__", None).__name__ == "Unset":
                        return Z.rec["unset"](x.t)
                    return False
                if isinstance(x, SBool) and isinstance(y, bool):
                    return x.t == y
                if isinstance(x, (SInt, SStr, SFloat, SObj, SList, SDict, SSet, SOpaque, SFunc, _Tagged)):
                    if isinstance(x, _Tagged) and x.tag == "unset" and getattr(y, "__class__", None).__name__ == "Unset":
                        return True
                    return False
                return x is y
        if isinstance(a, SV) and isinstance(b, SV):
            raise Unsupported("`is` between two dynamic values")
        return a is b

    def py_in(self, a, b):
        if isinstance(b, SV):
            b = self.view(b)
        if isinstance(b, (SList, STuple)):
            disj = []
            for x in b.items:
                e = self.py_eq(a, x)
                if e is True:
                    return True
                if e is not False:
                    disj.append(e)
            return z3.Or(*disj) if disj else False
        if isinstance(b, SDict):
            return self.py_in(a, STuple(list(b.items.keys())))
        if isinstance(b, SSet):
            return self.py_in(a, STuple(_sorted_any(b.items)))
        if isinstance(b, (set, frozenset, tuple, list)):
            return self.py_in(a, STuple(_sorted_any(b) if isinstance(b, (set, frozenset)) else list(b)))
        if isinstance(b, dict):
            return self.py_in(a, STuple(list(b.keys())))
        if isinstance(b, (str, SStr)):
            if isinstance(a, (str, SStr)):
                if isinstance(a, str) and isinstance(b, str):
                    return a in b
                return z3.Contains(self.to_str_term(b), self.to_str_term(a))
            self.raise_(TypeError, "'in <string>' requires string as left operand")
        if isinstance(b, _Tagged) and b.tag in ("list",):
            return z3.Contains(self.Z.acc["items"](b.t), z3.Unit(self.to_jv(a)))
        if isinstance(b, _Tagged) and b.tag == "dict":
            k = self.to_str_term(a)
            return z3.Not(self.Z.rec["absent"](z3.Select(self.Z.acc["m"](b.t), k)))
        if b is None or isinstance(b, (bool, int, float, SBool, SInt, SFloat)) or (isinstance(b, _Tagged)):
            self.raise_(TypeError, "argument is not iterable")
        if isinstance(b, type) and hasattr(b, "__members__"):
            return self.py_in(a, STuple(list(b)))
        if isinstance(b, SOpaque) and hasattr(b, "contains"):
            return b.contains(self, a)
        raise Unsupported(f"`in` on {type(b).__name__}")

    def e_Attribute(self, node, fr):
        obj = self.eval(node.value, fr)
        return self.get_attr(obj, node.attr, fr)

    def get_attr(self, obj, name, fr=None):
        if isinstance(obj, SV):
            obj = self.view(obj)
        if isinstance(obj, SObj):
            if name in obj.fields:
                return obj.fields[name]
            if name == "__class__":
                return obj.cls
            # class attribute / method / property
            try:
                static = inspect.getattr_static(obj.cls, name)
            except AttributeError:
                self.raise_(AttributeError, f"'{obj.cls.__name__}' object has no attribute '{name}'")
            if isinstance(static, property):
                return self.call_pyfunc(static.fget, [obj], {})
            if isinstance(static, (staticmethod,)):
                return SFunc("pyfunc", static.__func__, name=name)
            if isinstance(static, classmethod):
                return SFunc("pyfunc", static.__func__, self_val=obj.cls, name=name)
            if inspect.isfunction(static):
                return SFunc("pyfunc", static, self_val=obj, name=name)
            if _is_attrs_placeholder(static):
                self.raise_(AttributeError, f"attribute {name} not set")
            if type(static).__name__ in ("method_descriptor", "wrapper_descriptor"):
                return SFunc("pyfunc", static, self_val=obj, name=name)
            return static
        if isinstance(obj, SOpaque):
            if name in obj.attrs:
                return obj.attrs[name]
            if hasattr(obj, "getattr"):
                return obj.getattr(self, name)
            if name.startswith("__"):
                raise Unsupported(f"attribute {name} of opaque {obj.name}")
            obj.attrs[name] = SOpaque(f"{obj.name}.{name}")     # read-only data the engine does not look into
            return obj.attrs[name]
        import enum as _enum
        if isinstance(obj, _enum.Enum):
            return getattr(obj, name)
        pytype = {SStr: str, SInt: int, SFloat: float, SBool: bool, SList: list, STuple: tuple, SDict: dict, SSet: set,
                  SSeq: list}.get(type(obj))
        if pytype is list and getattr(obj, "is_deque", False):
            import collections as _c
            pytype = _c.deque
        if pytype is not None and not hasattr(pytype, name):
            self.raise_(AttributeError, f"'{pytype.__name__}' object has no attribute '{name}'")
        if isinstance(obj, (SStr, str, SList, SDict, SSet, STuple, SInt, SFloat, SBool, _Tagged, SSeq)):
            return SFunc("method", name, self_val=obj, name=name)
        if obj is None:
            self.raise_(AttributeError, f"'NoneType' object has no attribute '{name}'")
        if isinstance(obj, type):
            try:
                static = inspect.getattr_static(obj, name)
            except AttributeError:
                self.raise_(AttributeError, f"type object '{obj.__name__}' has no attribute '{name}'")
            if isinstance(static, classmethod):
                return SFunc("pyfunc", static.__func__, self_val=obj, name=name)
            if isinstance(static, staticmethod):
                return SFunc("pyfunc", static.__func__, name=name)
            if inspect.isfunction(static):
                return SFunc("pyfunc", static, name=name)
            return getattr(obj, name)
        if inspect.ismodule(obj):
            return getattr(obj, name)
        if isinstance(obj, SFunc):
            raise Unsupported("attribute of function value")
        import enum
        if isinstance(obj, enum.Enum):
            return getattr(obj, name)
        if isinstance(obj, (int, float, bool, tuple, frozenset, set, list, dict)):
            return SFunc("method", name, self_val=obj, name=name)
        if _is_singleton(obj):
            if not hasattr(obj, name):
                self.raise_(AttributeError, f"'{type(obj).__name__}' object has no attribute '{name}'")
            return getattr(obj, name)
        raise Unsupported(f"attribute {name} of {type(obj).__name__}")

    def e_Subscript(self, node, fr):
        obj = self.eval(node.value, fr)
        if isinstance(node.slice, ast.Slice):
            lo = self.eval(node.slice.lower, fr) if node.slice.lower else None
            hi = self.eval(node.slice.upper, fr) if node.slice.upper else None
            if isinstance(obj, (SList, STuple)) and (lo is None or isinstance(lo, int)) and (hi is None or isinstance(hi, int)):
                return type(obj)(obj.items[lo:hi])
            if isinstance(obj, str) and (lo is None or isinstance(lo, int)) and (hi is None or isinstance(hi, int)):
                return obj[lo:hi]
            if isinstance(obj, SSeq) and lo in (None, 0) and isinstance(hi, int) and not isinstance(hi, bool) and 0 <= hi <= 3 \
                    and not getattr(obj, "enumerated", False):
                # seq[:k] for a small constant k: the first min(k, len) elements, by case distinction on the length
                out = []
                for j in range(hi):
                    if not self.branch(z3.Length(obj.base) > j):
                        break
                    x = obj.base[j]
                    if obj.dom is not None:
                        self.assume(obj.dom(x))
                    val = SV(x)
                    for f in obj.maps:
                        val = f(val)
                    out.append(val)
                return SList(out)
            raise Unsupported("slice")
        key = self.eval(node.slice, fr)
        return self.get_item(obj, key)

    def get_item(self, obj, key):
        if isinstance(obj, SV):
            obj = self.view(obj)
        if type(obj).__name__ == "_SplitList":
            if key == 0:
                return obj.items[0]
            raise Unsupported("element other than [0] of a split of a symbolic string")
        if isinstance(obj, (SList, STuple)):
            if isinstance(key, int):
                if -len(obj.items) <= key < len(obj.items):
                    return obj.items[key]
                self.raise_(IndexError, "list index out of range")
            raise Unsupported("symbolic list index")
        if isinstance(obj, SDict) and obj.rest is None and isinstance(key, (SV, SStr, SInt, SBool, SFloat, SSeq, _Tagged)) \
                and all(isinstance(k, (str, int, bool)) or k is None for k in obj.items):
            found, val = self.symbolic_key_lookup(obj, key)
            if found:
                return val
            self.raise_(KeyError, "key")
        if isinstance(obj, SDict):
            k = self.hashable(key)
            if k in obj.items:
                return obj.items[k]
            self.raise_(KeyError, str(k))
        if isinstance(obj, (tuple, list, dict, str)) and isinstance(key, (int, str)):
            try:
                return obj[key]
            except (KeyError, IndexError) as e:
                self.raise_(type(e), str(e))
        if isinstance(obj, dict) and isinstance(key, (SV, SStr, SInt, SBool, SFloat)) \
                and all(isinstance(k, (str, int, bool)) or k is None for k in obj):
            # a module-level table (real python dict) asked with a symbolic key
            found, val = self.symbolic_key_lookup(SDict(dict(obj)), key)
            if found:
                return val
            self.raise_(KeyError, "key")
        if isinstance(obj, SStr) and isinstance(key, (int, SInt)) and not isinstance(key, bool):
            n = z3.Length(obj.t)
            k = z3.IntVal(key) if isinstance(key, int) else key.t
            if not self.branch(z3.And(k >= -n, k < n)):
                self.raise_(IndexError, "string index out of range")
            pos = z3.If(k >= 0, k, n + k)
            return SStr(z3.SubString(obj.t, pos, 1))
        if isinstance(obj, type) or obj in (list, dict, set, tuple):
            return obj      # typing subscript like list[str]
        if isinstance(obj, SOpaque) and hasattr(obj, "getitem"):
            return obj.getitem(self, key)
        if isinstance(obj, _Tagged) and obj.tag == "dict":
            k = self.to_str_term(key)
            v = z3.Select(self.Z.acc["m"](obj.t), k)
            if self.branch(self.Z.rec["absent"](v)):
                self.raise_(KeyError, "key")
            return SV(v)
        if getattr(obj, "__module__", "") == "typing":
            return obj
        raise Unsupported(f"subscript of {type(obj).__name__}")

    def e_Lambda(self, node, fr):
        return SFunc("lambda", (node, fr))

    def e_ListComp(self, node, fr):
        if len(node.generators) == 1 and not node.generators[0].ifs:
            it = self.eval(node.generators[0].iter, fr)
            if isinstance(it, SV):
                it = self.view(it)
            if isinstance(it, SSeq):
                # [f(x) for x in <list of symbolic length>]: the element-wise image (lazy)
                g = node.generators[0]
                snapshot = dict(fr.locals)

                def elem_fn(e):
                    f2 = Frame(fr.module, dict(snapshot), fr.qualname, fr.cls)
                    self.assign(g.target, e, f2)
                    return self.eval(node.elt, f2)
                return SSeq(it.base, it.dom, it.maps + [elem_fn])
        return SList(self._comp(node, fr, lambda f: self.eval(node.elt, f)))

    def e_GeneratorExp(self, node, fr):
        if len(node.generators) == 1 and not node.generators[0].ifs:
            it = self.eval(node.generators[0].iter, fr)
            if isinstance(it, SV):
                it = self.view(it)
            if isinstance(it, SSeq):
                g = node.generators[0]
                snapshot = dict(fr.locals)

                def elem_fn(e):
                    f2 = Frame(fr.module, dict(snapshot), fr.qualname, fr.cls)
                    self.assign(g.target, e, f2)
                    return self.eval(node.elt, f2)
                return SSeq(it.base, it.dom, it.maps + [elem_fn])
        return SList(self._comp(node, fr, lambda f: self.eval(node.elt, f)))

    def e_Yield(self, node, fr):
        if getattr(fr, "yielded", None) is None:
            raise Unsupported("yield outside an eagerly run generator")
        fr.yielded.pieces.append(SList([self.eval(node.value, fr) if node.value is not None else None]))
        return None

    def e_YieldFrom(self, node, fr):
        if getattr(fr, "yielded", None) is None:
            raise Unsupported("yield from outside an eagerly run generator")
        v = self.eval(node.value, fr)
        if isinstance(v, SV):
            v = self.view(v)
        if isinstance(v, SSeq):
            fr.yielded.pieces.append(v)
        else:
            fr.yielded.pieces.append(SList(self.iterate(v)))
        return None

    def _filtered_comp(self, node, fr):
        """{f(x) for x in <collection of symbolic length> if c(x)}: kept lazily as (collection, element function, keep
        predicate); `keep` must be a formula over the element (no forking conditions)"""
        if len(node.generators) != 1 or not node.generators[0].ifs:
            return None
        g = node.generators[0]
        it = self.eval(g.iter, fr)
        if isinstance(it, SV):
            it = self.view(it)
        if not isinstance(it, SSeq):
            return None
        snapshot = dict(fr.locals)

        def frame_for(e):
            f2 = Frame(fr.module, dict(snapshot), fr.qualname, fr.cls)
            f2.local_names = getattr(fr, "local_names", ())
            self.assign(g.target, e, f2)
            return f2

        def keep(e):
            f2 = frame_for(e)
            conds = []
            for c in g.ifs:
                t = self.truth(self.eval(c, f2))
                conds.append(z3.BoolVal(t) if isinstance(t, bool) else t)
            return z3.And(*conds)

        def image(e):
            return self.eval(node.elt, frame_for(e))
        return SFiltered(it, keep, image, kind=type(node).__name__)

    def e_SetComp(self, node, fr):
        if len(node.generators) == 1 and not node.generators[0].ifs:
            # {f(x) for x in <abstract collection>}: the collection may know how to describe its image under f
            g = node.generators[0]
            it = self.eval(g.iter, fr)
            hook = getattr(it, "setcomp_hook", None)
            if hook is not None:
                snapshot = dict(fr.locals)

                def image(e):
                    f2 = Frame(fr.module, dict(snapshot), fr.qualname, fr.cls)
                    f2.local_names = getattr(fr, "local_names", ())
                    self.assign(g.target, e, f2)
                    return self.eval(node.elt, f2)
                return hook(self, image)
        flt = self._filtered_comp(node, fr)
        if flt is not None:
            return flt
        return SSet([self.hashable(x) for x in self._comp(node, fr, lambda f: self.eval(node.elt, f))])

    def e_DictComp(self, node, fr):
        if len(node.generators) == 1:
            # {k(x): v(x) for x in <abstract collection> [if c(x)]}: the collection may know how to describe the result
            g = node.generators[0]
            it = self.eval(g.iter, fr)
            hook = getattr(it, "dictcomp_hook", None)
            if hook is not None:
                snapshot = dict(fr.locals)

                def image(e):
                    f2 = Frame(fr.module, dict(snapshot), fr.qualname, fr.cls)
                    f2.local_names = getattr(fr, "local_names", ())
                    self.assign(g.target, e, f2)
                    return self.eval(node.key, f2), self.eval(node.value, f2)
                return hook(self, image, bool(g.ifs))
        pairs = self._comp(node, fr, lambda f: (self.hashable(self.eval(node.key, f)), self.eval(node.value, f)))
        return SDict(dict(pairs))

    def _comp(self, node, fr, elt):
        out = []
        f2 = Frame(fr.module, dict(fr.locals), fr.qualname, fr.cls)

        def rec(i):
            if i == len(node.generators):
                out.append(elt(f2))
                return
            g = node.generators[i]
            for x in self.iterate(self.eval(g.iter, f2)):
                self.assign(g.target, x, f2)
                if all(self.is_true(self.eval(c, f2)) for c in g.ifs):
                    rec(i + 1)
        rec(0)
        return out

    def e_Starred(self, node, fr):
        raise Unsupported("starred expression")

    def e_Await(self, node, fr):
        return self.eval(node.value, fr)     # coroutines are run to completion at the await (no interleaving modelled)

    def e_NamedExpr(self, node, fr):
        v = self.eval(node.value, fr)
        self.assign(node.target, v, fr)
        return v

    # -- calls ----------------------------------------------------------------------------------------------------------
    def e_Call(self, node, fr):
        # super()
        if isinstance(node.func, ast.Attribute) and isinstance(node.func.value, ast.Call) and \
                isinstance(node.func.value.func, ast.Name) and node.func.value.func.id == "super":
            return self.call_super(node, fr)
        f = self.eval(node.func, fr)
        args = []
        for a in node.args:
            if isinstance(a, ast.Starred):
                args.extend(self.iterate(self.eval(a.value, fr)))
            else:
                args.append(self.eval(a, fr))
        kwargs = {}
        for kw in node.keywords:
            if kw.arg is None:
                d = self.eval(kw.value, fr)
                if isinstance(d, dict) and all(isinstance(k, str) for k in d):
                    d = SDict(dict(d))             # a module-level constant table
                if not isinstance(d, SDict) or d.rest is not None:
                    raise Unsupported("** of non-dict")
                kwargs.update(d.items)
            else:
                kwargs[kw.arg] = self.eval(kw.value, fr)
        return self.call(f, args, kwargs, fr)

    def call_super(self, node, fr):
        name = node.func.attr
        selfv = fr.locals.get("self") if "self" in fr.locals else fr.locals.get("cls")
        cls = fr.cls
        if cls is None:
            raise Unsupported("super() without class context")
        mro = (selfv.cls if isinstance(selfv, SObj) else selfv).__mro__
        idx = mro.index(cls)
        for base in mro[idx + 1:]:
            if name in base.__dict__:
                static = base.__dict__[name]
                if name == "__init__" and base.__module__ == "builtins" and isinstance(selfv, SObj):
                    selfv.fields["args"] = STuple([self.eval(a, fr) for a in node.args])
                    return None
                fn = static.__func__ if isinstance(static, (classmethod, staticmethod)) else static
                args = [self.eval(a, fr) for a in node.args]
                kwargs = {kw.arg: self.eval(kw.value, fr) for kw in node.keywords}
                sv = None if isinstance(static, staticmethod) else (selfv if not isinstance(static, classmethod) else (selfv.cls if isinstance(selfv, SObj) else selfv))
                return self.call_pyfunc(fn, ([sv] if sv is not None else []) + args, kwargs)
        raise Unsupported(f"super().{name} not found")

    def call(self, f, args, kwargs, fr=None):
        if isinstance(f, SFunc):
            if f.kind == "pyfunc":
                a = ([f.self_val] if f.self_val is not None else []) + list(args)
                return self.call_pyfunc(f.target, a, kwargs)
            if f.kind == "method":
                return self.call_method(f.self_val, f.target, args, kwargs)
            if f.kind == "lambda":
                node, cfr = f.target
                locals_ = dict(cfr.locals)
                locals_.update(self.bind(_LambdaAsFn(node), cfr.module, args, kwargs, None))
                return self.eval(node.body, Frame(cfr.module, locals_, cfr.qualname, cfr.cls))
            if f.kind == "closure":
                node, cfr = f.target
                locals_ = dict(cfr.locals)
                # closures share the enclosing frame's variables by reference for reads; writes stay local unless nonlocal
                bound = self.bind(node, cfr.module, args, kwargs, None)
                shared = _SharedLocals(cfr.locals, bound, _nonlocals(node))
                fr2 = Frame(cfr.module, shared, cfr.qualname + "." + node.name, cfr.cls)
                self.depth += 1
                try:
                    self.exec_block(node.body, fr2)
                except _Return as r:
                    return r.value
                finally:
                    self.depth -= 1
                return None
            if f.kind == "model":
                return f.target(self, args, kwargs)
        # library / builtin models are keyed by the real python object
        m = self.lib.get(_libkey(f))
        if m is not None:
            return m(self, args, kwargs)
        if isinstance(f, types.MethodType):
            return self.call_pyfunc(f.__func__, [f.__self__] + list(args), kwargs)
        if inspect.isfunction(f):
            return self.call_pyfunc(f, args, kwargs)
        if isinstance(f, type):
            return self.construct(f, args, kwargs)
        if isinstance(f, (SV, SStr, SInt, SBool, SFloat, SList, SDict, SSet, SSeq, _Tagged)) or f is None or \
                isinstance(f, (str, int, float, bool)) or _is_singleton(f):
            if isinstance(f, SV):
                f = self.view(f)
                if isinstance(f, SObj) or isinstance(f, _Tagged) and f.tag == "obj":
                    raise Unsupported("calling an opaque object")
            self.raise_(TypeError, "object is not callable")
        if type(f).__name__ in ("member_descriptor", "getset_descriptor"):
            self.raise_(TypeError, "'member_descriptor' object is not callable")
        if isinstance(f, SObj):
            if any("__call__" in c.__dict__ for c in f.cls.__mro__ if c not in (object, type)) and not issubclass(f.cls, (str, int)):
                raise Unsupported("calling an object with __call__")
            self.raise_(TypeError, f"'{f.cls.__name__}' object is not callable")
        if isinstance(f, SOpaque):
            raise Unsupported("calling an opaque object")
        raise Unsupported(f"call of {f!r}")

    def call_pyfunc(self, fn, args, kwargs):
        """call a real python function object: by contract summary, library model, or by interpreting its source"""
        key = _libkey(fn)
        m = self.lib.get(key)
        if m is not None:
            return m(self, args, kwargs)
        mod = getattr(fn, "__module__", None) or ""
        qn = f"{mod}:{getattr(fn, '__qualname__', '')}"
        summ = self.contracts.get(qn)
        if summ is not None:
            return summ(self, args, kwargs)
        if not mod.startswith("openapi_python_client") and not mod.startswith("pyvcfrag_"):
            raise Unsupported(f"no model for library function {qn}")
        msrc, node = source.func(qn)
        if node is None:
            raise Unsupported(f"source of {qn} not found")
        cls = None
        if "." in fn.__qualname__:
            cls = getattr(msrc.module, fn.__qualname__.split(".")[0], None)
        if not mod.startswith("pyvcfrag_"):
            self.inlined.setdefault(qn, (msrc.where(node), msrc.func_hash(node)))
        return self.call_function(node, msrc.module, args, kwargs, qn, cls)

    def construct(self, cls, args, kwargs):
        """instantiate a real class symbolically (attrs / dataclass / exception / enum lookup)"""
        import enum
        m = self.lib.get(_libkey(cls))
        if m is not None:
            return m(self, args, kwargs)
        if issubclass(cls, BaseException):
            obj = SObj(cls, {"args": STuple(list(args)), **{f"kw_{k}": v for k, v in kwargs.items()}})
            init = cls.__dict__.get("__init__")
            if init is not None and inspect.isfunction(init) and (getattr(init, "__module__", "") or "").startswith(
                    ("pyvcfrag_", "openapi_python_client")):
                self.call_pyfunc(init, [obj] + list(args), kwargs)
            return obj
        if issubclass(cls, enum.Enum):
            if len(args) == 1:
                for mem in cls:
                    e = self.py_eq(args[0], mem.value)
                    if self.branch(e if not isinstance(e, bool) else e):
                        return mem
                self.raise_(ValueError, "not a valid enum value")
        if hasattr(cls, "model_fields") and hasattr(cls, "model_validate"):
            # a pydantic model built from keyword arguments (field names; populate_by_name): assumed to store the values it
            # is given; validation and coercion are not modelled, fields not given are unknown defaults
            if args:
                raise Unsupported(f"positional arguments for pydantic model {cls.__name__}")
            obj = SObj(cls, {})
            for k, v in kwargs.items():
                if k not in cls.model_fields:
                    self.raise_(TypeError, f"unexpected keyword argument {k}")
                obj.fields[k] = v
            for k in cls.model_fields:
                obj.fields.setdefault(k, SOpaque(f"{cls.__name__}.{k} (default)"))
            return obj
        if isinstance(cls, type) and issubclass(cls, tuple) and hasattr(cls, "_fields"):
            # typing.NamedTuple / collections.namedtuple: a record with positional fields (only attribute access is modelled)
            names = list(cls._fields)
            if len(args) > len(names):
                self.raise_(TypeError, f"too many arguments for {cls.__name__}")
            obj = SObj(cls, dict(zip(names, args)))
            for k, v in kwargs.items():
                if k not in names or k in obj.fields:
                    self.raise_(TypeError, f"unexpected or repeated argument {k} for {cls.__name__}")
                obj.fields[k] = v
            for n in names:
                if n not in obj.fields:
                    if n not in getattr(cls, "_field_defaults", {}):
                        self.raise_(TypeError, f"missing argument {n} for {cls.__name__}")
                    obj.fields[n] = cls._field_defaults[n]
            return obj
        fields = _init_fields(cls)
        if fields is not None:
            obj = SObj(cls, {})
            names = [f[0] for f in fields]
            if len(args) > len(names):
                raise Unsupported(f"too many arguments for {cls.__name__}")
            for n, v in zip(names, args):
                obj.fields[n] = v
            for k, v in kwargs.items():
                init_name = k
                target = next((f[0] for f in fields if f[0] == k or f[0].lstrip("_") == k), None)
                if target is None:
                    self.raise_(TypeError, f"unexpected keyword argument {k}")
                obj.fields[target] = v
            for n, has_default, default in fields:
                if n not in obj.fields:
                    if not has_default:
                        self.raise_(TypeError, f"missing argument {n}")
                    obj.fields[n] = default() if callable(default) and getattr(default, "__pyvc_factory__", False) else default
            for n, default in _noninit_defaults(cls):
                obj.fields[n] = default() if callable(default) and getattr(default, "__pyvc_factory__", False) else default
            post = getattr(cls, "__attrs_post_init__", None) if hasattr(cls, "__attrs_attrs__") else getattr(cls, "__post_init__", None)
            if post is not None and inspect.isfunction(post) and (getattr(post, "__module__", "") or "").startswith(
                    ("pyvcfrag_", "openapi_python_client")):
                self.call_pyfunc(post, [obj], {})
            return obj
        raise Unsupported(f"cannot construct {cls.__name__}")

    def call_method(self, recv, name, args, kwargs):
        from . import libmodels
        return libmodels.call_method(self, recv, name, args, kwargs)


class LoopInvariantFailure(Exception):
    pass


class CyclicValue(Exception):
    """a python-side structure contains itself (e.g. a dict stored into itself): it equals no finite JSON value"""


# ---- second back end: every `unsat` (a pruned path, a proved clause, a discharged loop VC) can be re-decided by cvc5 -------
SECOND = {"budget": 0, "rechecked": 0, "agree": 0, "unknown": 0, "unsupported": 0, "disagree": 0, "time_ms": 0}
SECOND_FILES = []


def _second_backend(solver):
    import os
    import subprocess
    import tempfile
    import time
    exe = "/usr/bin/cvc5"
    if not os.path.exists(exe):
        SECOND["budget"] = 0
        return
    text = "(set-logic ALL)\n" + solver.to_smt2()
    if "(subset " in text or "(setminus " in text or "(union " in text or "(intersection " in text:
        # z3's set operators over (Array T Bool) have no SMT-LIB spelling cvc5 accepts
        SECOND["unsupported"] += 1
        SECOND["rechecked"] += 1
        return
    SECOND["budget"] -= 1
    t = time.time()
    try:
        p = subprocess.run([exe, "--lang", "smt2", "--strings-exp", "--dt-nested-rec", "--tlimit=8000"], input=text,
                           capture_output=True, text=True, timeout=12)
        out = (p.stdout.strip().splitlines() or [""])[0]
    except Exception:
        out = "unknown"
    SECOND["time_ms"] += int((time.time() - t) * 1000)
    SECOND["rechecked"] += 1
    if out == "unsat":
        SECOND["agree"] += 1
    elif out == "sat":
        SECOND["disagree"] += 1
        fd, path = tempfile.mkstemp(prefix="pyvc-cvc5-disagreement-", suffix=".smt2")
        with os.fdopen(fd, "w") as f:
            f.write(text)
        SECOND_FILES.append(path)
    elif out in ("unknown", "") or "timeout" in out or "interrupted" in out:
        SECOND["unknown"] += 1
    else:
        SECOND["unsupported"] += 1
        if os.environ.get("PYVC_DEBUG_CVC5"):
            print("CVC5-UNSUPPORTED:", out[:300])


class LoopSpec:
    def __init__(self, inv, havoc=None, mutates=(), variant=None):
        self.inv = inv              # (I, locals, seen: z3 Seq JV) -> z3 Bool
        self.havoc = havoc or {}    # variable -> (I) -> fresh value of the right shape
        self.mutates = set(mutates)
        self.variant = variant      # while loops: (I, locals) -> z3 Int that is >= 0 and decreases whenever the loop goes on


def _b(x):
    return z3.BoolVal(x) if isinstance(x, bool) else x


def _container_snapshot(v):
    if isinstance(v, SList):
        return ("list", tuple(id(x) for x in v.items))
    if isinstance(v, SDict):
        return ("dict", tuple((k, id(x)) for k, x in v.items.items()), None if v.rest is None else v.rest.get_id())
    if isinstance(v, SSet):
        return ("set", tuple(sorted(map(repr, v.items))))
    return None


class _Tagged:
    """a JV term whose constructor is known on this path but has no richer python-side view (list/dict/obj/unset)"""
    __slots__ = ("tag", "t")

    def __init__(self, tag, t):
        self.tag, self.t = tag, t

    def __repr__(self):
        return f"<{self.tag} {self.t}>"


class _Poison:
    """value of a variable assigned inside a generically executed loop body: must not be used after the loop"""

    def __init__(self, name):
        self.name = name

    def __repr__(self):
        return f"<poison {self.name}>"


def _function_locals(fn):
    """names that are local to the function by python's scoping rule (assigned in its own body, not in nested scopes)"""
    out, skip = set(), set()

    def walk(node):
        for ch in ast.iter_child_nodes(node):
            if isinstance(ch, (ast.FunctionDef, ast.AsyncFunctionDef, ast.ClassDef)):
                out.add(ch.name)
                continue
            if isinstance(ch, (ast.Lambda, ast.ListComp, ast.SetComp, ast.DictComp, ast.GeneratorExp)):
                continue
            if isinstance(ch, (ast.Global, ast.Nonlocal)):
                skip.update(ch.names)
            if isinstance(ch, ast.Name) and isinstance(ch.ctx, (ast.Store, ast.Del)):
                out.add(ch.id)
            if isinstance(ch, (ast.Import, ast.ImportFrom)):
                for a in ch.names:
                    out.add((a.asname or a.name).split(".")[0])
            if isinstance(ch, ast.ExceptHandler) and ch.name:
                out.add(ch.name)
            walk(ch)
    for st in fn.body:
        walk(ast.Module(body=[st], type_ignores=[]))
    a = fn.args
    params = {p.arg for p in a.posonlyargs + a.args + a.kwonlyargs} | ({a.vararg.arg} if a.vararg else set()) | \
        ({a.kwarg.arg} if a.kwarg else set())
    return (out - skip) - params


def _assigned_names(stmts):
    out = set()
    for st in stmts:
        for n in ast.walk(st):
            if isinstance(n, ast.Name) and isinstance(n.ctx, ast.Store):
                out.add(n.id)
            elif isinstance(n, ast.Name) and isinstance(getattr(n, "ctx", None), ast.Del):
                out.add(n.id)
    return out


class _IdKey:
    def __init__(self, obj):
        self.obj = obj

    def __hash__(self):
        return id(self.obj)

    def __eq__(self, o):
        return isinstance(o, _IdKey) and o.obj is self.obj

    def __repr__(self):
        return f"id:{self.obj!r}"


class _LambdaAsFn:
    def __init__(self, node):
        self.args = node.args
        self.name = "<lambda>"


class _SharedLocals(dict):
    """locals of a closure: own bindings first, then the enclosing frame (by reference)"""

    def __init__(self, outer, own, nonlocals):
        super().__init__(own)
        self.outer = outer
        self.nonlocals = nonlocals

    def __contains__(self, k):
        return dict.__contains__(self, k) or k in self.outer

    def __getitem__(self, k):
        if dict.__contains__(self, k):
            return dict.__getitem__(self, k)
        return self.outer[k]

    def get(self, k, d=None):
        if k in self:
            return self[k]
        return d

    def __setitem__(self, k, v):
        if k in self.nonlocals:
            self.outer[k] = v
        else:
            dict.__setitem__(self, k, v)


def _nonlocals(fn):
    out = set()
    for n in ast.walk(fn):
        if isinstance(n, ast.Nonlocal):
            out.update(n.names)
    return out


def _load(node):
    import copy
    n = copy.copy(node)
    n.ctx = ast.Load()
    return n


def _it(v):
    return z3.IntVal(v) if isinstance(v, int) else v.t


def _and(a, b):
    if a is True:
        return b
    if b is True:
        return a
    if a is False or b is False:
        return False
    return z3.And(a, b)


_int_re = None


def _INT_RE():
    global _int_re
    if _int_re is None:
        d = z3.Range("0", "9")
        _int_re = z3.Concat(z3.Option(z3.Re("-")), z3.Plus(d))
    return _int_re


def _is_singleton(y):
    return getattr(type(y), "__name__", "") in ("Unset", "NotImplementedType", "ellipsis")


def _sorted_any(items):
    try:
        return sorted(items)
    except TypeError:
        return sorted(items, key=repr)


def _libkey(f):
    try:
        hash(f)
        return f
    except TypeError:
        return id(f)


def _is_enum_member_obj(o):
    return False


def _has_value_eq(cls):
    import dataclasses
    if dataclasses.is_dataclass(cls):
        return cls.__dataclass_params__.eq
    if hasattr(cls, "__attrs_attrs__"):
        return "__eq__" in cls.__dict__ or any(a.eq for a in cls.__attrs_attrs__)
    return False


def _eq_fields(cls):
    import dataclasses
    if dataclasses.is_dataclass(cls):
        return [f.name for f in dataclasses.fields(cls) if f.compare]
    return [a.name for a in cls.__attrs_attrs__ if a.eq]


def _is_attrs_placeholder(x):
    return type(x).__name__ in ("member_descriptor",)


def _init_fields(cls):
    """[(field name, has_default, default)] for dataclasses / attrs classes, else None"""
    import dataclasses
    if dataclasses.is_dataclass(cls):
        out = []
        for f in dataclasses.fields(cls):
            if not f.init:
                continue
            if f.default is not dataclasses.MISSING:
                out.append((f.name, True, f.default))
            elif f.default_factory is not dataclasses.MISSING:
                fac = f.default_factory
                out.append((f.name, True, _factory(fac)))
            else:
                out.append((f.name, False, None))
        return out
    if hasattr(cls, "__attrs_attrs__"):
        import attr
        out = []
        for a in cls.__attrs_attrs__:
            if not a.init:
                continue
            if a.default is attr.NOTHING:
                out.append((a.name, False, None))
            elif isinstance(a.default, attr.Factory):
                out.append((a.name, True, _factory(a.default.factory)))
            else:
                out.append((a.name, True, a.default))
        return out
    return None


def _noninit_defaults(cls):
    out = []
    if hasattr(cls, "__attrs_attrs__"):
        import attr
        for a in cls.__attrs_attrs__:
            if a.init or a.default is attr.NOTHING:
                continue
            out.append((a.name, _factory(a.default.factory) if isinstance(a.default, attr.Factory) else a.default))
    return out


def _factory(fac):
    def make():
        if fac is list:
            return SList()
        if fac is dict:
            return SDict()
        if fac is set:
            return SSet()
        raise Unsupported(f"default factory {fac}")
    make.__pyvc_factory__ = True
    return make
