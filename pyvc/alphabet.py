"""Engine A, part 1: the class alphabet.

Every code point 0..0x10FFFF (surrogates included) is evaluated with the *running* CPython for the primitive
predicates and maps that the functions under contract and the contracts use; code points with the same signature
form one class.  ASCII characters are singleton classes (class id == code point).  Non-ASCII characters fall into
the coarsest partition that makes every predicate class-uniform and every case/NFKC map class-to-class-word.
The table is cached under .cache/ keyed by interpreter + unidata version and rebuilt when absent.

This is the "alphabet lemma" back end of DESIGN §2.1: exhaustive CPython evaluation over a finite domain.
"""
from __future__ import annotations

import os
import pickle
import re
import sys
import unicodedata
from dataclasses import dataclass, field

MAXCP = 0x110000
_CACHE_DIR = os.path.join(os.path.dirname(os.path.dirname(os.path.abspath(__file__))), ".cache")

_WORD_RE = re.compile(r"\w")
_SPACE_RE = re.compile(r"\s")
_DIGIT_RE = re.compile(r"\d")

# primitive predicate names, in signature order
PRED_NAMES = ("word", "upper", "lower", "title", "xid_start", "xid_continue", "space", "digit", "str_space",
              "decimal", "printable", "nfkc_id")


def _base_sig(ch: str) -> tuple:
    return (
        _WORD_RE.match(ch) is not None,      # \w as used by re with str patterns
        ch.isupper(),
        ch.islower(),
        ch.istitle(),
        ch.isidentifier(),                   # XID_Start or '_' (for a single character)
        ("a" + ch).isidentifier(),           # XID_Continue
        _SPACE_RE.match(ch) is not None,     # \s
        _DIGIT_RE.match(ch) is not None,     # \d
        ch.isspace(),                        # str.strip()/int() whitespace
        ch.isdecimal(),
        ch.isprintable(),                    # repr() escapes non-printables
        unicodedata.normalize("NFKC", ch) == ch,   # identifiers are compared after NFKC by the compiler
    )


def _maps(ch: str) -> tuple:
    """(lower alternatives, upper, title-of-first, NFKC) as strings; lower has alternatives for final sigma."""
    low = ch.lower()
    lows = (low,)
    if ch == "Σ":  # GREEK CAPITAL LETTER SIGMA: str.lower() is context dependent (final sigma)
        lows = ("σ", "ς")
    try:
        nfkc = unicodedata.normalize("NFKC", ch)
    except Exception:  # pragma: no cover
        nfkc = ch
    return (lows, ch.upper(), ch.title(), nfkc)


@dataclass
class Alphabet:
    n: int                                   # number of classes
    class_of_ascii: list                     # identity for 0..127
    reps: list                               # per class: list of representative code points (smallest + a few)
    count: list                              # per class: number of code points
    preds: list                              # per class: dict pred name -> bool
    lower: list                              # per class: tuple of alternative class words (tuple of class ids)
    upper: list                              # per class: class word
    title: list                              # per class: class word
    nfkc: list                               # per class: class word
    unidata_version: str = ""
    python: str = ""
    _ranges: list = field(default_factory=list)   # sorted (start, end_exclusive, class id) for non-ASCII lookup

    # ---- lookup -------------------------------------------------------------------------------------------------
    def class_of(self, ch: str) -> int:
        cp = ord(ch)
        if cp < 128:
            return cp
        import bisect
        i = bisect.bisect_right(self._starts, cp) - 1
        return self._ranges[i][2]

    def word(self, s: str) -> tuple:
        return tuple(self.class_of(c) for c in s)

    def concretise(self, w, variant: int = 0) -> str:
        """A real string for a class word; variant picks among the stored representatives."""
        out = []
        for c in w:
            r = self.reps[c]
            out.append(chr(r[variant % len(r)]))
        return "".join(out)

    def classes_where(self, pred) -> frozenset:
        """pred: name of a primitive predicate, or a callable on the class' preds dict / class id."""
        if isinstance(pred, str):
            return frozenset(i for i in range(self.n) if self.preds[i][pred])
        return frozenset(i for i in range(self.n) if pred(i))

    def chars(self, s: str) -> frozenset:
        """classes of the given (ASCII) characters"""
        for c in s:
            assert ord(c) < 128, "explicit character sets must be ASCII (singleton classes)"
        return frozenset(ord(c) for c in s)

    def finish(self):
        self._starts = [r[0] for r in self._ranges]
        return self


def _compute() -> Alphabet:
    # 1. base signature + maps for every non-ASCII code point
    sig = {}
    nonid = {}           # cp -> maps, only where some map is not the identity
    base = [None] * MAXCP
    for cp in range(128, MAXCP):
        ch = chr(cp)
        b = _base_sig(ch)
        m = _maps(ch)
        ident = m[0] == (ch,) and m[1] == ch and m[2] == ch
        base[cp] = (b, ident)
        if not ident:
            nonid[cp] = m
    # 2. iterative refinement for the (few thousand) code points with non-identity maps
    #    signature of ASCII char = ('a', cp); of identity-map char = base; of others = base + image signatures
    cur = {}
    for cp in nonid:
        cur[cp] = (base[cp],)

    def sig_of(cp, table):
        if cp < 128:
            return ("a", cp)
        if cp in table:
            return table[cp]
        return base[cp]

    while True:
        nxt = {}
        for cp, m in nonid.items():
            lows, up, ti, nf = m
            nxt[cp] = (
                base[cp],
                tuple(tuple(sig_of(ord(d), cur) for d in alt) for alt in lows),
                tuple(sig_of(ord(d), cur) for d in up),
                tuple(sig_of(ord(d), cur) for d in ti),
            )
        if len(set(nxt.values())) == len(set(cur.values())):
            cur = nxt
            break
        cur = nxt
    # 3. number the classes
    ids = {}
    class_cp = []        # per class: list of reps
    counts = []
    cls_of_cp_nonascii = {}
    ranges = []
    prev_cls = None
    start = 128
    for cp in range(128, MAXCP):
        s = cur[cp] if cp in cur else base[cp]
        k = ids.get(s)
        if k is None:
            k = 128 + len(ids)
            ids[s] = k
            class_cp.append([])
            counts.append(0)
        j = k - 128
        counts[j] += 1
        if len(class_cp[j]) < 4:
            class_cp[j].append(cp)
        if k != prev_cls:
            if prev_cls is not None:
                ranges.append((start, cp, prev_cls))
            start = cp
            prev_cls = k
    ranges.append((start, MAXCP, prev_cls))
    n = 128 + len(ids)
    reps = [[i] for i in range(128)] + class_cp
    count = [1] * 128 + counts
    A = Alphabet(n=n, class_of_ascii=list(range(128)), reps=reps, count=count, preds=[None] * n, lower=[None] * n,
                 upper=[None] * n, title=[None] * n, nfkc=[None] * n,
                 unidata_version=unicodedata.unidata_version, python=sys.version.split()[0], _ranges=ranges)
    A.finish()
    for k in range(n):
        ch = chr(reps[k][0])
        A.preds[k] = dict(zip(PRED_NAMES, _base_sig(ch)))
        lows, up, ti, nf = _maps(ch)
        A.lower[k] = tuple(A.word(alt) for alt in lows)
        A.upper[k] = A.word(up)
        A.title[k] = A.word(ti)
    return A


_ALPHA = None


def get() -> Alphabet:
    global _ALPHA
    if _ALPHA is not None:
        return _ALPHA
    key = f"alphabet-{sys.version_info[0]}.{sys.version_info[1]}.{sys.version_info[2]}-{unicodedata.unidata_version}-v5.pkl"
    path = os.path.join(_CACHE_DIR, key)
    if os.path.exists(path):
        try:
            with open(path, "rb") as f:
                _ALPHA = pickle.load(f).finish()
            return _ALPHA
        except Exception:
            pass
    _ALPHA = _compute()
    try:
        os.makedirs(_CACHE_DIR, exist_ok=True)
        tmp = path + f".{os.getpid()}.tmp"
        with open(tmp, "wb") as f:
            pickle.dump(_ALPHA, f)
        os.replace(tmp, path)
    except Exception:
        pass
    return _ALPHA


def selfcheck(samples: int = 20000, seed: int = 0) -> int:
    """Re-evaluate predicates/maps on random code points and compare with their class (uniformity check)."""
    import random
    A = get()
    rnd = random.Random(seed)
    bad = 0
    for _ in range(samples):
        cp = rnd.randrange(MAXCP) if rnd.random() < 0.5 else rnd.randrange(0x3000)
        ch = chr(cp)
        k = A.class_of(ch)
        if dict(zip(PRED_NAMES, _base_sig(ch))) != A.preds[k]:
            bad += 1
            continue
        lows, up, ti, nf = _maps(ch)
        if tuple(A.word(a) for a in lows) != A.lower[k] or A.word(up) != A.upper[k] or A.word(ti) != A.title[k]:
            bad += 1
    return bad


if __name__ == "__main__":
    import time
    t = time.time()
    A = get()
    print("classes", A.n, "time", round(time.time() - t, 2), "unidata", A.unidata_version)
    print("selfcheck mismatches", selfcheck())
    k1 = [k for k in range(A.n) if A.preds[k]["word"] and not A.preds[k]["xid_continue"]]
    print("word-not-xidc classes", len(k1), "code points", sum(A.count[k] for k in k1),
          "first", hex(min(A.reps[k][0] for k in k1)))
