"""Engine C (site contexts): where does each piece of document text land in the generated files, and may it stand there?

1. A *slot document* places a unique marker in every string-valued position of an OpenAPI document.
2. The REAL generator renders it (all metadata flavours, both enum styles, docstrings_on_attributes on/off); every
   occurrence of every marker in every generated file is located and its lexical context is read off CPython's own
   tokenizer (identifier, "..." / '...' literal, (raw) docstring, f-string, comment, code) resp. a TOML string scanner.
3. For every (slot, context) pair that occurs, the obligation   L(slot) <= Required(context)   is a language inclusion
   over the class alphabet, discharged by automata for ALL strings.  L(slot) is the language the parser guarantees for
   the record field the slot travels through (contracts on utils/parser functions, C09 / C05 triples); Required(context)
   is the language of texts that cannot leave that lexical context (vocab: DQ_BODY, IDENT, ...).
   Docstring contexts are discharged by the macro contract of safe_docstring (contracts/templates_a).

What is measured rather than proved: the set of contexts each slot reaches is observed on the rendering of the slot
document (every template and macro branch the schematic documents reach); the count of `{{ }}` sites of the real
templates that were exercised is reported, unexercised sites are listed in the evidence.
"""
from __future__ import annotations

import io
import json
import os
import re
import tokenize

from .automata import Lang
from .vocab import Spec


def marker(i):
    # letters only: digits would be split off by snake_case
    a, b = divmod(i, 26)
    return f"zq{chr(97 + a % 26)}{chr(97 + b)}zq"


SLOTS = {}
PROBE_TEXT = {}


def slot(name):
    i = len(SLOTS) + 11
    SLOTS[name] = marker(i)
    return SLOTS[name]


PROBED = ("prop-name-required", "prop-name-optional", "prop-name-enum", "prop-name-list", "prop-name-union", "prop-name-ref",
          "query-param", "header-param", "cookie-param", "enum-value", "component-enum-value", "param-default", "string-default")
# (the const property is left out: its f-string message is known finding C05-K3 -- a single quote in the constant makes
#  repr() switch to double quotes, which end the f"..." literal)


DQ_PROBED = PROBED + ("info-title",)      # (the const slots are left out: known finding C05-K3)


def slot_document(probe="", probed=None):
    """probe: a suffix appended to the text of every name / value slot (e.g. "'x" to tell repr()-made quotes from
    template-made quotes: only the latter break when the text contains a single quote)"""
    SLOTS.clear()

    def s(name):
        m = slot(name)
        if probe and name.startswith(probed or PROBED):
            PROBE_TEXT[name] = m + probe
            return m + probe
        return m
    PROBE_TEXT.clear()
    comps = {
        s("schema-key-model"): {
            "type": "object", "title": s("schema-title"), "description": s("model-description"),
            "example": {"k": s("model-example")},
            "required": [s("prop-name-required")],
            "properties": {
                (PROBE_TEXT.get("prop-name-required") or SLOTS["prop-name-required"]): {"type": "string", "description": s("prop-description"), "example": s("prop-example"),
                                              "default": s("string-default")},
                s("prop-name-optional"): {"type": "integer", "description": s("prop-description-2")},
                s("prop-name-enum"): {"type": "string", "enum": [s("enum-value"), "other"], "default": PROBE_TEXT.get("enum-value") or SLOTS["enum-value"]},
                s("prop-name-const"): {"const": s("const-value")},
                s("prop-name-list"): {"type": "array", "items": {"type": "string", "format": "date"}},
                s("prop-name-union"): {"oneOf": [{"type": "string", "format": "date"}, {"type": "integer"}]},
                s("prop-name-ref"): {"$ref": "#/components/schemas/" + s("schema-key-other")},
            },
            "additionalProperties": {"type": "string", "format": "date"},
        },
        SLOTS["schema-key-other"]: {"type": "object", "properties": {"x": {"type": "string"}}},
        s("schema-key-enum"): {"type": "string", "enum": [s("component-enum-value"), "b"]},
        s("schema-key-intenum"): {"type": "integer", "enum": [1, 2]},
    }
    mref = {"$ref": "#/components/schemas/" + SLOTS["schema-key-model"]}
    oref = {"$ref": "#/components/schemas/" + SLOTS["schema-key-other"]}     # (a const property has no multipart macro)
    path = "/" + s("path-literal") + "/{" + s("path-param-name") + "}"
    op = {
        "operationId": s("operation-id"), "tags": [s("tag")], "summary": s("summary"), "description": s("operation-description"),
        "parameters": [
            {"name": SLOTS["path-param-name"], "in": "path", "required": True, "schema": {"type": "string"},
             "description": s("param-description")},
            {"name": s("query-param-name"), "in": "query", "schema": {"type": "string", "default": s("param-default")}},
            {"name": s("query-param-enum"), "in": "query", "schema": {"$ref": "#/components/schemas/" + SLOTS["schema-key-enum"]}},
            {"name": s("header-param-name"), "in": "header", "schema": {"type": "string"}},
            {"name": s("cookie-param-name"), "in": "cookie", "schema": {"type": "string"}},
            {"name": s("query-param-model"), "in": "query", "schema": mref},
        ],
        "requestBody": {"content": {"application/" + s("media-type-suffix") + "+json": {"schema": mref},
                                    "multipart/form-data": {"schema": oref},
                                    "application/x-www-form-urlencoded": {"schema": oref}}},
        "responses": {"200": {"description": s("response-description"), "content": {"application/json": {"schema": mref}}},
                      "404": {"description": "nf", "content": {"text/plain": {"schema": {"type": "string"}}}}},
    }
    doc = {"openapi": "3.0.3",
           "info": {"title": s("info-title"), "version": s("info-version"), "description": s("info-description")},
           "paths": {path: {"post": op}}, "components": {"schemas": comps}}
    return doc


# ---- lexical contexts ---------------------------------------------------------------------------------------------------

def py_contexts(text, markers):
    """[(marker, context)] for every occurrence (case-insensitive) in a python source text"""
    out = []
    low = text.lower()
    # token spans
    lines = text.splitlines(keepends=True)
    starts = [0]
    for ln in lines:
        starts.append(starts[-1] + len(ln))

    def off(pos):
        return starts[pos[0] - 1] + pos[1]
    spans = []
    try:
        for t in tokenize.generate_tokens(io.StringIO(text).readline):
            spans.append((off(t.start), off(t.end), t))
    except (tokenize.TokenError, SyntaxError, IndentationError) as e:
        return [(m, f"untokenizable file: {e}") for m in markers if m in low]
    fstring_depth = 0
    ctx_at = {}
    for a, b, t in spans:
        kind = tokenize.tok_name[t.type]
        if kind == "FSTRING_START":
            fstring_depth += 1
        if kind == "FSTRING_END":
            fstring_depth -= 1
        ctx_at[(a, b)] = (kind, t.string, fstring_depth)
    for m in markers:
        i = low.find(m)
        while i != -1:
            ctx = "code"
            for (a, b), (kind, s, fd) in ctx_at.items():
                if a <= i and i + len(m) <= b:
                    if kind == "NAME":
                        ctx = "ident" if s.lower() == m or True else "ident"
                        ctx = "ident"
                    elif kind == "STRING":
                        ctx = _string_kind(s)
                    elif kind == "FSTRING_MIDDLE":
                        ctx = "fstring"
                    elif kind == "COMMENT":
                        ctx = "comment"
                    else:
                        ctx = "code:" + kind
                    break
            out.append((m, ctx))
            i = low.find(m, i + 1)
    return out


def _string_kind(s):
    m = re.match(r"(?i)([rbuf]*)('''|\"\"\"|'|\")", s)
    prefix, q = m.group(1).lower(), m.group(2)
    if "f" in prefix:
        return "fstring"
    if q == '"""':
        return "rdoc" if "r" in prefix else "doc"
    if q == "'''":
        return "sdoc"
    return ("r" if "r" in prefix else "") + ("dq" if q == '"' else "sq")


def toml_contexts(text, markers):
    out = []
    low = text.lower()
    for m in markers:
        i = low.find(m)
        while i != -1:
            line_start = text.rfind("\n", 0, i) + 1
            before = text[line_start:i]
            # inside a basic string if an odd number of unescaped quotes precedes on the line
            n = len(re.findall(r'(?<!\\)"', before))
            out.append((m, "toml-dq" if n % 2 == 1 else "toml-code"))
            i = low.find(m, i + 1)
    return out


def collect(config=None, meta="none", probe="", probed=None):
    """render the slot document with the real generator; returns (occurrences, errors, files, doc)"""
    from .replay import generate_tree
    import shutil
    doc = slot_document(probe, probed)
    errors, out, files, tmp = generate_tree(document=doc, config=config, meta=meta)
    occ = []          # (file, slot, context)
    inv = {v: k for k, v in SLOTS.items()}
    markers = list(inv)
    try:
        for name, text in files.items():
            if text is None:
                continue
            if name.endswith(".py"):
                for m, ctx in py_contexts(text, markers):
                    occ.append((name, inv[m], ctx))
            elif name.endswith(".toml"):
                for m, ctx in toml_contexts(text, markers):
                    occ.append((name, inv[m], ctx))
            elif name.endswith(".md"):
                for m in markers:
                    if m in text.lower():
                        occ.append((name, inv[m], "markdown"))
            else:
                for m in markers:
                    if m in text.lower():
                        occ.append((name, inv[m], "other-file"))
        # path components
        for name in files:
            for part in name.split("/"):
                for m in markers:
                    if m in part.lower():
                        occ.append((name, inv[m], "path-component"))
    finally:
        shutil.rmtree(tmp, ignore_errors=True)
    return occ, errors, files, doc


# ---- obligations --------------------------------------------------------------------------------------------------------

def slot_languages():
    """the language the parser guarantees for the record field a slot travels through, per context family.
    'h' = range of utils.remove_string_escapes; 'raw' = any string; 'ident' = a sanitised name; 'repr' = repr() output;
    'kebab' = kebab_case(title)+'-client'."""
    S = Spec.get()
    A = S.A
    ALL = S.SIGMA
    H = ALL.subst({ord('"'): [A.word('\\"')]})
    H._name = 'range of remove_string_escapes'
    KEBAB = Lang.over((S.WORD | S.XIDC) - A.chars("_") | A.chars("-")) + Lang.text("-client")
    KEBAB._name = "kebab_case(title) + '-client'"
    PREFIX = Lang.text("A client library for accessing ")
    names = "h"
    table = {
        "prop-name": "h", "query-param-name": "h", "query-param-enum": "h", "query-param-model": "h", "header-param-name": "h",
        "cookie-param-name": "h", "path-param-name": "h-or-raw-in-path",
        "enum-value": "h", "component-enum-value": "h",
        "schema-key": "classname", "schema-title": "classname",
        "path-literal": "raw", "media-type-suffix": "raw", "info-version": "raw",
        "info-title": "title", "const-value": "repr-h", "param-default": "repr-h", "string-default": "repr-h",
    }
    return {"ALL": ALL, "H": H, "KEBAB": KEBAB, "PREFIX": PREFIX, "table": table}


def required_language(ctx):
    S = Spec.get()
    A = S.A
    if ctx == "dq":
        return S.DQ_BODY
    if ctx == "sq":
        return S.SQ_BODY
    if ctx == "toml-dq":
        # TOML basic string: no bare quote, backslash only as \" or \\ (other escapes change the text or are invalid), no
        # control characters (newline, CR, tab is allowed but we forbid the line breaks)
        return S.DQ_BODY
    if ctx == "fstring":
        # body of an f"..." literal: additionally no single brace
        nobrace = ~(S.SIGMA + Lang.sym(A.chars("{}")) + S.SIGMA)
        L = S.DQ_BODY & nobrace
        L._name = "FDQ_BODY (DQ_BODY without braces)"
        return L
    if ctx == "path-component":
        return S.PATH_COMPONENT
    return None
