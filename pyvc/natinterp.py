"""Evaluation of ground z3 terms of Engine B under the NATIVE interpretation of the assumed library functions.

Engine B treats str(int), float(str), repr, str.lower, dateutil's isoparse, uuid.UUID, `eval` of emitted code, the naming
functions of utils.py ... as uninterpreted functions constrained by ground facts (the trusted base).  Here every such
symbol is interpreted by calling the real CPython / library function, so that
  * on a concrete run the path whose branch conditions are all true natively can be selected and its outcome compared
    with the outcome of the real function (cross-check of the symbolic executor), and
  * every ground fact the library models asserted along the way can be evaluated: a fact that is false natively is an
    unsound library model.
Values: Int -> int, Real -> Fraction, Bool -> bool, String -> str, Seq -> list, Array -> _Arr(default, {k: v}),
FK -> constructor name, JV -> tuple (constructor name, args...)."""
from __future__ import annotations

import re
from fractions import Fraction

import z3


class CannotEval(Exception):
    pass


class _Arr:
    def __init__(self, default, items=None):
        self.default, self.items = default, dict(items or {})

    def get(self, k):
        return self.items.get(_key(k), self.default)

    def store(self, k, v):
        a = _Arr(self.default, self.items)
        a.items[_key(k)] = v
        return a

    def __eq__(self, o):
        if not isinstance(o, _Arr):
            return False
        keys = set(self.items) | set(o.items)
        return self.default == o.default and all(self.items.get(k, self.default) == o.items.get(k, o.default) for k in keys)

    def __hash__(self):
        return 0


def _key(k):
    if isinstance(k, list):
        return tuple(_key(x) for x in k)
    return k


def _fk(f):
    if f != f:
        return "nan"
    if f == float("inf"):
        return "pinf"
    if f == float("-inf"):
        return "ninf"
    return "fin"


def py_to_jv(v):
    """native python value -> JV tuple (the image of Interp.to_jv)"""
    if v is None:
        return ("none",)
    if isinstance(v, bool):
        return ("bool", v)
    if isinstance(v, int):
        return ("int", v)
    if isinstance(v, float):
        k = _fk(v)
        return ("flt", k, Fraction(v) if k == "fin" else Fraction(0))
    if isinstance(v, str):
        return ("str", v)
    if isinstance(v, (list, tuple)):
        return ("list", [py_to_jv(x) for x in v])
    if isinstance(v, dict):
        return ("dict", _Arr(("absent",), {k: py_to_jv(x) for k, x in v.items()}))
    if type(v).__name__ == "Unset":
        return ("unset",)
    if type(v).__name__ == "Value":
        return ("val", str(v.python_code), py_to_jv(v.raw_value))
    raise CannotEval(f"no JV image of {type(v).__name__}")


def _eval_code(s):
    """what the emitted expression text evaluates to in a generated module"""
    import datetime
    from uuid import UUID
    from dateutil.parser import isoparse
    ns = {"datetime": datetime, "isoparse": isoparse, "UUID": UUID, "__builtins__": {"float": float, "int": int, "str": str}}
    return eval(s, ns)      # noqa: S307  (texts produced by the code under test on pool inputs)


def _try(f, *a):
    try:
        f(*a)
        return True
    except Exception:
        return False


def _native_table():
    from dateutil.parser import isoparse
    from uuid import UUID
    from openapi_python_client import utils

    def float_real(s):
        try:
            f = float(s)
        except Exception:
            raise CannotEval("float_real of an unparsable string")
        return Fraction(f) if _fk(f) == "fin" else Fraction(0)

    def eval_code(s):
        try:
            return py_to_jv(_eval_code(s))
        except CannotEval:
            raise
        except Exception:
            raise CannotEval("eval_code of a non-evaluable text")

    def canon(parse, fmt):
        def f(s):
            try:
                return fmt(parse(s)) == s
            except Exception:
                return False
        return f

    def total(parse, fmt):
        def f(s):
            try:
                return fmt(parse(s))
            except Exception:
                raise CannotEval("not parsable")
        return f
    t = {
        "int_str": lambda i: str(i),
        "flt_str": lambda r: str(float(r)),
        "nearest_double": lambda r: Fraction(float(r)),
        "repr_str": lambda s: repr(s),
        "str_lower": lambda s: s.lower(),
        "str_upper": lambda s: s.upper(),
        "float_parses": lambda s: _try(float, s),
        "float_kind": lambda s: _fk(float(s)) if _try(float, s) else (_ for _ in ()).throw(CannotEval("float_kind")),
        "float_real": float_real,
        "int_parses": lambda s: _try(int, s),
        "int_of_str": lambda s: int(s) if _try(int, s) else (_ for _ in ()).throw(CannotEval("int_of_str")),
        "isoparse_ok": lambda s: _try(isoparse, s),
        "uuid_ok": lambda s: _try(UUID, s),
        "eval_code": eval_code,
        "code_evaluable": lambda s: _try(_eval_code, s),
        "str_replace_all": lambda s, a, b: s.replace(a, b),
        "str_before_first": lambda s, sep: s.split(sep)[0],
        "PythonIdentifier": lambda v, p, skip: str(utils.PythonIdentifier(v, p, skip_snake_case=skip)),
        "ClassName": lambda v, p: str(utils.ClassName(v, p)),
        "pascal_case": utils.pascal_case,
        "kebab_case": utils.kebab_case,
        "sanitize": utils.sanitize,
        "fix_reserved_words": utils.fix_reserved_words,
        "snake_case": utils.snake_case,
        "remove_string_escapes": utils.remove_string_escapes,
        "canonical_rfc3339_date": canon(lambda s: isoparse(s).date(), lambda d: d.isoformat()),
        "canonical_rfc3339_datetime": canon(isoparse, lambda d: d.isoformat()),
        "canonical_uuid": canon(UUID, str),
        "isoformat_of_date_of_isoparse": total(lambda s: isoparse(s).date(), lambda d: d.isoformat()),
        "isoformat_of_isoparse": total(isoparse, lambda d: d.isoformat()),
        "str_of_uuid": total(UUID, str),
    }
    for n in ("isalpha", "isdigit", "isalnum", "isupper", "islower", "isidentifier", "isspace", "strip", "lstrip", "rstrip",
              "title", "capitalize"):
        t[f"str_{n}"] = (lambda n: lambda s: getattr(s, n)())(n)
    return t


class NatEval:
    def __init__(self, extra=None):
        self.table = _native_table()
        if extra:
            self.table.update(extra)
        self.consts = {}        # values of free constants (inputs), by name
        self.cache = {}

    def ev(self, t):
        k = t.get_id()
        if k in self.cache:
            return self.cache[k]
        v = self._ev(t)
        self.cache[k] = v
        return v

    # -- regular expressions ----------------------------------------------------------------------------------------------
    def _re(self, r):
        n = r.decl().name()
        a = [r.arg(i) for i in range(r.num_args())]
        if n == "str.to_re" or n == "seq.to_re" or n == "str.to.re":
            return re.escape(self.ev(a[0]))
        if n == "re.range":
            return f"[{re.escape(self.ev(a[0]))}-{re.escape(self.ev(a[1]))}]"
        if n == "re.++":
            return "".join(f"(?:{self._re(x)})" for x in a)
        if n == "re.union":
            return "|".join(f"(?:{self._re(x)})" for x in a)
        if n == "re.+":
            return f"(?:{self._re(a[0])})+"
        if n == "re.*":
            return f"(?:{self._re(a[0])})*"
        if n == "re.opt":
            return f"(?:{self._re(a[0])})?"
        if n in ("re.allchar",):
            return "(?s:.)"
        if n in ("re.all", "re.full"):
            return "(?s:.*)"
        if n == "re.comp" or n == "re.complement":
            raise CannotEval("regex complement")
        raise CannotEval(f"regex operator {n}")

    # -- terms ------------------------------------------------------------------------------------------------------------
    def _ev(self, t):
        if z3.is_int_value(t):
            return t.as_long()
        if z3.is_rational_value(t):
            return Fraction(t.numerator_as_long(), t.denominator_as_long())
        if z3.is_true(t):
            return True
        if z3.is_false(t):
            return False
        if z3.is_string_value(t):
            return t.as_string() if "\\u{" not in t.as_string() else _unescape(t.as_string())
        if z3.is_quantifier(t):
            raise CannotEval("quantifier")
        d = t.decl()
        n = d.name()
        kind = d.kind()
        args = [t.arg(i) for i in range(t.num_args())]
        if kind == z3.Z3_OP_UNINTERPRETED:
            if not args:
                if n in self.consts:
                    return self.consts[n]
                raise CannotEval(f"free constant {n}")
            f = self.table.get(n)
            if f is None:
                raise CannotEval(f"no native interpretation of {n}")
            return f(*[self.ev(a) for a in args])
        if kind == z3.Z3_OP_DT_CONSTRUCTOR:
            if t.sort().name() == "FK":
                return n
            return (n,) + tuple(self.ev(a) for a in args)
        if kind in (z3.Z3_OP_DT_RECOGNISER, z3.Z3_OP_DT_IS):
            v = self.ev(args[0])
            cname = d.params()[0].name() if d.params() else n[3:]
            return (v if isinstance(v, str) else v[0]) == cname
        if kind == z3.Z3_OP_DT_ACCESSOR:
            v = self.ev(args[0])
            sort = args[0].sort()
            for i in range(sort.num_constructors()):
                c = sort.constructor(i)
                for j in range(c.arity()):
                    if sort.accessor(i, j).name() == n:
                        if v[0] != c.name():
                            raise CannotEval(f"accessor {n} on a {v[0]}")
                        return v[1 + j]
            raise CannotEval(f"accessor {n}")
        e = self.ev
        if n == "and":
            return all(e(a) for a in args)
        if n == "or":
            return any(e(a) for a in args)
        if n == "not":
            return not e(args[0])
        if n == "=>":
            return (not e(args[0])) or e(args[1])
        if n == "=":
            return e(args[0]) == e(args[1])
        if n == "distinct":
            vs = [e(a) for a in args]
            return all(vs[i] != vs[j] for i in range(len(vs)) for j in range(i))
        if n == "if":
            return e(args[1]) if e(args[0]) else e(args[2])
        if n == "+":
            return sum(e(a) for a in args)
        if n == "-":
            vs = [e(a) for a in args]
            return -vs[0] if len(vs) == 1 else vs[0] - sum(vs[1:])
        if n == "*":
            r = 1
            for a in args:
                r = r * e(a)
            return r
        if n in ("<=", "<", ">=", ">"):
            x, y = e(args[0]), e(args[1])
            return {"<=": x <= y, "<": x < y, ">=": x >= y, ">": x > y}[n]
        if n == "to_real":
            return Fraction(e(args[0]))
        if n == "to_int":
            import math
            return math.floor(e(args[0]))
        if n in ("str.++", "seq.++"):
            vs = [e(a) for a in args]
            if vs and isinstance(vs[0], list):
                return [x for v in vs for x in v]
            return "".join(vs)
        if n in ("str.len", "seq.len"):
            return len(e(args[0]))
        if n == "str.at":
            s, i = e(args[0]), e(args[1])
            return s[i] if 0 <= i < len(s) else ""
        if n in ("str.substr", "seq.extract"):
            s, i, l = e(args[0]), e(args[1]), e(args[2])
            if i < 0 or i >= len(s) or l <= 0:
                return s[:0]
            return s[i:i + l]
        if n in ("str.prefixof", "seq.prefixof"):
            return e(args[1])[:len(e(args[0]))] == e(args[0])
        if n in ("str.suffixof", "seq.suffixof"):
            a, b = e(args[0]), e(args[1])
            return len(a) <= len(b) and b[len(b) - len(a):] == a
        if n in ("str.contains", "seq.contains"):
            a, b = e(args[0]), e(args[1])
            if isinstance(a, list):
                return any(a[i:i + len(b)] == b for i in range(len(a) - len(b) + 1)) if b else True
            return b in a
        if n in ("str.in_re", "str.in.re", "seq.in_re", "seq.in.re"):
            return re.fullmatch(self._re(args[1]), e(args[0])) is not None
        if n == "str.to_code":
            s = e(args[0])
            return ord(s) if len(s) == 1 else -1
        if n == "seq.unit":
            return [e(args[0])]
        if n == "seq.empty":
            return [] if not z3.is_string(t) else ""
        if n in ("seq.nth", "seq.nth_i", "seq.nth_u"):
            s, i = e(args[0]), e(args[1])
            if 0 <= i < len(s):
                return s[i]
            raise CannotEval("nth out of range")
        if n == "select":
            return e(args[0]).get(e(args[1]))
        if n == "store":
            return e(args[0]).store(e(args[1]), e(args[2]))
        if n == "const":
            return _Arr(e(args[0]))
        if n in ("set.subset", "subset"):
            raise CannotEval("set operation")
        raise CannotEval(f"operator {n}")


def _unescape(s):
    return re.sub(r"\\u\{([0-9a-fA-F]+)\}", lambda m: chr(int(m.group(1), 16)), s)
