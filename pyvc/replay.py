"""Native replay harness: runs a replay spec against the REAL code of the tree on PYTHONPATH and reports whether the
observation named by the obligation is violated.  Invoked in a fresh interpreter (python -m pyvc.replay --spec JSON
or --file replays/<id>/<obligation>.json).

Spec kinds
  call      {"kind":"call","qualname":"mod:func","args":[...],"kwargs":{...},"violates":"<python expr>"}
            the expression is evaluated with `result` (or `exc`), `args`, `kwargs` and helper names in scope
  generate  {"kind":"generate","document":{...} | "document_text": "...", "config":{...}, "meta":"none",
             "violates":"<python expr>"}   names in scope: errors, out (Path of the generated tree), files (dict
             relative path -> text), helpers
  script    {"kind":"script","code":"..."}  the code sets VIOLATES (bool) and OBSERVED (str)
"""
from __future__ import annotations

import argparse
import importlib
import json
import keyword
import os
import shutil
import sys
import tempfile
import traceback
from pathlib import Path


def _decode(x):
    """JSON cannot hold lone surrogates/bytes etc. reliably; specs may use {"$py": "<expr>"} for exotic values."""
    if isinstance(x, dict) and set(x) == {"$py"}:
        return eval(x["$py"], {"float": float})
    if isinstance(x, list):
        return [_decode(i) for i in x]
    if isinstance(x, dict):
        return {k: _decode(v) for k, v in x.items()}
    return x


class GeneratorCrashed(Exception):
    """openapi_python_client.generate() raised instead of returning diagnostics"""

    def __init__(self, what, document, config, meta, tb):
        super().__init__(what)
        self.what, self.document, self.config, self.meta, self.tb = what, document, config, meta, tb


def generate_tree(document=None, document_text=None, config=None, meta="none", suffix=".json", out=None):
    """Run the real generator on a document; returns (errors, out_dir, files)."""
    from openapi_python_client import generate
    from openapi_python_client.config import Config, ConfigFile, MetaType
    tmp = Path(tempfile.mkdtemp(prefix="pyvc-gen-"))
    doc = tmp / ("doc" + suffix)
    if document_text is not None:
        if isinstance(document_text, bytes):
            doc.write_bytes(document_text)
        else:
            doc.write_text(document_text, encoding="utf-8", errors="surrogatepass")
    else:
        doc.write_text(json.dumps(document), encoding="utf-8")
    cf = dict(config or {})
    cf.setdefault("post_hooks", [])
    outp = Path(out) if out else tmp / "out"
    cfg = Config.from_sources(ConfigFile(**cf), MetaType[meta.upper()], document_source=doc, file_encoding="utf-8",
                              overwrite=True, output_path=outp)
    try:
        errors = generate(config=cfg)
    except Exception as e:      # noqa: BLE001
        # the REAL generator raised on a document of the harness: not an engine error but an observation about /repo (C06)
        import traceback
        raise GeneratorCrashed(f"{type(e).__name__}: {e}", document if document is not None else document_text, cf, meta,
                               traceback.format_exc(limit=6)) from e
    files = {}
    if outp.exists():
        for p in sorted(outp.rglob("*")):
            if p.is_file():
                try:
                    files[str(p.relative_to(outp))] = p.read_text(encoding="utf-8")
                except Exception:
                    files[str(p.relative_to(outp))] = None
    return errors, outp, files, tmp


def py_syntax_errors(files):
    bad = {}
    for name, text in files.items():
        if name.endswith(".py") and text is not None:
            try:
                compile(text, name, "exec")
            except SyntaxError as e:
                bad[name] = f"{e.msg} (line {e.lineno})"
    return bad


def import_all(out: Path, timeout=60):
    """import every module of the generated package in a fresh interpreter; returns error text or ''"""
    import subprocess
    pkgs = [p for p in out.iterdir() if p.is_dir() and (p / "__init__.py").exists()]
    code = (
        "import importlib, pkgutil, sys\n"
        "sys.path.insert(0, sys.argv[1])\n"
        "bad = []\n"
        "for name in sys.argv[2:]:\n"
        "    try:\n"
        "        pkg = importlib.import_module(name)\n"
        "        for m in pkgutil.walk_packages(pkg.__path__, name + '.'):\n"
        "            try:\n"
        "                importlib.import_module(m.name)\n"
        "            except BaseException as e:\n"
        "                bad.append(f'{m.name}: {type(e).__name__}: {e}')\n"
        "    except BaseException as e:\n"
        "        bad.append(f'{name}: {type(e).__name__}: {e}')\n"
        "print('\\n'.join(bad))\n"
    )
    p = subprocess.run([sys.executable, "-c", code, str(out)] + [q.name for q in pkgs], capture_output=True, text=True,
                       timeout=timeout)
    return (p.stdout + p.stderr).strip()


def lang(name):
    """named specification language of pyvc.vocab (for replay predicates)"""
    from pyvc.vocab import Spec
    return getattr(Spec.get(), name)


HELPERS = {
    "iskeyword": keyword.iskeyword,
    "lang": lang,
    "py_syntax_errors": py_syntax_errors,
    "import_all": import_all,
    "Path": Path,
    "json": json,
    "os": os,
    "sys": sys,
}


def run_spec(spec: dict) -> dict:
    kind = spec.get("kind")
    try:
        if kind == "call":
            modname, path = spec["qualname"].split(":")
            obj = importlib.import_module(modname)
            for part in path.split("."):
                obj = getattr(obj, part)
            args = _decode(spec.get("args", []))
            kwargs = _decode(spec.get("kwargs", {}))
            ns = dict(HELPERS)
            for m in spec.get("imports", []):
                ns[m.split(".")[-1]] = importlib.import_module(m)
            if "setup" in spec:
                exec(spec["setup"], ns)
                obj = ns.get("TARGET_OBJ", obj)
                args = [ns[a[1:]] if isinstance(a, str) and a.startswith("$") and a[1:] in ns else a for a in args]
                kwargs = {k: (ns[a[1:]] if isinstance(a, str) and a.startswith("$") and a[1:] in ns else a)
                          for k, a in kwargs.items()}
            result, exc = None, None
            try:
                result = obj(*args, **kwargs)
            except BaseException as e:  # noqa
                exc = e
            ns.update({"result": result, "exc": exc, "args": args, "kwargs": kwargs})
            v = bool(eval(spec["violates"], ns))
            obs = f"result={result!r}" if exc is None else f"raised {type(exc).__name__}: {exc}"
            return {"violates": v, "observed": obs[:600]}
        if kind == "generate":
            tmp = None
            try:
                errors, out, files, tmp = generate_tree(_decode(spec.get("document")), spec.get("document_text"),
                                                        spec.get("config"), spec.get("meta", "none"),
                                                        spec.get("suffix", ".json"))
                ns = dict(HELPERS)
                ns.update({"errors": errors, "out": out, "files": files})
                if "setup" in spec:
                    exec(spec["setup"], ns)
                v = bool(eval(spec["violates"], ns))
                obs = spec.get("observe")
                observed = str(eval(obs, ns))[:600] if obs else f"{len(files)} files, {len(errors)} diagnostics"
                return {"violates": v, "observed": observed}
            finally:
                if tmp is not None:
                    shutil.rmtree(tmp, ignore_errors=True)
        if kind == "script":
            ns = dict(HELPERS)
            ns["generate_tree"] = generate_tree
            ns["VIOLATES"] = None
            ns["OBSERVED"] = ""
            exec(spec["code"], ns)
            return {"violates": bool(ns["VIOLATES"]), "observed": str(ns["OBSERVED"])[:600]}
        return {"violates": None, "observed": f"unknown replay kind {kind!r}"}
    except BaseException as e:  # noqa
        if spec.get("exception_is_violation"):
            return {"violates": True, "observed": f"raised {type(e).__name__}: {e}"[:600]}
        return {"violates": None, "observed": "replay harness error: " + traceback.format_exc()[-600:]}


def main():
    ap = argparse.ArgumentParser()
    ap.add_argument("--spec")
    ap.add_argument("--file")
    a = ap.parse_args()
    if a.file:
        with open(a.file, encoding="utf-8") as f:
            data = json.load(f)
        spec = data.get("replay") or data
        if spec is None or "kind" not in spec:
            print(json.dumps({"violates": None, "observed": "replay file carries no concrete input "
                              "(no-failing-input-found); verifier output: " + str(data.get("verifier_output"))[:400]}))
            return 2
    else:
        spec = json.loads(a.spec)
    res = run_spec(spec)
    print(json.dumps(res))
    return 1 if res.get("violates") else 0


if __name__ == "__main__":
    sys.exit(main())
