"""Entry point of ./check: run the obligations of one property and write its evidence file."""
from __future__ import annotations

import argparse
import importlib
import os
import sys
import traceback

from .core import Report, KnownFindings, VERIF


def main():
    ap = argparse.ArgumentParser()
    ap.add_argument("prop")
    ap.add_argument("--tier", default=os.environ.get("VERIF_TIER", "quick"), choices=["quick", "thorough"])
    a = ap.parse_args()
    seed = int(os.environ.get("VERIF_SEED", "0") or 0)
    rep = Report(a.prop, a.tier, seed)
    kf = KnownFindings()
    try:
        import openapi_python_client
        repo = os.environ.get("PYVC_REPO", "/repo")
        if not os.path.abspath(openapi_python_client.__file__).startswith(os.path.abspath(repo) + os.sep):
            raise RuntimeError(f"openapi_python_client imported from {openapi_python_client.__file__}, expected {repo}")
        mod = importlib.import_module(f"props.{a.prop}")
        kwargs = mod.run(rep, kf, a.tier, seed) or {}
    except BaseException as e:  # noqa
        from .replay import GeneratorCrashed
        crashed = e if isinstance(e, GeneratorCrashed) else None
        if crashed is None:
            # (worker processes re-raise: look through the chain)
            c = e
            while c is not None and crashed is None:
                crashed = c if isinstance(c, GeneratorCrashed) else None
                c = c.__cause__ or c.__context__
        if crashed is not None:
            # the real generator raised on one of the harness's (valid) documents: that is a violation to report, with the
            # document as replay -- not a crash of the checker
            from .core import Obligation, REFUTED
            ob = Obligation(id=f"{a.prop}.native.generator-returns-diagnostics-on-the-probe-documents", props=[a.prop, "C06"],
                            unit="openapi_python_client.generate on a schematic / probe document of this check", backend="cpython (native run)",
                            formula="generate() returns its diagnostics for every document of the harness (it does not raise)",
                            status=REFUTED, detail=f"generate() raised {crashed.what}; {crashed.tb.strip().splitlines()[-3:] if crashed.tb else ''}")
            if isinstance(crashed.document, dict):
                ob.witness = {"kind": "generate", "document": crashed.document, "config": crashed.config, "meta": crashed.meta,
                              "violates": "False", "observe": "'generate() returned'", "exception_is_violation": True}
            rep.add(ob)
            kwargs = {}
        else:
            traceback.print_exc()
            rep.crash = f"{type(e).__name__}: {e}"
            kwargs = {}
    kwargs.setdefault("checker_cmd", f"./check {a.prop} --tier {a.tier}")
    if a.tier == "thorough" and not rep.crash and os.environ.get("PYVC_REPO", "/repo") == "/repo" \
            and not os.environ.get("PYVC_NO_SELFTEST"):
        try:
            rep.extra["mutation_selftest"] = mutation_selftest(a.prop)
        except BaseException as e:  # noqa
            rep.extra["mutation_selftest"] = {"error": f"{type(e).__name__}: {e}"}
    rc = rep.finish(**kwargs)
    sys.exit(rc)


def mutation_selftest(prop, limit=6):
    """Thorough tier only: vacuity guard on the contracts.  Hand-written property-breaking mutants of /repo (catalogue in
    tools/selftest.py, textual replacements) that name this property are applied one by one to a scratch git worktree of /repo
    (outside /repo and /verif, removed afterwards) and this property's QUICK check is run against the mutant (PYVC_REPO): it
    must exit 1.  The result is evidence only (a surviving mutant is a weakness of the contracts, not a violation of the
    property on the unchanged tree) and never changes the exit code."""
    import subprocess
    import tempfile
    sys.path.insert(0, os.path.join(VERIF, "tools"))
    import selftest
    todo = [m for m in selftest.MUTANTS if prop in m[4]][:limit]
    out = {"mutants": len(todo), "killed": [], "survived": [], "skipped": []}
    for mid, path, old, new, props in todo:
        wt = tempfile.mkdtemp(prefix="pyvc-self-")
        repo = os.path.join(wt, "repo")
        try:
            r = subprocess.run(["git", "-C", "/repo", "worktree", "add", "-q", "--detach", repo, "HEAD"], capture_output=True, text=True)
            if r.returncode:
                out["skipped"].append(f"{mid}: no worktree ({r.stderr.strip()[:80]})")
                continue
            f = os.path.join(repo, path)
            s = open(f, encoding="utf-8").read()
            if old not in s:
                out["skipped"].append(f"{mid}: pattern not in the current source")
                continue
            open(f, "w", encoding="utf-8").write(s.replace(old, new, 1))
            env = dict(os.environ, PYVC_REPO=repo, PYVC_NO_SELFTEST="1", PYVC_OUT_DIR=os.path.join(wt, "out"),
                       PYVC_BOUNDED_CASE_SECONDS=os.environ.get("PYVC_BOUNDED_CASE_SECONDS", "30"))
            p = subprocess.Popen([os.path.join(VERIF, "check"), prop, "--tier", "quick"], stdout=subprocess.DEVNULL,
                                 stderr=subprocess.DEVNULL, env=env, start_new_session=True)
            try:
                p.wait(timeout=1500)
            except subprocess.TimeoutExpired:
                import signal
                os.killpg(p.pid, signal.SIGKILL)
                p.wait()
                out["skipped"].append(f"{mid}: the check on the mutant did not finish within 1500 s")
                continue
            c = p
            (out["killed"] if c.returncode == 1 else out["survived"]).append(f"{mid} ({os.path.basename(path)}): exit {c.returncode}")
        finally:
            subprocess.run(["git", "-C", "/repo", "worktree", "remove", "--force", repo], capture_output=True)
            subprocess.run(["rm", "-rf", wt])
    subprocess.run(["git", "-C", "/repo", "worktree", "prune"], capture_output=True)
    return out


if __name__ == "__main__":
    main()
