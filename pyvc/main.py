"""Entry point of ./check: run the obligations of one property and write its evidence file."""
from __future__ import annotations

import argparse
import importlib
import os
import sys
import traceback

from .core import Report, KnownFindings, VERIF


def main():
    ap = argparse.ArgumentParser()
    ap.add_argument("prop")
    ap.add_argument("--tier", default=os.environ.get("VERIF_TIER", "quick"), choices=["quick", "thorough"])
    a = ap.parse_args()
    seed = int(os.environ.get("VERIF_SEED", "0") or 0)
    rep = Report(a.prop, a.tier, seed)
    kf = KnownFindings()
    try:
        import openapi_python_client
        repo = os.environ.get("PYVC_REPO", "/repo")
        if not os.path.abspath(openapi_python_client.__file__).startswith(os.path.abspath(repo) + os.sep):
            raise RuntimeError(f"openapi_python_client imported from {openapi_python_client.__file__}, expected {repo}")
        mod = importlib.import_module(f"props.{a.prop}")
        kwargs = mod.run(rep, kf, a.tier, seed) or {}
    except BaseException as e:  # noqa
        traceback.print_exc()
        rep.crash = f"{type(e).__name__}: {e}"
        kwargs = {}
    kwargs.setdefault("checker_cmd", f"./check {a.prop} --tier {a.tier}")
    rc = rep.finish(**kwargs)
    sys.exit(rc)


if __name__ == "__main__":
    main()
