"""Engine A driver: discharge the triples of string contracts on the real function bodies, find native witnesses for
failed triples, cross-check the abstract semantics against CPython (encoding cross-check), handle restricted forms."""
from __future__ import annotations

import itertools
import random
import time

from . import alphabet as _alpha
from . import source
from .automata import Lang
from .core import Obligation, PROVED, REFUTED, UNDECIDED, ERROR
from .strabs import (AConst, AList, AStr, AUnk, Interp, OutOfReach, PList, Registry, StrContract, Triple, Vocab,
                     as_lang, leq_post)


def _env_for(fn, triple):
    env = {}
    params = [a.arg for a in fn.args.args]
    for p in params:
        if p in ("cls", "self"):
            env[p] = AUnk(p)
            continue
        if p in triple.pre:
            req = triple.pre[p]
            env[p] = AStr(req) if isinstance(req, Lang) else AConst(req)
        else:
            env[p] = AUnk(p)
    return env


def show_word(w, variant=0):
    A = _alpha.get()
    return A.concretise(w, variant)


def describe_lang_witness(bad: Lang):
    w = bad.witness()
    A = _alpha.get()
    return w, A.concretise(w) if w is not None else None


class EngineA:
    def __init__(self, registry: Registry, report, seed=0):
        self.reg = registry
        self.report = report
        self.rnd = random.Random(seed)
        self.results = {}       # (qualname, triple name) -> Obligation
        self.computed = {}      # (qualname, triple name) -> abstract result value

    def _interp(self, msrc):
        idx = dict(msrc.funcs)
        # callee sources may live in other modules: add lazily
        return Interp(msrc.module, self.reg, _SrcIndex())

    def check_triple(self, c: StrContract, t: Triple, prop_prefix: str) -> Obligation:
        t0 = time.time()
        msrc, fn = source.func(c.qualname)
        ob = Obligation(id=f"{prop_prefix}.A.{c.qualname.split(':')[1]}.{t.name}", props=list(t.prop), unit=c.qualname,
                        backend="automata", formula=_fmt_triple(c, t))
        if fn is None:
            ob.status = UNDECIDED
            ob.detail = f"function {c.qualname} not found in the current tree"
            return ob
        ob.where = msrc.where(fn)
        ob.src_hash = msrc.func_hash(fn)
        self.report.fuc(c.qualname, ob.where, ob.src_hash)
        try:
            it = self._interp(msrc)
            val = it.run(fn, _env_for(fn, t))
            self.computed[(c.qualname, t.name)] = val
            if not hasattr(self, "_used"):
                self._used = set()
            for cq, names in it.calls:
                for nm in names:
                    self._used.add((cq, nm))
            ok, bad = leq_post(val, t.post)
            if ok:
                ob.status = PROVED
                ob.detail = f"inclusion holds; callee triples used: {sorted(set(it.calls))}"
            else:
                what, badlang = bad
                w = badlang.witness()
                A = _alpha.get()
                ob.status = REFUTED
                ob.detail = (f"{what} may be {A.concretise(w)!r} (class word {list(w)}), which is outside the "
                             f"post-condition; abstract counterexample on the output side")
                ob._bad = badlang      # type: ignore[attr-defined]
        except OutOfReach as e:
            ob.status = UNDECIDED
            ob.detail = f"out of reach: {e}"
        except RecursionError as e:  # pragma: no cover
            ob.status = ERROR
            ob.detail = f"engine error: {e}"
        ob.time_s = time.time() - t0
        return ob

    # ---- native witness search ---------------------------------------------------------------------------------
    def find_input(self, c: StrContract, t: Triple, ob: Obligation, native_post, max_len=3, budget=40000):
        """Search a concrete input in the pre-condition for which the REAL function violates the post-condition.
        Candidates: strings over representatives of the classes occurring in the abstract output counterexample,
        their case pre-images, the delimiters, and a few fixed hostile characters."""
        A = _alpha.get()
        fnative = source.resolve_native(c.qualname.replace(".__new__", ""))
        msrc, fn = source.func(c.qualname)
        params = [a.arg for a in fn.args.args if a.arg not in ("cls", "self")]
        str_params = [p for p in params if isinstance(t.pre.get(p), Lang)]
        fixed = {p: v for p, v in t.pre.items() if not isinstance(v, Lang)}
        bad = getattr(ob, "_bad", None)
        classes = set()
        if bad is not None:
            for w in bad.witnesses(k=6, maxlen=6):
                classes.update(w)
        # pre-images under case maps
        for k in range(A.n):
            imgs = set()
            for alt in A.lower[k]:
                imgs.update(alt)
            imgs.update(A.upper[k])
            imgs.update(A.title[k])
            if imgs & classes and A.count[k] > 0 and k >= 128:
                classes.add(k)
        classes = set(list(sorted(classes))[:14])
        classes.update(A.chars("a_ .-A1"))
        chars = []
        for k in sorted(classes):
            for cp in A.reps[k][:2]:
                chars.append(chr(cp))
        tried = 0
        main = str_params[0] if str_params else None
        others = {}
        for p in str_params[1:]:
            w = t.pre[p].witness()
            # prefer a typical value: sample a few
            others[p] = [A.concretise(x) for x in t.pre[p].witnesses(k=3, maxlen=8)] or [A.concretise(w)]
        if main is None:
            return None
        for n in range(0, max_len + 1):
            for tup in itertools.product(chars, repeat=n):
                s = "".join(tup)
                if not t.pre[main].accepts_text(s):
                    continue
                for combo in itertools.product(*[others[p] for p in others]) if others else [()]:
                    kwargs = dict(fixed)
                    kwargs[main] = s
                    for p, v in zip(others, combo):
                        kwargs[p] = v
                    tried += 1
                    if tried > budget:
                        return None
                    try:
                        res = fnative(**kwargs)
                    except Exception as e:  # an exception escaping is also outside a language post-condition
                        return {"kind": "call", "qualname": c.qualname.replace(".__new__", ""), "args": [],
                                "kwargs": kwargs, "violates": "exc is not None"}
                    if not native_post(res):
                        return {"kind": "call", "qualname": c.qualname.replace(".__new__", ""), "args": [],
                                "kwargs": kwargs, "violates": t.native_violates}   # type: ignore[attr-defined]
        return None

    # ---- encoding cross-check -----------------------------------------------------------------------------------
    def crosscheck(self, c: StrContract, t: Triple, samples=200):
        """Evaluate the real function on concrete inputs drawn from the pre-condition and check that the result lies in
        the language the engine *computed* for the body (not merely the contract's post).  A miss means the abstract
        semantics of some primitive is wrong: exit 3."""
        val = self.computed.get((c.qualname, t.name))
        if val is None:
            return 0, 0, None
        A = _alpha.get()
        fnative = source.resolve_native(c.qualname.replace(".__new__", ""))
        msrc, fn = source.func(c.qualname)
        fixed = {p: v for p, v in t.pre.items() if not isinstance(v, Lang)}
        langs = {p: v for p, v in t.pre.items() if isinstance(v, Lang)}
        n = bad = 0
        first_bad = None
        interesting = set()
        for k in range(A.n):
            if k >= 128:
                interesting.add(k)
        interesting.update(A.chars("_-. aZz09\"\\'\n{}/"))
        for i in range(samples):
            kwargs = dict(fixed)
            okp = True
            for p, L in langs.items():
                w = L.sample(self.rnd, maxlen=self.rnd.choice([1, 2, 3, 5, 8]), prefer=interesting if i % 2 else None)
                if w is None:
                    okp = False
                    break
                kwargs[p] = A.concretise(w, variant=self.rnd.randrange(4))
            if not okp:
                break
            try:
                res = fnative(**kwargs)
            except Exception as e:
                bad += 1
                first_bad = first_bad or (kwargs, f"raised {type(e).__name__}: {e}")
                n += 1
                continue
            n += 1
            if not _member(res, val):
                bad += 1
                first_bad = first_bad or (kwargs, repr(res))
        return n, bad, first_bad


def _member(res, val) -> bool:
    A = _alpha.get()
    if isinstance(val, AStr) or (isinstance(val, AConst) and isinstance(val.value, str)):
        return isinstance(res, str) and as_lang(val).accepts_text(res)
    if isinstance(val, AList):
        if not isinstance(res, (list, tuple)):
            return False
        if len(res) == 0:
            return val.can_empty
        if not val.can_nonempty:
            return False
        return val.first.accepts_text(res[0]) and all(val.rest.accepts_text(x) for x in res[1:])
    if isinstance(val, AConst):
        return res == val.value
    return True


def _fmt_triple(c, t):
    pre = ", ".join(f"{p} in {getattr(v, '_name', None) or ('<lang>' if isinstance(v, Lang) else repr(v))}"
                    for p, v in t.pre.items())
    post = getattr(t.post, "_name", None) or ("<list spec>" if isinstance(t.post, PList) else "<lang>")
    return f"{{{pre}}} {c.qualname} {{result in {post}}}"


class _SrcIndex:
    """qualname -> FunctionDef across modules, loaded on demand"""

    def get(self, qn):
        m, fn = source.func(qn)
        return fn


def named(L: Lang, name: str) -> Lang:
    L._name = name
    return L


def discharge(rep, kf, reg: Registry, prop_id: str, tier="quick", seed=0, only=None):
    """Check every triple tagged with prop_id (and, transitively, every callee triple those proofs used).
    Handles restricted forms / known findings, native witness search, vacuity covers and the encoding cross-check."""
    from .core import run_native
    E = EngineA(reg, rep, seed)
    samples = 60 if tier == "quick" else 1500
    todo = []
    for qn, c in reg.contracts.items():
        if only and qn not in only:
            continue
        for t in c.triples:
            if prop_id in t.prop:
                todo.append((c, t))
    done = {}
    needed_callee = set()
    printed_findings = set()

    def check(c, t):
        key = (c.qualname, t.name)
        if key in done:
            return done[key]
        ob = E.check_triple(c, t, prop_id)
        done[key] = ob
        return ob

    # group triples by contract
    by_contract = {}
    for c, t in todo:
        by_contract.setdefault(c.qualname, (c, []))[1].append(t)
    for qn, (c, ts) in by_contract.items():
        names = {t.name for t in ts}
        for t in ts:
            if t.restricts is not None:
                continue         # handled with its unrestricted triple
            ob = check(c, t)
            rep.add(ob)
            if ob.status == PROVED:
                _cover_and_crosscheck(E, rep, c, t, samples)
                continue
            if ob.status != REFUTED:
                continue
            restricted = [r for r in c.triples if r.restricts == t.name]
            handled = False
            for r in restricted:
                entries = [kf.get(fid) for fid in r.known]
                if any(e is None for e in entries):
                    continue        # not a listed finding: the restriction may not be used
                # every listed witness must still fail natively, otherwise the finding is stale and excludes nothing
                live = []
                for e in entries:
                    nat = run_native(e["replay"])
                    if nat.get("violates"):
                        live.append(e)
                if len(live) != len(entries):
                    continue
                rob = check(c, r)
                rob.restricted = True
                rob.findings = list(r.known)
                rob.unrestricted_of = ob.id
                rep.add(rob)
                if rob.status == PROVED:
                    ob.findings = list(r.known)
                    for e in live:
                        if e["id"] not in printed_findings:
                            printed_findings.add(e["id"])
                            rep.known_lines.append((e["id"], e["what"]))
                    _cover_and_crosscheck(E, rep, c, r, samples)
                    handled = True
                    break
                elif rob.status == REFUTED:
                    # a counterexample outside the listed classes: violation of the restricted obligation
                    rob.findings = []
                    rob.witness = E.find_input(c, r, rob, lambda res, r=r: _native_ok(res, r.post))
                    _fix_violates(rob, r)
                    ob.findings = list(r.known)     # the unrestricted failure is reported through the restricted one
                    handled = True
                    break
            if not handled:
                ob.witness = E.find_input(c, t, ob, lambda res, t=t: _native_ok(res, t.post))
                _fix_violates(ob, t)
    # callee triples used by the proofs must themselves be proved (modularity): check the closure
    changed = True
    while changed:
        changed = False
        for (cqn, tname) in list(_used_callee_triples(E)):
            c = reg.get(cqn)
            t = next(x for x in c.triples if x.name == tname)
            if (cqn, tname) in done:
                continue
            ob = check(c, t)
            ob.id = ob.id + "@callee"
            rep.add(ob)
            if ob.status == PROVED:
                _cover_and_crosscheck(E, rep, c, t, max(20, samples // 3))
            elif ob.status == REFUTED:
                ob.witness = E.find_input(c, t, ob, lambda res, t=t: _native_ok(res, t.post))
                _fix_violates(ob, t)
            changed = True
    return E


def _used_callee_triples(E):
    return set(E._used) if hasattr(E, "_used") else set()


def _native_ok(res, post):
    if isinstance(post, Lang):
        return isinstance(res, str) and post.accepts_text(res)
    if isinstance(post, PList):
        if not isinstance(res, list):
            return False
        if not res:
            return post.can_empty
        return post.first.accepts_text(res[0]) and all(post.rest.accepts_text(x) for x in res[1:])
    return True


def _fix_violates(ob, t):
    if ob.witness is not None and ob.witness.get("violates") is None:
        name = getattr(t.post, "_name", None)
        ob.witness["violates"] = t.native_violates or "True"


def _cover_and_crosscheck(E, rep, c, t, samples):
    val = E.computed.get((c.qualname, t.name))
    # vacuity: the pre-condition is satisfiable and the function can return something under it
    nonempty = True
    for p, v in t.pre.items():
        if isinstance(v, Lang) and v.is_empty():
            nonempty = False
    if isinstance(val, AStr) and val.lang.is_empty():
        nonempty = False
    rep.extra.setdefault("vacuity_covers", {"checked": 0, "vacuous": []})
    rep.extra["vacuity_covers"]["checked"] += 1
    if not nonempty:
        rep.extra["vacuity_covers"]["vacuous"].append(f"{c.qualname}.{t.name}")
        rep.crash = f"vacuous triple {c.qualname}.{t.name}"
    n, bad, first = E.crosscheck(c, t, samples)
    rep.crosscheck["samples"] += n
    rep.crosscheck["disagreements"] += bad
    if bad and "first" not in rep.crosscheck:
        rep.crosscheck["first"] = {"unit": c.qualname, "triple": t.name, "input": repr(first[0]), "got": first[1]}
