"""Assumed contracts ("models") of CPython built-ins and third-party library functions used by the code under
verification.  Each model states, on symbolic arguments, which exceptions the operation may raise and what is known
about its result (uninterpreted functions of pyvc.symexec.Sorts).  These are the trusted base of Engine B; every entry
is listed in the evidence and exercised against the real library by tools/libcheck (not proved).
"""
from __future__ import annotations

import builtins
import typing

import z3

from .symexec import (SBool, SDict, SDictItems, SFloat, SFunc, SInt, SList, SObj, SOpaque, SSeq, SSet, SStr, STuple, SV,
                      Unsupported, _Tagged, _sorted_any)

MODELS = {}
TRUSTED = []          # human-readable list of assumed contracts


def model(obj, doc):
    TRUSTED.append(doc)

    def deco(fn):
        try:
            hash(obj)
            MODELS[obj] = fn
        except TypeError:
            MODELS[id(obj)] = fn
        return fn
    return deco


# ---- isinstance -------------------------------------------------------------------------------------------------------

def _isinstance_one(I, v, T):
    Z = I.Z
    if T is typing.Any or T is object:
        return True
    if isinstance(v, SV):
        from openapi_python_client.parser.properties.protocol import Value
        rec = Z.rec
        t = v.t
        if T is str:
            return rec["str"](t)
        if T is bool:
            return rec["bool"](t)
        if T is int:
            return z3.Or(rec["int"](t), rec["bool"](t))
        if T is float:
            return rec["flt"](t)
        if T is list:
            return rec["list"](t)
        if T is dict:
            return rec["dict"](t)
        if T is type(None):
            return rec["none"](t)
        if T is Value:
            return rec["val"](t)
        if getattr(T, "__name__", "") == "Unset":
            return rec["unset"](t)
        if isinstance(T, type):
            # any other class: only an opaque object could be an instance
            if issubclass(T, (tuple, set, frozenset, bytes)):
                return False
            return z3.And(rec["obj"](t), z3.Bool(f"isinstance_obj_{T.__name__}_{t}"))
        raise Unsupported(f"isinstance against {T}")
    if isinstance(v, SStr):
        return T is str
    if isinstance(v, SBool):
        return T in (bool, int)
    if isinstance(v, SInt):
        return T is int
    if isinstance(v, SFloat):
        return T is float
    if isinstance(v, STuple):
        return T is tuple
    if isinstance(v, SList):
        return T is list
    if isinstance(v, SDict):
        return T is dict or getattr(T, "__name__", "") == "Mapping"
    if isinstance(v, SSeq):
        return T is list
    if isinstance(v, SSet):
        return T in (set, frozenset)
    if isinstance(v, SObj):
        return isinstance(T, type) and issubclass(v.cls, T)
    if isinstance(v, _Tagged):
        return {"list": T is list, "dict": T is dict}.get(v.tag, getattr(T, "__name__", "") == "Unset" and v.tag == "unset")
    if isinstance(v, SOpaque):
        if v.cls is not None and isinstance(T, type):
            return issubclass(v.cls, T)
        raise Unsupported(f"isinstance of opaque {v.name}")
    if isinstance(v, SFunc):
        return False
    return isinstance(v, T)


@model(builtins.isinstance, "isinstance(x, T): decided by the JV constructor of x (bool is an int; Value, Unset by class)")
def _isinstance(I, args, kwargs):
    v, T = args
    Ts = T.items if isinstance(T, (STuple, SList)) else (list(T) if isinstance(T, tuple) else [T])
    if typing.get_origin(T) is typing.Union:
        Ts = list(typing.get_args(T))
    rs = [_isinstance_one(I, v, t) for t in Ts]
    if any(r is True for r in rs):
        return True
    rs = [r for r in rs if r is not False]
    if not rs:
        return False
    return SBool(z3.Or(*rs) if len(rs) > 1 else rs[0])


@model(builtins.len, "len(x) of lists/tuples/dicts/sets/strings")
def _len(I, args, kwargs):
    (v,) = args
    if isinstance(v, SV):
        v = I.view(v)
    if isinstance(v, (SList, STuple)):
        return len(v.items)
    if isinstance(v, (SDict, SSet)):
        return len(v.items)
    if isinstance(v, str):
        return len(v)
    if isinstance(v, SStr):
        return SInt(z3.Length(v.t))
    if isinstance(v, _Tagged) and v.tag == "list":
        return SInt(z3.Length(I.Z.acc["items"](v.t)))
    if isinstance(v, SSeq):
        return SInt(z3.Length(v.base))
    if isinstance(v, (list, tuple, dict, set, frozenset)):
        return len(v)
    if isinstance(v, SOpaque) and hasattr(v, "length"):
        return v.length(I)
    raise Unsupported(f"len of {type(v).__name__}")


@model(builtins.str, "str(x): identity on str; 'True'/'False'; str(int) is a decimal literal that evaluates to the int; "
                     "str(finite float) evaluates to the float; str(inf/nan) is 'inf'/'-inf'/'nan' (not evaluable)")
def _str(I, args, kwargs):
    if not args:
        return ""
    return I.py_str(args[0])


@model(builtins.repr, "repr(str) is a literal that evaluates to the same string; repr of numbers as str()")
def _repr(I, args, kwargs):
    return I.py_repr(args[0])


@model(builtins.float, "float(str): ValueError unless the text parses (uninterpreted predicate), result finite/inf/nan "
                       "(uninterpreted); float(int): OverflowError beyond the double range; float(bool); TypeError else")
def _float(I, args, kwargs):
    Z = I.Z
    (v,) = args
    if isinstance(v, SV):
        v = I.view(v)
    if isinstance(v, SFloat):
        return v
    if isinstance(v, (str, SStr)):
        t = I.to_str_term(v)
        if not I.branch(Z.float_ok(t)):
            I.raise_(ValueError, "could not convert string to float")
        return SFloat(Z.float_fk(t), Z.float_r(t))
    if isinstance(v, (bool, SBool)):
        return I.as_float(v)
    if isinstance(v, int):
        try:
            return I.float_const(float(v))
        except OverflowError:
            I.raise_(OverflowError, "int too large to convert to float")
    if isinstance(v, SInt):
        return I.int_to_float(v.t)
    I.raise_(TypeError, "float() argument must be a string or a real number")


@model(builtins.round, "round(x, n) of a finite float: SOME finite float (uninterpreted function of x and n; nothing else is "
                       "known about it, in particular not that it equals x); round(x) / other arguments: out of reach")
def _round(I, args, kwargs):
    Z = I.Z
    if len(args) != 2 or kwargs:
        raise Unsupported("round with one argument")
    x, n = args
    if isinstance(x, SV):
        x = I.view(x)
    if isinstance(n, SV):
        n = I.view(n)
    if not isinstance(x, SFloat) or not isinstance(n, (int, SInt)) or isinstance(n, bool):
        raise Unsupported("round of something else than a float to a number of digits")
    if not I.branch(x.k == Z.fk["fin"]):
        return x                 # round(inf, n) == inf, round(nan, n) is nan
    f = z3.Function("py_round", z3.RealSort(), z3.IntSort(), z3.RealSort())
    r = f(x.r, n if isinstance(n, int) else n.t)
    I.assume(z3.And(r <= Z.MAXF, r >= -Z.MAXF))
    return SFloat(Z.fk["fin"], r)


@model(builtins.int, "int(finite float) truncates toward zero; int(inf) OverflowError; int(nan) ValueError; int(str): "
                     "ValueError unless it parses; int(bool)")
def _int(I, args, kwargs):
    Z = I.Z
    if len(args) != 1:
        raise Unsupported("int with base")
    (v,) = args
    if isinstance(v, SV):
        v = I.view(v)
    if isinstance(v, bool):
        return int(v)
    if isinstance(v, int):
        return v
    if isinstance(v, SInt):
        return v
    if isinstance(v, SBool):
        return SInt(z3.If(v.t, 1, 0))
    if isinstance(v, SFloat):
        if I.branch(v.k == Z.fk["fin"]):
            ti = z3.ToInt(v.r)     # floor
            trunc = z3.If(v.r >= 0, ti, z3.If(z3.ToReal(ti) == v.r, ti, ti + 1))
            return SInt(trunc)
        if I.branch(v.k == Z.fk["nan"]):
            I.raise_(ValueError, "cannot convert float NaN to integer")
        I.raise_(OverflowError, "cannot convert float infinity to integer")
    if isinstance(v, (str, SStr)):
        t = I.to_str_term(v)
        if not I.branch(Z.int_ok(t)):
            I.raise_(ValueError, "invalid literal for int()")
        return SInt(Z.int_of(t))
    I.raise_(TypeError, "int() argument must be a string, a bytes-like object or a real number")


@model(builtins.bool, "bool(x): python truthiness")
def _bool(I, args, kwargs):
    if not args:
        return False
    t = I.truth(args[0])
    return t if isinstance(t, bool) else SBool(t)


@model(builtins.any, "any(iterable)")
def _any(I, args, kwargs):
    for x in I.iterate(args[0]):
        if I.is_true(x):
            return True
    return False


@model(builtins.all, "all(iterable)")
def _all(I, args, kwargs):
    for x in I.iterate(args[0]):
        if not I.is_true(x):
            return False
    return True


@model(builtins.list, "list(iterable)")
def _list(I, args, kwargs):
    if not args:
        return SList()
    return SList(I.iterate(args[0]))


@model(builtins.tuple, "tuple(iterable)")
def _tuple(I, args, kwargs):
    if not args:
        return STuple()
    return STuple(I.iterate(args[0]))


@model(builtins.type, "type(x): the class of an object")
def _type(I, args, kwargs):
    if len(args) != 1:
        raise Unsupported("type() with three arguments")
    v = args[0]
    if isinstance(v, SObj):
        return v.cls
    if isinstance(v, SV):
        v = I.view(v)
    for T, P in ((SStr, str), (SBool, bool), (SInt, int), (SFloat, float), (STuple, tuple), (SList, list), (SDict, dict),
                 (SSet, set), (SSeq, list)):
        if isinstance(v, T):
            return P
    if isinstance(v, (SOpaque, SFunc, _Tagged)):
        raise Unsupported("type() of an opaque value")
    return type(v)


@model(builtins.set, "set(iterable) of hashable concrete elements")
def _set(I, args, kwargs):
    if not args:
        if getattr(I, "empty_set_hook", None) is not None:
            return I.empty_set_hook()
        return SSet()
    if hasattr(args[0], "as_absset"):
        return args[0].as_absset()
    return SSet([I.hashable(x) for x in I.iterate(args[0])])


@model(builtins.dict, "dict(mapping | pairs)")
def _dict(I, args, kwargs):
    d = SDict()
    if args:
        a = args[0]
        if isinstance(a, SV):
            a = I.view(a)
        if isinstance(a, SDict):
            d.items.update(a.items)
            d.rest, d.rest_maps, d.rest_dom = a.rest, list(a.rest_maps), a.rest_dom
        else:
            for p in I.iterate(a):
                k, v = I.iterate(p)
                d.items[I.hashable(k)] = v
    d.items.update(kwargs)
    return d


@model(builtins.sorted, "sorted(iterable of concrete comparable elements)")
def _sorted(I, args, kwargs):
    xs = I.iterate(args[0])
    key = kwargs.get("key")
    if key is not None:
        ks = [I.call(key, [x], {}) for x in xs]
        if not all(isinstance(k, (str, int, tuple)) for k in ks):
            raise Unsupported("sorted with symbolic keys")
        return SList([x for _, x in sorted(zip(ks, xs), key=lambda p: p[0])])
    if all(isinstance(x, (str, int)) for x in xs):
        return SList(sorted(xs))
    raise Unsupported("sorted of symbolic elements")


@model(builtins.enumerate, "enumerate(iterable)")
def _enumerate(I, args, kwargs):
    start = args[1] if len(args) > 1 else kwargs.get("start", 0)
    if isinstance(args[0], SSeq):
        if start != 0:
            raise Unsupported("enumerate(start=...) over a list of symbolic length")
        e = SSeq(args[0].base, args[0].dom, args[0].maps)
        e.enumerated = True          # the loop rules pair each element with its position
        return e
    return SList([STuple([i + start, x]) for i, x in enumerate(I.iterate(args[0]))])


@model(builtins.zip, "zip(iterables)")
def _zip(I, args, kwargs):
    return SList([STuple(list(t)) for t in zip(*[I.iterate(a) for a in args])])


@model(builtins.next, "next(iterator of a known-length iterable)")
def _next(I, args, kwargs):
    xs = I.iterate(args[0])
    if xs:
        return xs[0]
    if len(args) > 1:
        return args[1]
    I.raise_(StopIteration)


@model(builtins.iter, "iter(x)")
def _iter(I, args, kwargs):
    return SList(I.iterate(args[0]))


import collections as _collections


@model(_collections.deque, "collections.deque(iterable): a double-ended queue of known length (modelled as a list)")
def _deque(I, args, kwargs):
    d = SList(list(I.iterate(args[0])) if args else [])
    d.is_deque = True
    return d


import itertools as _itertools


@model(_itertools.chain, "itertools.chain(*iterables) of known-length iterables")
def _chain(I, args, kwargs):
    out = []
    for a in args:
        out.extend(I.iterate(a))
    return SList(out)


@model(builtins.getattr, "getattr(obj, name[, default])")
def _getattr(I, args, kwargs):
    from .symexec import PyRaise
    obj, name = args[0], args[1]
    if isinstance(name, SV):
        name = I.view(name)
    if not isinstance(name, str):
        hook = getattr(obj, "getattr_sym", None)
        if hook is not None and isinstance(name, SStr):
            return hook(I, name)         # an abstract object that knows its attributes as a function of the name
        raise Unsupported("getattr with symbolic name")
    try:
        return I.get_attr(obj, name)
    except PyRaise as e:
        if len(args) > 2 and issubclass(e.value.cls, AttributeError):
            return args[2]
        raise


@model(builtins.hasattr, "hasattr(obj, name)")
def _hasattr(I, args, kwargs):
    from .symexec import PyRaise
    try:
        I.get_attr(args[0], args[1])
        return True
    except PyRaise:
        return False


@model(object.__setattr__, "object.__setattr__(obj, name, value)")
def _osetattr(I, args, kwargs):
    obj, name, v = args
    I.set_attr(obj, name, v)
    return None


import copy as _copy


@model(_copy.deepcopy, "copy.deepcopy: a structurally equal copy sharing nothing mutable (records, lists, dicts, sets)")
def _deepcopy(I, args, kwargs):
    memo = {}

    def cp(v):
        if id(v) in memo:
            return memo[id(v)]
        if isinstance(v, SObj):
            if issubclass(v.cls, str):
                return v
            n = SObj(v.cls, {})
            memo[id(v)] = n
            n.fields = {k: cp(x) for k, x in v.fields.items()}
            return n
        if isinstance(v, STuple):
            return STuple([cp(x) for x in v.items])
        if isinstance(v, SList):
            n = SList()
            memo[id(v)] = n
            n.items = [cp(x) for x in v.items]
            return n
        if isinstance(v, SDict):
            n = SDict({}, v.rest, v.rest_maps, v.rest_dom)
            memo[id(v)] = n
            n.items = {k: cp(x) for k, x in v.items.items()}
            return n
        if isinstance(v, SSet):
            n = SSet(v.items)
            n.__dict__.update({k: list(x) for k, x in v.__dict__.items() if k == "absorbed"})
            return n
        if hasattr(v, "deepcopy_hook"):
            n = v.deepcopy_hook()
            memo[id(v)] = n
            return n
        return v
    return cp(args[0])


@model(typing.cast, "typing.cast(T, x) returns x")
def _cast(I, args, kwargs):
    return args[1]


import math as _math


@model(_math.isfinite, "math.isfinite(x)")
def _isfinite(I, args, kwargs):
    (v,) = args
    if isinstance(v, SV):
        v = I.view(v)
    if isinstance(v, (int, bool, SInt, SBool)):
        return True
    if isinstance(v, SFloat):
        return SBool(v.k == I.Z.fk["fin"])
    if isinstance(v, float):
        return _math.isfinite(v)
    I.raise_(TypeError, "must be real number")


class Domains:
    """assumed library bijections on canonical forms, as uninterpreted predicates/functions (trusted base):
    isoformat(isoparse(s)[.date()]) == s for canonical RFC 3339 s; str(UUID(s)) == s for canonical lower-case s"""
    _inst = None

    def __init__(self):
        S, B = z3.StringSort(), z3.BoolSort()
        self.canon_date = z3.Function("canonical_rfc3339_date", S, B)
        self.canon_datetime = z3.Function("canonical_rfc3339_datetime", S, B)
        self.canon_uuid = z3.Function("canonical_uuid", S, B)
        self.date_iso = z3.Function("isoformat_of_date_of_isoparse", S, S)
        self.dt_iso = z3.Function("isoformat_of_isoparse", S, S)
        self.uuid_str = z3.Function("str_of_uuid", S, S)

    @classmethod
    def get(cls):
        if cls._inst is None:
            cls._inst = Domains()
        return cls._inst


def uuid_str(I, v):
    D = Domains.get()
    t = I.to_str_term(v.fields["__text__"])
    I.fact(z3.Implies(D.canon_uuid(t), D.uuid_str(t) == t))
    return SStr(D.uuid_str(t))


def _install_repo_names():
    """PythonIdentifier / ClassName are used by their Engine-A contract: a deterministic function of the arguments whose
    result is an identifier (C09); Engine B only needs determinism."""
    from openapi_python_client import utils
    S, B = z3.StringSort(), z3.BoolSort()
    pyident = z3.Function("PythonIdentifier", S, S, B, S)
    clsname = z3.Function("ClassName", S, S, S)

    @model(utils.PythonIdentifier, "utils.PythonIdentifier(value, prefix, skip_snake_case): deterministic (contract: C09, Engine A)")
    def _pi(I, args, kwargs):
        value = args[0] if args else kwargs["value"]
        prefix = args[1] if len(args) > 1 else kwargs["prefix"]
        skip = args[2] if len(args) > 2 else kwargs.get("skip_snake_case", False)
        skip_t = skip.t if isinstance(skip, SBool) else z3.BoolVal(bool(skip))
        return SStr(pyident(I.to_str_term(I.py_str(value)), I.to_str_term(I.py_str(prefix)), skip_t))

    # (remove_string_escapes is NOT summarised here: its source is a str.replace the engine interprets with its facts)
    for fname in ("snake_case", "pascal_case", "kebab_case", "sanitize", "fix_reserved_words"):
        f = z3.Function(fname, S, S)

        def _m(I, args, kwargs, f=f):
            value = args[0] if args else kwargs["value"]
            return SStr(f(I.to_str_term(I.py_str(value))))
        model(getattr(utils, fname), f"utils.{fname}(value): deterministic (contract: its Engine-A triples)")(_m)

    @model(utils.ClassName, "utils.ClassName(value, prefix): deterministic (contract: C09, Engine A)")
    def _cn(I, args, kwargs):
        value = args[0] if args else kwargs["value"]
        prefix = args[1] if len(args) > 1 else kwargs["prefix"]
        return SStr(clsname(I.to_str_term(I.py_str(value)), I.to_str_term(I.py_str(prefix))))


_install_repo_names()


def _install_typer():
    try:
        import typer
        import pprint
    except ImportError:  # pragma: no cover
        return
    for f in (typer.secho, typer.echo):
        model(f, f"typer.{f.__name__}: prints, no effect on the program state")(lambda I, a, k: None)
    model(typer.style, "typer.style: returns a string")(lambda I, a, k: SStr(I.fresh("styled", z3.StringSort())))
    model(pprint.pformat, "pprint.pformat: returns a string")(lambda I, a, k: SStr(I.fresh("pformat", z3.StringSort())))


_install_typer()


def _install_urllib():
    import urllib.parse as up
    for fn in (up.unquote, up.quote):
        f = z3.Function(f"urllib_{fn.__name__}", z3.StringSort(), z3.StringSort())

        def m(I, args, kwargs, f=f):
            return SStr(f(I.to_str_term(args[0])))
        model(fn, f"urllib.parse.{fn.__name__}: a deterministic function of the string (uninterpreted)")(m)


_install_urllib()


def _install_http():
    import http
    import io

    @model(http.HTTPStatus, "HTTPStatus(code): the member with that value, ValueError for an unknown code (uninterpreted predicate)")
    def _httpstatus(I, args, kwargs):
        (v,) = args
        if isinstance(v, int):
            try:
                return http.HTTPStatus(v)
            except ValueError as e:
                I.raise_(ValueError, str(e))
        if isinstance(v, SV):
            v = I.view(v)
        if isinstance(v, SInt):
            known = z3.Or(*[v.t == m.value for m in http.HTTPStatus])
            if not I.branch(known):
                I.raise_(ValueError, "not a valid HTTPStatus")
            return SObj(http.HTTPStatus, {"value": v})
        if isinstance(v, (str, SStr)):
            I.raise_(ValueError, "not a valid HTTPStatus")
        raise Unsupported("HTTPStatus of a non-int")

    @model(io.BytesIO, "io.BytesIO(b): a file object over the given bytes")
    def _bytesio(I, args, kwargs):
        return SObj(io.BytesIO, {"initial": args[0] if args else None})


_install_http()


def _install_third_party():
    from dateutil.parser import isoparse
    import uuid

    @model(isoparse, "dateutil.parser.isoparse(str): ValueError unless the text is ISO-8601 (uninterpreted predicate); "
                     "result is an opaque datetime")
    def _isoparse(I, args, kwargs):
        Z = I.Z
        (v,) = args
        if isinstance(v, SV):
            v = I.view(v)
        if not isinstance(v, (str, SStr)):
            I.raise_(TypeError, "isoparse needs str")
        t = I.to_str_term(v)
        D = Domains.get()
        I.fact(z3.Implies(z3.Or(D.canon_date(t), D.canon_datetime(t)), Z.iso_ok(t)))
        if not I.branch(Z.iso_ok(t)):
            I.raise_(ValueError, "invalid isoformat string")
        import datetime
        return SObj(datetime.datetime, {"__iso__": SStr(t)})

    import datetime as _dt

    @model(_dt.datetime.date, "datetime.date(): the date part of a datetime (opaque)")
    def _dtdate(I, args, kwargs):
        (d,) = args
        return SObj(_dt.date, {"__of__": d})

    @model(_dt.date.isoformat, "date.isoformat(): equals the parsed text for canonical RFC 3339 full-date strings")
    def _date_iso(I, args, kwargs):
        D = Domains.get()
        (d,) = args
        src = d.fields.get("__of__") if isinstance(d, SObj) else None
        if src is None or "__iso__" not in src.fields:
            raise Unsupported("isoformat of a date of unknown origin")
        t = I.to_str_term(src.fields["__iso__"])
        I.fact(z3.Implies(D.canon_date(t), D.date_iso(t) == t))
        return SStr(D.date_iso(t))

    @model(_dt.datetime.isoformat, "datetime.isoformat(): equals the parsed text for canonical RFC 3339 date-time strings")
    def _dt_iso(I, args, kwargs):
        D = Domains.get()
        d = args[0]
        if not isinstance(d, SObj) or "__iso__" not in d.fields:
            raise Unsupported("isoformat of a datetime of unknown origin")
        t = I.to_str_term(d.fields["__iso__"])
        I.fact(z3.Implies(D.canon_datetime(t), D.dt_iso(t) == t))
        return SStr(D.dt_iso(t))

    @model(uuid.UUID, "uuid.UUID(str): ValueError unless the text is one of the accepted spellings (uninterpreted predicate)")
    def _uuid(I, args, kwargs):
        Z = I.Z
        (v,) = args
        if isinstance(v, SV):
            v = I.view(v)
        if not isinstance(v, (str, SStr)):
            I.raise_(TypeError, "UUID needs str")
        t = I.to_str_term(v)
        I.fact(z3.Implies(Domains.get().canon_uuid(t), Z.uuid_ok(t)))
        if not I.branch(Z.uuid_ok(t)):
            I.raise_(ValueError, "badly formed hexadecimal UUID string")
        return SObj(uuid.UUID, {"__text__": SStr(t)})

    try:
        import attr
        import attrs

        def _evolve(I, args, kwargs):
            obj = args[0]
            if not isinstance(obj, SObj):
                raise Unsupported("evolve of non-object")
            new = SObj(obj.cls, dict(obj.fields))
            for k, v in kwargs.items():
                target = k if k in new.fields else ("_" + k if "_" + k in new.fields else None)
                if target is None:
                    I.raise_(TypeError, f"evolve() got an unexpected keyword argument {k}")
                new.fields[target] = v
            return new
        for f in {attr.evolve, attrs.evolve}:
            model(f, "attrs.evolve(obj, **changes): a new instance with the given fields replaced")(_evolve)
    except ImportError:  # pragma: no cover
        pass


_install_third_party()


class _SplitList(SList):
    """result of str.split(sep) on a symbolic string: only element 0 is known"""


# ---- methods of built-in types ---------------------------------------------------------------------------------------

def call_method(I, recv, name, args, kwargs):
    Z = I.Z
    if isinstance(recv, SV):
        recv = I.view(recv)
    # ---- strings
    if isinstance(recv, (str, SStr)):
        if all(isinstance(a, (str, int, tuple)) for a in args) and isinstance(recv, str) and name not in ("format",):
            try:
                r = getattr(recv, name)(*args, **kwargs)
            except Exception as e:
                I.raise_(type(e), str(e))
            if isinstance(r, list):
                return SList(r)
            if isinstance(r, bytes):
                return SObj(bytes, {"__encoded__": recv})
            return r
        t = I.to_str_term(recv)
        if name in ("isalpha", "isdigit", "isalnum", "isupper", "islower", "isidentifier", "isspace") and not args:
            # assumed: a deterministic predicate of the string (uninterpreted); false on the empty string
            p = z3.Function(f"str_{name}", z3.StringSort(), z3.BoolSort())
            I.fact(z3.Not(p(z3.StringVal(""))))
            return SBool(p(t))
        if name == "lower" and not args:
            return SStr(Z.lower(t))
        if name == "upper" and not args:
            return SStr(Z.upper(t))
        if name == "startswith" and len(args) == 1:
            a = args[0]
            alts = a.items if isinstance(a, STuple) else (list(a) if isinstance(a, tuple) else [a])
            return SBool(z3.Or(*[z3.PrefixOf(I.to_str_term(x), t) for x in alts]))
        if name == "endswith" and len(args) == 1:
            a = args[0]
            alts = a.items if isinstance(a, STuple) else (list(a) if isinstance(a, tuple) else [a])
            return SBool(z3.Or(*[z3.SuffixOf(I.to_str_term(x), t) for x in alts]))
        if name == "replace" and len(args) == 2:
            f = z3.Function("str_replace_all", z3.StringSort(), z3.StringSort(), z3.StringSort(), z3.StringSort())
            a0, a1 = I.to_str_term(args[0]), I.to_str_term(args[1])
            res = f(t, a0, a1)
            I.fact(z3.Implies(z3.Not(z3.Contains(t, a0)), res == t))     # assumed: nothing to replace => unchanged
            return SStr(res)
        if name == "format" and isinstance(recv, str) and not args:
            import string as _string
            parts = []
            for lit, field, spec, conv in _string.Formatter().parse(recv):
                parts.append(lit)
                if field is not None:
                    if spec or conv or field not in kwargs:
                        if field not in kwargs and not spec and not conv:
                            I.raise_(KeyError if not field.isdigit() and field != "" else IndexError, field)
                        raise Unsupported("str.format with format spec/conversion")
                    parts.append(I.py_str(kwargs[field]))
            return I.concat(parts)
        if name == "format":
            raise Unsupported("str.format")
        if name == "join" and len(args) == 1:
            parts = []
            for i, x in enumerate(I.iterate(args[0])):
                if i:
                    parts.append(recv)
                parts.append(x)
            return I.concat(parts) if parts else ""
        if name == "split" and len(args) == 1 and isinstance(args[0], str) and len(args[0]) >= 1:
            sep = z3.StringVal(args[0])
            head = z3.Function("str_before_first", z3.StringSort(), z3.StringSort(), z3.StringSort())(t, sep)
            I.fact(z3.Implies(z3.Not(z3.Contains(t, sep)), head == t))
            I.fact(z3.Implies(z3.Contains(t, sep), z3.And(z3.PrefixOf(z3.Concat(head, sep), t), z3.Not(z3.Contains(head, sep)))))
            tail = SOpaque("rest of split")
            lst = SList([SStr(head)])
            lst.items_after_first_unknown = True
            return _SplitList([SStr(head)])
        if name == "encode" and not args:
            return SObj(bytes, {"__encoded__": recv})
        if name in ("strip", "lstrip", "rstrip", "split", "title", "capitalize", "encode"):
            f = z3.Function(f"str_{name}", z3.StringSort(), z3.StringSort())
            if name in ("split", "encode") or args:
                raise Unsupported(f"str.{name}")
            return SStr(f(t))
        raise Unsupported(f"str method {name}")
    if isinstance(recv, SFloat):
        if name == "is_integer" and not args:
            return SBool(z3.And(recv.k == Z.fk["fin"], z3.ToReal(z3.ToInt(recv.r)) == recv.r))
    # ---- lists
    if isinstance(recv, SList) and not isinstance(recv, STuple):
        if name == "append":
            recv.items.append(args[0])
            return None
        if name == "extend":
            recv.items.extend(I.iterate(args[0]))
            return None
        if name == "insert" and isinstance(args[0], int):
            recv.items.insert(args[0], args[1])
            return None
        if name == "pop":
            if not recv.items:
                I.raise_(IndexError, "pop from empty list")
            return recv.items.pop(*[a for a in args if isinstance(a, int)])
        if name == "copy":
            return SList(recv.items)
        # collections.deque is modelled as a list (see the model of the constructor): its two extra methods
        if name == "popleft" and getattr(recv, "is_deque", False):
            if not recv.items:
                I.raise_(IndexError, "pop from an empty deque")
            return recv.items.pop(0)
        if name == "appendleft" and getattr(recv, "is_deque", False):
            recv.items.insert(0, args[0])
            return None
        if name == "extendleft" and getattr(recv, "is_deque", False):
            for x in I.iterate(args[0]):
                recv.items.insert(0, x)
            return None
        if name == "index":
            for i, x in enumerate(recv.items):
                e = I.py_eq(args[0], x)
                if I.branch(e):
                    return i
            I.raise_(ValueError, "not in list")
        if name == "remove":
            for i, x in enumerate(recv.items):
                e = I.py_eq(args[0], x)
                if I.branch(e):
                    del recv.items[i]
                    return None
            I.raise_(ValueError, "list.remove(x): x not in list")
        if name == "sort":
            key = kwargs.get("key")
            ks = [I.call(key, [x], {}) if key else x for x in recv.items]
            if not all(isinstance(k, (str, int, tuple)) for k in ks):
                raise Unsupported("sort with symbolic keys")
            recv.items[:] = [x for _, x in sorted(zip(ks, recv.items), key=lambda p: p[0])]
            return None
        if name == "count":
            raise Unsupported("list.count")
    if isinstance(recv, STuple):
        if name == "index":
            for i, x in enumerate(recv.items):
                if I.branch(I.py_eq(args[0], x)):
                    return i
            I.raise_(ValueError, "not in tuple")
    # ---- dicts
    if isinstance(recv, SDict) and recv.rest is not None and name in ("get", "pop", "setdefault") and args \
            and I.hashable(args[0]) not in recv.items:
        k = I.hashable(args[0])
        if not isinstance(k, str):
            raise Unsupported("non-string key on a dict with symbolic remainder")
        v = z3.Select(recv.rest, z3.StringVal(k))
        if I.branch(Z.rec["absent"](v)):
            if name == "setdefault":
                recv.items[k] = args[1] if len(args) > 1 else None
                return recv.items[k]
            if len(args) > 1:
                return args[1]
            if name == "pop":
                I.raise_(KeyError, k)
            return None
        if name == "pop":
            recv.rest = z3.Store(recv.rest, z3.StringVal(k), Z.con["absent"]())
        out = SV(v)
        for f in recv.rest_maps:
            out = f(out)
        return out
    if isinstance(recv, SDict) and recv.rest is not None and name == "items":
        return SDictItems(recv)
    if isinstance(recv, SDict) and recv.rest is not None and name in ("keys", "values"):
        raise Unsupported("keys()/values() of a dict with symbolic remainder")
    if isinstance(recv, dict) and name == "get" and args and isinstance(args[0], (SV, SStr)) \
            and all(isinstance(k, (str, int, bool)) or k is None for k in recv):
        found, val = I.symbolic_key_lookup(SDict(dict(recv)), args[0])
        return val if found else (args[1] if len(args) > 1 else kwargs.get("default"))
    if isinstance(recv, SDict) and recv.rest is None and name == "get" and args and isinstance(args[0], SV) \
            and all(isinstance(k, (str, int, bool)) or k is None for k in recv.items):
        # a dynamically typed key: python's hashing rules (unhashable containers raise, True == 1, ...)
        found, val = I.symbolic_key_lookup(recv, args[0])
        if found:
            return val
        return args[1] if len(args) > 1 else kwargs.get("default")
    if isinstance(recv, SDict) and recv.rest is None and name in ("get", "pop") and args and isinstance(args[0], (SStr, SV)) \
            and all(isinstance(k, str) for k in recv.items):
        # concrete string keys, symbolic lookup key: case split on equality
        kt = I.to_str_term(args[0]) if isinstance(args[0], SStr) else I.to_str_term(I.view(args[0]))
        for k in list(recv.items):
            if I.branch(kt == z3.StringVal(k)):
                return recv.items.pop(k) if name == "pop" else recv.items[k]
        if len(args) > 1:
            return args[1]
        if name == "pop":
            I.raise_(KeyError, "key")
        return kwargs.get("default")
    if isinstance(recv, SDict):
        if name == "get":
            k = I.hashable(args[0])
            d = args[1] if len(args) > 1 else kwargs.get("default")
            return recv.items.get(k, d)
        if name == "items":
            return SList([STuple([k, v]) for k, v in recv.items.items()])
        if name == "keys":
            return SList(list(recv.items.keys()))
        if name == "values":
            return SList(list(recv.items.values()))
        if name == "setdefault":
            k = I.hashable(args[0])
            if k not in recv.items:
                recv.items[k] = args[1] if len(args) > 1 else None
            return recv.items[k]
        if name == "pop":
            k = I.hashable(args[0])
            if k in recv.items:
                return recv.items.pop(k)
            if len(args) > 1:
                return args[1]
            I.raise_(KeyError, str(k))
        if name == "update":
            if args:
                src = args[0]
                if isinstance(src, SV):
                    src = I.view(src)
                if isinstance(src, SDict):
                    if src.rest is not None:
                        if recv.rest is not None or recv.items:
                            raise Unsupported("merging two dicts with symbolic remainders")
                        recv.rest, recv.rest_maps, recv.rest_dom = src.rest, list(src.rest_maps), src.rest_dom
                    elif recv.rest is not None:
                        for k in src.items:
                            recv.rest = z3.Store(recv.rest, z3.StringVal(k), Z.con["absent"]()) if isinstance(k, str) else recv.rest
                    recv.items.update(src.items)
                else:
                    for p in I.iterate(src):
                        k, v = I.iterate(p)
                        recv.items[I.hashable(k)] = v
            recv.items.update(kwargs)
            return None
        if name == "copy":
            return SDict(recv.items, recv.rest, recv.rest_maps, recv.rest_dom)
    # ---- sets
    if isinstance(recv, SSet):
        if name == "add":
            recv.items.add(I.hashable(args[0]))
            return None
        if name == "update":
            for a in args:
                if isinstance(a, SOpaque) and a.cls is set:
                    recv.__dict__.setdefault("absorbed", []).append(a)     # all elements of a set of unknown content
                    continue
                recv.items.update(I.hashable(x) for x in I.iterate(a))
            return None
        if name == "copy":
            return SSet(recv.items)
        if name == "discard":
            recv.items.discard(I.hashable(args[0]))
            return None
        if name == "remove":
            k = I.hashable(args[0])
            if k not in recv.items:
                I.raise_(KeyError, str(k))
            recv.items.remove(k)
            return None
        if name in ("union", "intersection", "difference", "issubset", "issuperset"):
            other = SSet([I.hashable(x) for x in I.iterate(args[0])])
            r = getattr(recv.items, name)(other.items)
            return SSet(r) if isinstance(r, (set, frozenset)) else r
        if name == "pop":
            if not recv.items:
                I.raise_(KeyError, "pop from an empty set")
            x = _sorted_any(recv.items)[0]
            recv.items.discard(x)
            return x
    if isinstance(recv, (set, frozenset, dict, list, tuple)):
        # constants of the module under verification (never mutated by supported code)
        if name in ("get", "items", "keys", "values", "copy", "union", "index", "issubset"):
            r = getattr(recv, name)(*args, **kwargs)
            if isinstance(r, (set, frozenset)):
                return SSet(r)
            if name in ("items",):
                return SList([STuple(list(p)) for p in r])
            if name in ("keys", "values"):
                return SList(list(r))
            return r
    if isinstance(recv, _Tagged) and recv.tag == "dict":
        if name in ("get", "pop") and args:
            k = I.to_str_term(args[0])
            v = z3.Select(Z.acc["m"](recv.t), k)
            if I.branch(Z.rec["absent"](v)):
                if len(args) > 1:
                    return args[1]
                if name == "pop":
                    I.raise_(KeyError, "key")
                return None
            return SV(v)
    raise Unsupported(f"method {name} of {type(recv).__name__}")
