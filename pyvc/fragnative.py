"""Native (CPython) execution of the schematic packages: used to replay counterexamples of Engine F obligations against
the real generated code, and to enumerate small concrete instances as replay candidates."""
from __future__ import annotations

import importlib
import itertools

_pkgs = {}


def package(kind, version):
    key = (kind, version)
    if key not in _pkgs:
        from . import fragments
        if kind == "models":
            import contracts.models_f as mf
            doc, cases, extra = mf.document(version)
        else:
            import contracts.endpoints_f as ef
            doc = ef.document(version)[0]
        _pkgs[key] = (fragments.generate_package(doc), doc)
    return _pkgs[key]


def instances(schema, comps, depth=0, limit=40):
    """small concrete JSON instances of a schematic schema (canonical forms for formatted strings)"""
    while "$ref" in schema:
        schema = comps[schema["$ref"].rsplit("/", 1)[1]]
    out = []
    if schema.get("nullable"):
        out.append(None)
    if "enum" in schema:
        return out + list(schema["enum"])
    if "const" in schema:
        return out + [schema["const"]]
    if "oneOf" in schema or "anyOf" in schema:
        for m in schema.get("oneOf") or schema.get("anyOf"):
            out.extend(instances(m, comps, depth + 1, limit))
        return out
    if "allOf" in schema and len(schema["allOf"]) == 1 and "properties" not in schema:
        return out + instances(schema["allOf"][0], comps, depth, limit)
    t = schema.get("type")
    if isinstance(t, list):
        for x in t:
            out.extend(instances({**schema, "type": x}, comps, depth + 1, limit))
        return out
    fmt = schema.get("format")
    if t == "string":
        if fmt == "date":
            return out + ["2020-01-02"]
        if fmt == "date-time":
            return out + ["2020-01-02T03:04:05+00:00"]
        if fmt == "uuid":
            return out + ["07ef8b4d-aa09-4ffa-898d-c710796aff41"]
        return out + ["", "s", "2020-01-02"]
    if t == "integer":
        return out + [0, 5]
    if t == "number":
        return out + [0, 1.5]
    if t == "boolean":
        return out + [False, True]
    if t == "null":
        return [None]
    if t == "array":
        items = instances(schema["items"], comps, depth + 1, limit)[:3]
        return out + [[]] + [[i] for i in items] + ([[items[0], items[-1]]] if items else [])
    if t == "object" or "properties" in schema or "allOf" in schema:
        props, req = {}, set()

        def collect(s):
            while "$ref" in s:
                s = comps[s["$ref"].rsplit("/", 1)[1]]
            for sub in s.get("allOf", []):
                collect(sub)
            props.update(s.get("properties", {}))
            req.update(s.get("required", []))
        collect(schema)
        names = list(props)
        choices = []
        for n in names:
            vals = instances(props[n], comps, depth + 1, limit)[: (4 if depth == 0 else 2)]
            opts = [("set", v) for v in vals]
            if n not in req:
                opts.append(("absent", None))
            choices.append(opts)
        res = []
        for combo in itertools.islice(itertools.product(*choices), limit):
            d = {}
            for n, (k, v) in zip(names, combo):
                if k == "set":
                    d[n] = v
            res.append(d)
            ap = schema.get("additionalProperties", True)
            if ap is not False and depth == 0:
                extra = instances(ap, comps, depth + 1, limit)[:1] if isinstance(ap, dict) and ap else ["extra"]
                if extra:
                    e = dict(d)
                    e["zz-undeclared"] = extra[0]
                    res.append(e)
        return out + res
    return out + [None, 1, "s", [1], {"k": 1}]


def roundtrip_violation(version, class_name, src):
    """None if from_dict(src).to_dict() == src and src is unchanged, else a description"""
    import copy
    import json
    from openapi_python_client import utils
    pkg, doc = package("models", version)
    mod = pkg.module("models." + utils.snake_case(class_name))
    cls = getattr(mod, class_name)
    keep = copy.deepcopy(src)
    try:
        out = cls.from_dict(src).to_dict()
    except BaseException as e:  # noqa
        return f"raised {type(e).__name__}: {e}"
    if src != keep:
        return f"from_dict mutated its argument: {src!r}"
    try:
        json.dumps(out)
    except TypeError as e:
        return f"encoded form is not plain JSON: {out!r}"
    if out != keep:
        return f"to_dict(from_dict(src)) == {out!r} != src == {keep!r}"
    return None


def roundtrip_pool(version, class_name):
    import contracts.models_f as mf
    doc, cases, extra = mf.document(version)
    comps = doc["components"]["schemas"]
    return [{"version": version, "class_name": class_name, "src": s} for s in instances(comps[class_name], comps, 0, 60)
            if isinstance(s, dict)]


class _FakeResponse:
    def __init__(self, status_code, content=b"", json_value=None, text=""):
        self.status_code = status_code
        self.content = content
        self.text = text
        self.headers = {}
        self._json = json_value

    def json(self):
        return self._json


class _FakeClient:
    def __init__(self, raise_on_unexpected_status):
        self.raise_on_unexpected_status = raise_on_unexpected_status


def build_response_violation(version, opid, status, raise_flag, content=b"x", entry="_build_response"):
    """None if an undocumented status behaves as C04 says (no parsed value / UnexpectedStatus when configured to raise)"""
    pkg, doc = package("endpoints", version)
    mod = pkg.module(f"api.r.{opid}")
    try:
        r = getattr(mod, entry)(client=_FakeClient(raise_flag), response=_FakeResponse(status, content))
    except BaseException as e:  # noqa
        if raise_flag and type(e).__name__ == "UnexpectedStatus":
            return None
        return f"raised {type(e).__name__}: {e}"
    if raise_flag:
        return f"returned {r!r} although raise_on_unexpected_status is set"
    parsed = r.parsed if entry == "_build_response" else r
    return None if parsed is None else f"parsed value {parsed!r} for an undocumented status"


def from_dict_outcome(version, class_name, src, config=None):
    """'raised <Type>: ...' or the repr of the decoded object (for replaying edge-of-domain obligations)"""
    from openapi_python_client import utils
    pkg, doc = package("models", version)
    cls = getattr(pkg.module("models." + utils.snake_case(class_name)), class_name)
    try:
        return repr(cls.from_dict(src))
    except BaseException as e:  # noqa
        return f"raised {type(e).__name__}: {e}"


def capture_violation(name):
    """None if a model with a property spelled `name` and an operation with a query parameter spelled `name` behave like
    their neutrally named twins (C18); else a description.  Native run of the real generator + generated code."""
    from . import fragments
    comps = {"M": {"type": "object", "required": [name], "properties": {name: {"type": "string", "format": "date"}, "zz-other": {"type": "integer"}}},
             "O": {"type": "object", "properties": {name: {"type": "integer"}, "zz-other": {"type": "string", "format": "date"}}},
             "X": {"type": "object", "properties": {name: {"type": "integer"}}, "additionalProperties": {"type": "string", "format": "date"}},
             "U": {"type": "object", "properties": {"aa-first": {"type": "string", "nullable": True}, name: {"type": "integer"},
                                                    "zz-union": {"oneOf": [{"type": "string", "format": "date"}, {"type": "integer"}]}}},
             "CapBody": {"type": "object", "properties": {"k": {"type": "integer"}}}}
    paths = {"/q": {"post": {"operationId": "capq", "tags": ["b"],
                             "parameters": [{"name": name, "in": "query", "schema": {"type": "string"}},
                                            {"name": name, "in": "header", "schema": {"type": "string"}}],
                             "requestBody": {"content": {"application/json": {"schema": {"$ref": "#/components/schemas/CapBody"}}}},
                             "responses": {"200": {"description": ""}}}}}
    doc = {"openapi": "3.0.3", "info": {"title": "cap", "version": "1"}, "paths": paths, "components": {"schemas": comps}}
    pkg = fragments.generate_package(doc)
    try:
        try:
            M = pkg.module("models.m").M
            O = pkg.module("models.o").O
            X = pkg.module("models.x").X
            U = pkg.module("models.u").U
        except BaseException as e:  # noqa
            return None if pkg.errors else f"models do not import: {type(e).__name__}: {e}"
        for cls, src in ((M, {name: "2020-01-02", "zz-other": 3}), (M, {name: "2020-01-02", "extra": 1}), (O, {name: 5, "zz-other": "2020-01-02"}), (O, {}),
                         (X, {name: 1, "extra": "2020-01-02", "more": "2021-02-03"}), (X, {"extra": "2020-01-02"}),
                         (U, {"aa-first": None, name: 2, "zz-union": "2020-01-02"}), (U, {"aa-first": "s", name: 2, "zz-union": 7})):
            try:
                out = cls.from_dict(dict(src)).to_dict()
            except BaseException as e:  # noqa
                return f"{cls.__name__}.from_dict({src!r}).to_dict() raised {type(e).__name__}: {e}"
            if out != src:
                return f"{cls.__name__}: {src!r} re-encodes as {out!r}"
        try:
            mod = pkg.module("api.b.capq")
        except BaseException as e:  # noqa
            return None if pkg.errors else f"endpoint module does not import: {type(e).__name__}: {e}"
        import inspect
        body = pkg.module("models.cap_body").CapBody.from_dict({"k": 1})
        params = [p for p in inspect.signature(mod._get_kwargs).parameters if p != "body"]
        try:
            kw = mod._get_kwargs(body=body, **{params[0]: "QV", params[1]: "HV"})
        except BaseException as e:  # noqa
            return f"_get_kwargs raised {type(e).__name__}: {e}"
        want = {"method": "post", "url": "/q", "params": {name: "QV"}, "json": {"k": 1},
                "headers": {name: "HV", "Content-Type": "application/json"}}
        return None if kw == want else f"_get_kwargs returned {kw!r}, documented request is {want!r}"
    finally:
        pkg.cleanup()


# ---- native oracles for the endpoint fragments (replay of C03 / C04 / C10 obligations) --------------------------------------

def _kind_samples(kind, mod_pkg):
    import datetime
    import uuid
    if kind == "str":
        return [("s", "s", "s"), ("", "", "")]
    if kind == "nullstr":
        return [("s", "s", "s"), (None, None, None)]
    if kind == "int":
        return [(5, 5, "5"), (0, 0, "0")]
    if kind == "num":
        return [(1.5, 1.5, "1.5"), (0.0, 0.0, "0.0")]
    if kind == "bool":
        return [(True, True, "true"), (False, False, "false")]
    if kind == "date":
        return [(datetime.date(2020, 1, 2), "2020-01-02", "2020-01-02")]
    if kind == "datetime":
        return [(datetime.datetime(2020, 1, 2, 3, 4, 5, tzinfo=datetime.timezone.utc), "2020-01-02T03:04:05+00:00", None)]
    if kind == "uuid":
        u = uuid.UUID("07ef8b4d-aa09-4ffa-898d-c710796aff41")
        return [(u, str(u), str(u))]
    if kind == "enum":
        C = mod_pkg.module("models.color").Color
        return [(m, m.value, m.value) for m in C]
    if kind == "liststr":
        return [(["a", "b"], ["a", "b"], None), ([], [], None)]
    if kind == "listdate":
        return [([datetime.date(2020, 1, 2)], ["2020-01-02"], None), ([], [], None)]
    raise KeyError(kind)


def get_kwargs_violation(version, opid):
    """None if the generated _get_kwargs of the schematic operation returns exactly the documented request for a small
    enumeration of concrete arguments (all combinations of unset / sample values per parameter, each body alternative)"""
    import inspect
    import itertools
    import string
    import contracts.endpoints_f as ef
    pkg, doc = package("endpoints", version)
    _, ops, _ = ef.document(version)
    method, path, params, content = ops[opid]
    tag = "t" if content is None else "b"
    mod = pkg.module(f"api.{tag}.{opid}")
    unset = pkg.module("types").UNSET
    sig = inspect.signature(mod._get_kwargs)
    names = [n for n in sig.parameters if n != "body"]
    by_loc = {"path": [], "query": [], "header": [], "cookie": []}
    for p in params:
        by_loc[p["in"]].append(p)
    order = [seg[1] for seg in string.Formatter().parse(path) if seg[1]]
    by_loc["path"].sort(key=lambda p: order.index(p["name"]))
    ordered = by_loc["path"] + by_loc["query"] + by_loc["header"] + by_loc["cookie"]
    if len(ordered) != len(names):
        return f"_get_kwargs accepts {names}, the document declares {[(p['name'], p['in']) for p in ordered]}"
    choices = []
    for p in ordered:
        kind = ef._kind_of(p["schema"])
        opts = list(_kind_samples(kind, pkg))
        if not p["required"]:
            opts.append((unset, unset, unset))
        choices.append(opts)
    bodies = [None]
    if content is not None:
        bodies = []
        comps = doc["components"]["schemas"]
        from openapi_python_client import utils
        for ctype, mt in content.items():
            schema = mt["schema"]
            if ctype == "application/octet-stream":
                import io
                File = pkg.module("types").File
                payload = io.BytesIO(b"x")
                bodies.append((File(payload=payload), "content", payload, ctype))
            elif "$ref" in schema:
                name = schema["$ref"].rsplit("/", 1)[1]
                cls = getattr(pkg.module("models." + utils.snake_case(name)), name)
                src = [s for s in instances(comps[name], comps, 0, 6) if isinstance(s, dict)][0]
                obj = cls.from_dict(dict(src))
                if ctype == "multipart/form-data":
                    bodies.append((obj, "files", obj.to_multipart(), None))
                elif ctype == "application/x-www-form-urlencoded":
                    bodies.append((obj, "data", src, ctype))
                else:
                    bodies.append((obj, "json", src, ctype))
            elif schema.get("type") == "array":
                name = schema["items"]["$ref"].rsplit("/", 1)[1]
                cls = getattr(pkg.module("models." + utils.snake_case(name)), name)
                src = [s for s in instances(comps[name], comps, 0, 6) if isinstance(s, dict)][0]
                bodies.append(([cls.from_dict(dict(src))], "json", [src], ctype))
            else:
                bodies.append(("text", "json", "text", ctype))
    for combo in itertools.islice(itertools.product(*choices), 600):
        for b in bodies:
            kw = {n: c[0] for n, c in zip(names, combo)}
            exp = {"method": method}
            pathvals = {p["name"]: (c[2] if c[2] is not None else c[0]) for p, c in zip(ordered, combo) if p["in"] == "path"}
            exp["url"] = path
            for k, v in pathvals.items():
                exp["url"] = exp["url"].replace("{" + k + "}", str(v))
            if by_loc["query"]:
                exp["params"] = {p["name"]: c[1] for p, c in zip(ordered, combo) if p["in"] == "query" and c[0] is not unset and c[0] is not None}
            if by_loc["cookie"]:
                exp["cookies"] = {p["name"]: c[0] for p, c in zip(ordered, combo) if p["in"] == "cookie" and c[0] is not unset}
            headers = {p["name"]: c[2] for p, c in zip(ordered, combo) if p["in"] == "header" and c[0] is not unset}
            if b is not None:
                kw["body"] = b[0]
                exp[b[1]] = b[2]
                if b[3] is not None:
                    headers["Content-Type"] = b[3]
            if by_loc["header"] or b is not None:
                exp["headers"] = headers
            try:
                got = mod._get_kwargs(**kw)
            except BaseException as e:  # noqa
                return f"_get_kwargs({kw!r}) raised {type(e).__name__}: {e}"
            if got != exp:
                return f"_get_kwargs({kw!r}) returned {got!r}; the document prescribes {exp!r}"
    return None


def parse_response_violation(version, opid="op_resp"):
    """documented statuses decode per media type, undocumented ones give None / UnexpectedStatus (C04), natively"""
    import contracts.endpoints_f as ef
    pkg, doc = package("endpoints", version)
    _, _, resp = ef.document(version)
    mod = pkg.module(f"api.r.{opid}")
    cases = {200: ({"id": 1}, "json"), 201: ([{"id": 1}, {"id": 2}], "json"), 202: ("hello", "text"), 203: (b"bytes", "bytes"),
             204: (None, "none"), 205: (7, "json"), 400: ("oops", "json"), 404: ({"msg": "m"}, "json"), 418: ({"any": 1}, "json")}
    for entry in ("_parse_response", "_build_response"):
        for code, (body, kind) in cases.items():
            r = _FakeResponse(code, content=b"raw", json_value=body if kind == "json" else None,
                              text=body if kind == "text" else "")
            for flag in (False, True):
                try:
                    out = getattr(mod, entry)(client=_FakeClient(flag), response=r)
                except BaseException as e:  # noqa
                    return f"{entry} raised {type(e).__name__}: {e} for documented status {code}"
                parsed = out.parsed if entry == "_build_response" else out
                if kind == "json":
                    enc = parsed.to_dict() if hasattr(parsed, "to_dict") else ([x.to_dict() for x in parsed] if isinstance(parsed, list) and parsed and hasattr(parsed[0], "to_dict") else parsed)
                    if enc != body:
                        return f"{entry}: status {code} decoded to {parsed!r}, whose encoding {enc!r} is not the body {body!r}"
                elif kind == "text" and parsed != body:
                    return f"{entry}: status {code} (text) gave {parsed!r}"
                elif kind == "none" and parsed is not None:
                    return f"{entry}: status {code} (no content) gave {parsed!r}"
                elif kind == "bytes" and not (hasattr(parsed, "payload") and parsed.payload.read() == b"raw"):
                    return f"{entry}: status {code} (octet-stream) gave {parsed!r}"
        for flag in (False, True):
            for content in (b"x", b"\xff\xfe not utf-8"):
                why = build_response_violation(version, opid, 500, flag, content=content, entry=entry)
                if why:
                    return why
    return None


def derived_violation(pattern, kind, order):
    """None if a model with a property `base` of the schematic kind and an integer sibling spelled like the derived name
    `pattern.format("base")` round-trips every small instance (C18: derived names); else a description.  Native run."""
    import copy
    from . import fragments
    import contracts.models_f as mf
    from openapi_python_client import utils
    base_doc, _, _ = mf.document("3.1.0")
    comps = {k: v for k, v in copy.deepcopy(base_doc["components"]["schemas"]).items()
             if not (k.startswith("M") and k[1:2].isupper() and k != "ModelExtra")}
    sib = pattern.format("base")
    schema = copy.deepcopy(mf.SCALARS[kind])
    props = {"base": schema, sib: {"type": "integer"}} if order == "after" else {sib: {"type": "integer"}, "base": schema}
    comps["Drv"] = {"type": "object", "properties": props}
    doc = {"openapi": "3.1.0", "info": {"title": "drv", "version": "1"}, "paths": {}, "components": {"schemas": comps}}
    pkg = fragments.generate_package(doc)
    try:
        if any("Drv" in (e.header or "") + (e.detail or "") for e in pkg.errors):
            return None             # reported by a diagnostic: allowed
        try:
            cls = pkg.module("models.drv").Drv
        except BaseException as e:  # noqa
            return f"the generated module does not import: {type(e).__name__}: {e}"
        for src in instances(comps["Drv"], comps, 0, 60):
            if not isinstance(src, dict):
                continue
            keep = copy.deepcopy(src)
            try:
                out = cls.from_dict(src).to_dict()
            except BaseException as e:  # noqa
                return f"from_dict/to_dict of {keep!r} raised {type(e).__name__}: {e}"
            if out != keep:
                return f"to_dict(from_dict(src)) == {out!r} != src == {keep!r}"
        return None
    finally:
        pkg.cleanup()
