"""Engine A, part 3: Hoare-style verification of string functions over regular languages.

The body of the real function (AST re-read from /repo on every run) is executed over *languages*: every string
variable holds a regular language (exact image for the supported primitives, stated over-approximations elsewhere),
branch conditions that are regular predicates refine the language of their subject, calls to other functions under
contract use only the callee's triples.  A contract is a list of triples {pre} f {post}; the obligation of a triple is
the language inclusion  result(pre) <= post, decided exactly by automata (all strings, all lengths).

Anything outside the supported subset raises OutOfReach: the obligation is then *undecided*, never passed or failed.
"""
from __future__ import annotations

import ast
import keyword
import re
import sys
from dataclasses import dataclass, field

from . import alphabet as _alpha
from .automata import Lang

try:  # Python 3.11+
    import re._parser as sre_parse
    import re._constants as sre_c
except ImportError:  # pragma: no cover
    import sre_parse
    import sre_constants as sre_c


class OutOfReach(Exception):
    pass


# ---- abstract values ----------------------------------------------------------------------------------------------

@dataclass
class AStr:
    lang: Lang


@dataclass
class AList:
    """[] (if can_empty)  or  [w0, w1, ..., wn] with w0 in first, wi in rest (if can_nonempty)"""
    first: Lang
    rest: Lang
    can_empty: bool
    can_nonempty: bool = True


@dataclass
class ASplit:
    """a list of strings whose concatenation lies in lang (result of re.split with a whole-pattern group)"""
    lang: Lang


@dataclass
class AConst:
    value: object


@dataclass
class AUnk:
    """unknown non-string value (e.g. bool parameter without case split, cls)"""
    what: str = "?"


def as_lang(v) -> Lang:
    if isinstance(v, AStr):
        return v.lang
    if isinstance(v, AConst) and isinstance(v.value, str):
        return Lang.text(v.value)
    raise OutOfReach(f"string expected, got {type(v).__name__}")


def join_vals(a, b):
    if a is None:
        return b
    if b is None:
        return a
    if isinstance(a, AConst) and isinstance(b, AConst) and a.value == b.value and type(a.value) is type(b.value):
        return a
    if isinstance(a, (AStr, AConst)) and isinstance(b, (AStr, AConst)):
        try:
            return AStr(as_lang(a) | as_lang(b))
        except OutOfReach:
            pass
    if isinstance(a, AList) and isinstance(b, AList):
        return AList(a.first | b.first, a.rest | b.rest, a.can_empty or b.can_empty, a.can_nonempty or b.can_nonempty)
    if isinstance(a, ASplit) and isinstance(b, ASplit):
        return ASplit(a.lang | b.lang)
    if isinstance(a, AUnk) and isinstance(b, AUnk):
        return a
    if isinstance(a, AConst) and isinstance(b, AConst) and isinstance(a.value, bool) and isinstance(b.value, bool):
        return AUnk("bool")
    raise OutOfReach(f"cannot join {type(a).__name__} and {type(b).__name__}")


def join_envs(e1, e2):
    if e1 is None:
        return e2
    if e2 is None:
        return e1
    out = {}
    for k in set(e1) | set(e2):
        if k in e1 and k in e2:
            out[k] = join_vals(e1[k], e2[k])
        # a variable bound on one side only is dropped (unbound on the other path)
    return out


# ---- regex character classes ------------------------------------------------------------------------------------------

def _class_set_from_in(items) -> frozenset:
    """classes matched by an sre IN node; requires class-uniformity (ASCII literals/ranges, \\w \\s \\d categories)"""
    A = _alpha.get()
    negate = False
    lits = []
    for op, av in items:
        if op is sre_c.NEGATE:
            negate = True
        elif op is sre_c.LITERAL:
            if av >= 128:
                raise OutOfReach("non-ASCII literal in character class")
            lits.append(("lit", av))
        elif op is sre_c.RANGE:
            lo, hi = av
            if hi >= 128:
                raise OutOfReach("non-ASCII range in character class")
            lits.append(("range", lo, hi))
        elif op is sre_c.CATEGORY:
            lits.append(("cat", av))
        else:
            raise OutOfReach(f"unsupported character class item {op}")

    def match(k):
        p = A.preds[k]
        for it in lits:
            if it[0] == "lit" and k == it[1]:
                return True
            if it[0] == "range" and k < 128 and it[1] <= k <= it[2]:
                return True
            if it[0] == "cat":
                c = it[1]
                if c is sre_c.CATEGORY_WORD and p["word"]:
                    return True
                if c is sre_c.CATEGORY_NOT_WORD and not p["word"]:
                    return True
                if c is sre_c.CATEGORY_DIGIT and p["digit"]:
                    return True
                if c is sre_c.CATEGORY_NOT_DIGIT and not p["digit"]:
                    return True
                if c is sre_c.CATEGORY_SPACE and p["space"]:
                    return True
                if c is sre_c.CATEGORY_NOT_SPACE and not p["space"]:
                    return True
        return False

    s = frozenset(k for k in range(A.n) if match(k))
    if negate:
        s = frozenset(range(A.n)) - s
    return s


def parse_charclass_pattern(pattern: str):
    """Recognise the supported pattern shapes.  Returns (shape, data):
       ('class+', classes)  ('class', classes)  ('group-split', None) for a pattern that is one capturing group
       spanning the whole pattern (used by re.split: the pieces concatenate to the input)."""
    A = _alpha.get()
    try:
        p = sre_parse.parse(pattern)
    except Exception as e:  # pragma: no cover
        raise OutOfReach(f"unparsable pattern {pattern!r}: {e}")
    items = list(p)
    if len(items) == 1:
        op, av = items[0]
        if op is sre_c.MAX_REPEAT:
            lo, hi, sub = av
            sub = list(sub)
            if lo == 1 and hi == sre_c.MAXREPEAT and len(sub) == 1 and sub[0][0] is sre_c.IN:
                cs = _class_set_from_in(sub[0][1])
                _validate_class(pattern, cs, plus=True)
                return ("class+", cs)
        if op is sre_c.IN:
            cs = _class_set_from_in(av)
            return ("class", cs)
        if op is sre_c.LITERAL and av < 128:
            return ("class", frozenset([av]))
        if op is sre_c.SUBPATTERN:
            group, add_flags, del_flags, sub = av
            if group == 1 and p.state.groups == 2:
                return ("group-split", None)
    raise OutOfReach(f"unsupported regex shape {pattern!r}")


def _validate_class(pattern, cs, plus):
    """cross-check our reading of the class against `re` itself on every stored representative"""
    A = _alpha.get()
    rx = re.compile(pattern)
    for k in range(A.n):
        for cp in A.reps[k]:
            m = rx.fullmatch(chr(cp)) is not None
            if m != (k in cs):
                raise OutOfReach(f"character class of {pattern!r} is not class-uniform at U+{cp:04X}")


# ---- vocabulary used by primitives ----------------------------------------------------------------------------------

class Vocab:
    _inst = None

    def __init__(self):
        A = _alpha.get()
        self.A = A
        self.ALLC = frozenset(range(A.n))
        self.UPPER = A.classes_where("upper")
        self.LOWER = A.classes_where("lower")
        self.TITLE = A.classes_where("title")
        self.XID_START = A.classes_where("xid_start")
        self.XID_CONT = A.classes_where("xid_continue")
        self.ALPHA = frozenset(k for k in range(A.n) if chr(A.reps[k][0]).isalpha())
        for k in range(A.n):          # isalpha must be class-uniform to be usable
            for cp in A.reps[k]:
                if chr(cp).isalpha() != (k in self.ALPHA):
                    self.ALPHA = None
        self.SIGMA = Lang.all()
        self.ISIDENT = Lang.sym(self.XID_START) + Lang.over(self.XID_CONT)
        self.KEYWORDS = Lang.texts(keyword.kwlist)
        self.SOFT_KEYWORDS = Lang.texts(getattr(keyword, "softkwlist", []))
        # str.isupper(): no lower/title character and at least one upper character
        no_lt = self.ALLC - self.LOWER - self.TITLE
        self.ISUPPER = Lang.over(no_lt) + Lang.sym(self.UPPER) + Lang.over(no_lt)
        self.ANY_UPPER = self.SIGMA + Lang.sym(self.UPPER) + self.SIGMA

    @classmethod
    def get(cls):
        if cls._inst is None:
            cls._inst = Vocab()
        return cls._inst


def lower_image():
    A = _alpha.get()
    return {k: list(A.lower[k]) for k in range(A.n) if A.lower[k] != ((k,),)}


def upper_image():
    A = _alpha.get()
    return {k: [A.upper[k]] for k in range(A.n) if A.upper[k] != (k,)}


def capitalize_lang(L: Lang) -> Lang:
    """image of L under str.capitalize(): title-case of the first character, lower() of the rest"""
    from .automata import NFA
    A = _alpha.get()
    d = L.dfa
    n = len(d.rows)
    a = NFA()
    for _ in range(2 * n):
        a.new()

    def add_word(src, w, dst):
        if len(w) == 0:
            a.add_eps(src, dst)
            return
        cur = src
        for b in w[:-1]:
            nx = a.new()
            a.add(cur, b, nx)
            cur = nx
        a.add(cur, w[-1], dst)

    for s, row in enumerate(d.rows):
        for sym, t in enumerate(row):
            # CPython applies ToTitleFull to the first code point only and lower() to the remaining input code points
            if s == 0:
                add_word(0, A.title[sym], n + t)
            for alt in A.lower[sym]:
                add_word(n + s, alt, n + t)
    # only the initial state of copy 0 is used; transitions from other copy-0 states are unreachable
    a.inits = {0}
    a.finals = {n + s for s, f in enumerate(d.finals) if f} | ({0} if d.finals[0] else set())
    return Lang(a.determinize())


# ---- contracts ----------------------------------------------------------------------------------------------------

@dataclass
class PList:
    """specification of a list-of-strings result"""
    first: Lang
    rest: Lang
    can_empty: bool = True


@dataclass
class Triple:
    name: str
    pre: dict                     # param -> Lang | AConst-able python constant (bool/None/str)
    post: object                  # Lang | PList
    known: list = field(default_factory=list)     # known-finding ids that this triple is a restriction for
    restricts: str | None = None  # name of the unrestricted triple this one restricts (known-finding machinery)
    prop: list = field(default_factory=list)      # property ids this obligation serves
    native_violates: str | None = None            # python expression over `result` for the replay harness


@dataclass
class StrContract:
    qualname: str                 # "module:func" or "module:Class.method"
    triples: list


class Registry:
    def __init__(self):
        self.contracts = {}

    def add(self, c: StrContract):
        self.contracts[c.qualname] = c

    def get(self, qn):
        return self.contracts.get(qn)


# ---- the interpreter ---------------------------------------------------------------------------------------------

class Interp:
    def __init__(self, module, registry: Registry, source_index, depth=0):
        self.module = module                # the real, imported module object (for constants)
        self.registry = registry
        self.src = source_index             # qualname -> ast.FunctionDef
        self.V = Vocab.get()
        self.calls = []                     # (callee qualname, triple names used)

    # -- helpers
    def const_of(self, node, env):
        """constant-fold an expression to a Python constant, or raise KeyError"""
        if isinstance(node, ast.Constant):
            return node.value
        if isinstance(node, ast.JoinedStr):
            parts = []
            for v in node.values:
                if isinstance(v, ast.Constant):
                    parts.append(v.value)
                elif isinstance(v, ast.FormattedValue) and v.format_spec is None and v.conversion == -1:
                    c = self.const_of(v.value, env)
                    if not isinstance(c, str):
                        raise KeyError
                    parts.append(c)
                else:
                    raise KeyError
            return "".join(parts)
        if isinstance(node, ast.Name):
            if node.id in env:
                v = env[node.id]
                if isinstance(v, AConst):
                    return v.value
                raise KeyError
            if hasattr(self.module, node.id):
                v = getattr(self.module, node.id)
                if isinstance(v, (str, int, bool, frozenset, set, tuple)) or v is None:
                    return v
            raise KeyError
        raise KeyError

    def callee_name(self, func, env):
        """('prim', name) | ('repo', qualname) | ('method', name, receiver_node)"""
        if isinstance(func, ast.Name):
            name = func.id
            obj = getattr(self.module, name, None)
            if obj is None:
                import builtins
                if hasattr(builtins, name):
                    return ("builtin", name)
                raise OutOfReach(f"unknown callee {name}")
            mod = getattr(obj, "__module__", None)
            if mod == "keyword" or name == "iskeyword":
                return ("prim", "iskeyword")
            if mod and mod.startswith("openapi_python_client"):
                qn = f"{mod}:{getattr(obj, '__qualname__', name)}"
                return ("repo", qn)
            return ("prim", f"{mod}.{name}")
        if isinstance(func, ast.Attribute):
            if isinstance(func.value, ast.Name) and func.value.id not in env:
                base = getattr(self.module, func.value.id, None)
                if base is re:
                    return ("prim", "re." + func.attr)
                if base is str or func.value.id == "str":
                    return ("prim", "str." + func.attr)
                if base is not None and getattr(base, "__name__", "").startswith("openapi_python_client"):
                    obj = getattr(base, func.attr)
                    return ("repo", f"{obj.__module__}:{obj.__qualname__}")
            return ("method", func.attr, func.value)
        raise OutOfReach("unsupported callee expression")

    # -- conditions: returns (env_if_true, env_if_false); None = unreachable
    def refine(self, node, env):
        V = self.V
        if isinstance(node, ast.UnaryOp) and isinstance(node.op, ast.Not):
            t, f = self.refine(node.operand, env)
            return f, t
        if isinstance(node, ast.BoolOp):
            if isinstance(node.op, ast.And):
                cur_t = env
                false_join = None
                for v in node.values:
                    if cur_t is None:
                        break
                    t, f = self.refine(v, cur_t)
                    false_join = join_envs(false_join, f)
                    cur_t = t
                return cur_t, false_join
            else:
                cur_f = env
                true_join = None
                for v in node.values:
                    if cur_f is None:
                        break
                    t, f = self.refine(v, cur_f)
                    true_join = join_envs(true_join, t)
                    cur_f = f
                return true_join, cur_f
        # atoms
        subj, P = self.atom(node, env)
        if P is None:
            # not a regular predicate we understand; maybe a constant
            try:
                c = self.const_of(node, env)
                return (env, None) if c else (None, env)
            except KeyError:
                pass
            v = self.eval(node, env)
            if isinstance(v, AConst):
                return (env, None) if v.value else (None, env)
            if isinstance(v, AUnk):
                return env, env
            if isinstance(v, AStr):   # truthiness of a string: non-empty
                subj, P = self._subject(node, env), (V.SIGMA - Lang.eps())
            elif isinstance(v, AList):
                t = env if v.can_nonempty else None
                f = env if v.can_empty else None
                return t, f
            else:
                raise OutOfReach(f"unsupported condition {ast.dump(node)[:80]}")
        name, L = subj
        Lt = L & P
        Lf = L - P
        et = ef = None
        if not Lt.is_empty():
            et = dict(env)
            if name is not None:
                et[name] = AStr(Lt)
        if not Lf.is_empty():
            ef = dict(env)
            if name is not None:
                ef[name] = AStr(Lf)
        return et, ef

    def _subject(self, node, env):
        if isinstance(node, ast.Name) and node.id in env and isinstance(env[node.id], (AStr, AConst)):
            return (node.id, as_lang(env[node.id]))
        return (None, as_lang(self.eval(node, env)))

    def atom(self, node, env):
        """returns ((varname|None, current language), predicate language) or (None, None)"""
        V = self.V
        A = V.A
        if isinstance(node, ast.Call):
            kind = self.callee_name(node.func, env)
            if kind[0] == "method":
                _, meth, recv = kind
                if meth == "isidentifier" and not node.args:
                    return self._subject(recv, env), V.ISIDENT
                if meth == "isupper" and not node.args:
                    return self._subject(recv, env), V.ISUPPER
                if meth == "isalpha" and not node.args and V.ALPHA is not None:
                    return self._subject(recv, env), Lang.sym(V.ALPHA).plus()
                if meth in ("startswith", "endswith") and len(node.args) == 1:
                    try:
                        c = self.const_of(node.args[0], env)
                    except KeyError:
                        return None, None
                    if isinstance(c, str):
                        P = (Lang.text(c) + V.SIGMA) if meth == "startswith" else (V.SIGMA + Lang.text(c))
                        return self._subject(recv, env), P
                    if isinstance(c, tuple) and all(isinstance(x, str) for x in c):
                        alt = Lang.texts(c)
                        P = (alt + V.SIGMA) if meth == "startswith" else (V.SIGMA + alt)
                        return self._subject(recv, env), P
                return None, None
            if kind == ("prim", "iskeyword") and len(node.args) == 1:
                return self._subject(node.args[0], env), V.KEYWORDS
            if kind == ("builtin", "any") and len(node.args) == 1 and isinstance(node.args[0], ast.GeneratorExp):
                g = node.args[0]
                if len(g.generators) == 1 and not g.generators[0].ifs and isinstance(g.generators[0].target, ast.Name):
                    cv = g.generators[0].target.id
                    e = g.elt
                    # any(c.<pred>() for c in X)
                    if isinstance(e, ast.Call) and isinstance(e.func, ast.Attribute) and isinstance(e.func.value, ast.Name) \
                            and e.func.value.id == cv and not e.args:
                        pn = {"isupper": "upper", "islower": "lower", "isspace": "str_space", "isdecimal": "decimal"}.get(e.func.attr)
                        if pn:
                            cs = A.classes_where(pn)
                            return self._subject(g.generators[0].iter, env), V.SIGMA + Lang.sym(cs) + V.SIGMA
            return None, None
        if isinstance(node, ast.Compare) and len(node.ops) == 1:
            op = node.ops[0]
            left, right = node.left, node.comparators[0]
            if isinstance(op, (ast.In, ast.NotIn)):
                try:
                    c = self.const_of(right, env)
                except KeyError:
                    return None, None
                if isinstance(c, (set, frozenset, tuple, list)) and all(isinstance(x, str) for x in c):
                    if any(ord(ch) >= 128 for x in c for ch in x):
                        raise OutOfReach("membership in a set with non-ASCII words")
                    P = Lang.texts(sorted(c))
                    return self._subject(left, env), (P if isinstance(op, ast.In) else ~P)
                if isinstance(c, str):      # substring test
                    try:
                        lc = self.const_of(left, env)
                        if isinstance(lc, str):
                            P = V.SIGMA + Lang.text(lc) + V.SIGMA
                            # subject is the right side, a constant: decide directly
                            return (None, Lang.text(c)), (P if isinstance(op, ast.In) else ~P)
                    except KeyError:
                        pass
                return None, None
            if isinstance(op, (ast.Eq, ast.NotEq)):
                for a, b in ((left, right), (right, left)):
                    try:
                        c = self.const_of(b, env)
                    except KeyError:
                        continue
                    if isinstance(c, str):
                        P = Lang.text(c)
                        return self._subject(a, env), (P if isinstance(op, ast.Eq) else ~P)
                return None, None
        return None, None

    # -- expressions
    def eval(self, node, env):
        V = self.V
        A = V.A
        try:
            c = self.const_of(node, env)
            return AConst(c)
        except KeyError:
            pass
        if isinstance(node, ast.Name):
            if node.id in env:
                return env[node.id]
            raise OutOfReach(f"unbound name {node.id}")
        if isinstance(node, ast.JoinedStr):
            out = Lang.eps()
            for v in node.values:
                if isinstance(v, ast.Constant):
                    out = out + Lang.text(v.value)
                elif isinstance(v, ast.FormattedValue) and v.format_spec is None and v.conversion == -1:
                    out = out + as_lang(self.eval(v.value, env))
                else:
                    raise OutOfReach("format spec / conversion in f-string")
            return AStr(out)
        if isinstance(node, ast.BinOp) and isinstance(node.op, ast.Add):
            return AStr(as_lang(self.eval(node.left, env)) + as_lang(self.eval(node.right, env)))
        if isinstance(node, ast.IfExp):
            et, ef = self.refine(node.test, env)
            vt = self.eval(node.body, et) if et is not None else None
            vf = self.eval(node.orelse, ef) if ef is not None else None
            return join_vals(vt, vf)
        if isinstance(node, (ast.GeneratorExp, ast.ListComp)):
            return self.eval_map(node, env)
        if isinstance(node, ast.Subscript):
            base = self.eval(node.value, env)
            if isinstance(base, (AStr, AConst)) and isinstance(node.slice, ast.Constant) and node.slice.value == 0:
                L = as_lang(base)
                # first character of a non-empty string: first symbols of L
                first = L.prefixes() & Lang.sym(V.ALLC)
                return AStr(first)
            raise OutOfReach("unsupported subscript")
        if isinstance(node, ast.Call):
            return self.eval_call(node, env)
        raise OutOfReach(f"unsupported expression {type(node).__name__}")

    def eval_map(self, node, env):
        if len(node.generators) != 1:
            raise OutOfReach("nested comprehension")
        g = node.generators[0]
        if not isinstance(g.target, ast.Name):
            raise OutOfReach("comprehension target")
        src = self.eval(g.iter, env)
        if not isinstance(src, AList):
            raise OutOfReach("comprehension over non-list")
        name = g.target.id

        def one(L):
            e = dict(env)
            e[name] = AStr(L)
            if L.is_empty():
                return Lang.empty(), False
            for cond in g.ifs:
                e, _ = self.refine(cond, e)
                if e is None:
                    return Lang.empty(), True
            return as_lang(self.eval(node.elt, e)), bool(g.ifs)
        f, filt = one(src.first)
        r, _ = one(src.rest)
        if filt:
            # with a filter the first surviving element may be any element
            return AList(f | r, r | f, True, src.can_nonempty)
        return AList(f, r, src.can_empty, src.can_nonempty)

    def eval_call(self, node, env):
        V = self.V
        A = V.A
        kind = self.callee_name(node.func, env)
        if node.keywords and kind[0] != "repo":
            raise OutOfReach("keyword arguments to a primitive")
        if kind[0] == "prim":
            name = kind[1]
            if name == "re.sub" and len(node.args) == 3:
                pat = self._const_str(node.args[0], env)
                repl = self._const_str(node.args[1], env)
                L = as_lang(self.eval(node.args[2], env))
                shape, cs = parse_charclass_pattern(pat)
                if shape in ("class+", "class") and repl == "":
                    return AStr(L.delete(cs))
                if shape == "class":
                    return AStr(L.subst({c: [A.word(repl)] for c in cs}))
                raise OutOfReach(f"re.sub shape {shape} with replacement {repl!r}")
            if name == "re.split" and len(node.args) == 2:
                pat = self._const_str(node.args[0], env)
                L = as_lang(self.eval(node.args[1], env))
                shape, cs = parse_charclass_pattern(pat)
                if shape == "group-split":
                    return ASplit(L)
                F = L.factors()
                return AList(F, F, False, True)
            if name == "re.findall" and len(node.args) == 2:
                pat = self._const_str(node.args[0], env)
                L = as_lang(self.eval(node.args[1], env))
                shape, cs = parse_charclass_pattern(pat)
                if shape != "class+":
                    raise OutOfReach("re.findall with a pattern other than [class]+")
                nc = V.ALLC - cs
                NCs = Lang.over(nc)
                Cp = Lang.sym(cs).plus()
                rest = L.factors() & Cp
                first = L.lquot(NCs).rquot(Lang.eps() | (Lang.sym(nc) + V.SIGMA)) & Cp
                return AList(first, rest, not (L & NCs).is_empty(), not (L - NCs).is_empty())
            if name == "str.__new__" and len(node.args) == 2:
                return self.eval(node.args[1], env)
            raise OutOfReach(f"unsupported primitive {name}")
        if kind[0] == "builtin":
            if kind[1] == "str" and len(node.args) == 1:
                v = self.eval(node.args[0], env)
                if isinstance(v, (AStr,)):
                    return v
                if isinstance(v, AConst) and isinstance(v.value, (str, int)) and not isinstance(v.value, bool):
                    return AConst(str(v.value))
            if kind[1] == "cast" and len(node.args) == 2:
                return self.eval(node.args[1], env)
            raise OutOfReach(f"unsupported builtin {kind[1]}")
        if kind[0] == "method":
            _, meth, recv = kind
            # sep.join(xs)
            if meth == "join" and len(node.args) == 1:
                sep = self._const_str(recv, env)
                xs = self.eval(node.args[0], env)
                sepw = A.word(sep)
                if isinstance(xs, ASplit):
                    return AStr(_insert_word(xs.lang, sepw))
                if isinstance(xs, AList):
                    out = Lang.empty()
                    if xs.can_empty:
                        out = out | Lang.eps()
                    if xs.can_nonempty:
                        out = out | (xs.first + (Lang.word(sepw) + xs.rest).star())
                    return AStr(out)
                raise OutOfReach("join over unsupported value")
            r = self.eval(recv, env)
            L = as_lang(r)
            if meth == "lower" and not node.args:
                return AStr(L.subst(lower_image()))
            if meth == "upper" and not node.args:
                return AStr(L.subst(upper_image()))
            if meth == "capitalize" and not node.args:
                return AStr(capitalize_lang(L))
            if meth == "replace" and len(node.args) == 2:
                a = self._const_str(node.args[0], env)
                b = self._const_str(node.args[1], env)
                if len(a) == 1 and ord(a) < 128:
                    return AStr(L.subst({ord(a): [A.word(b)]}))
                raise OutOfReach("str.replace of a multi-character or non-ASCII pattern")
            if meth in ("strip", "lstrip", "rstrip") and not node.args:
                sp = A.classes_where("str_space")
                S = Lang.over(sp)
                nonsp = V.ALLC - sp
                out = L
                if meth in ("strip", "lstrip"):
                    out = out.lquot(S) & (Lang.eps() | (Lang.sym(nonsp) + V.SIGMA))
                if meth in ("strip", "rstrip"):
                    out = out.rquot(S) & (Lang.eps() | (V.SIGMA + Lang.sym(nonsp)))
                return AStr(out)
            raise OutOfReach(f"unsupported str method {meth}")
        if kind[0] == "repo":
            return self.call_contract(kind[1], node, env)
        raise OutOfReach("unsupported call")

    def _const_str(self, node, env):
        try:
            c = self.const_of(node, env)
        except KeyError:
            raise OutOfReach("non-constant where a constant string is required")
        if not isinstance(c, str):
            raise OutOfReach("non-string constant")
        return c

    def call_contract(self, qn, node, env):
        # class call -> __new__
        c = self.registry.get(qn) or self.registry.get(qn + ".__new__")
        if c is None:
            raise OutOfReach(f"callee {qn} has no contract")
        fn = self.src.get(c.qualname)
        if fn is None:
            raise OutOfReach(f"callee source {c.qualname} not found")
        params = [a.arg for a in fn.args.args]
        if params and params[0] in ("cls", "self"):
            params = params[1:]
        defaults = fn.args.defaults
        argvals = {}
        for i, a in enumerate(node.args):
            argvals[params[i]] = self.eval(a, env)
        for kw in node.keywords:
            argvals[kw.arg] = self.eval(kw.value, env)
        # defaults
        nd = len(defaults)
        for i, d in enumerate(defaults):
            p = [a.arg for a in fn.args.args][len(fn.args.args) - nd + i]
            if p not in argvals and isinstance(d, ast.Constant):
                argvals[p] = AConst(d.value)
        used = []
        result = None
        for t in c.triples:
            ok = True
            for p, req in t.pre.items():
                if p not in argvals:
                    ok = False
                    break
                v = argvals[p]
                if isinstance(req, Lang):
                    try:
                        if not (as_lang(v) <= req):
                            ok = False
                    except OutOfReach:
                        ok = False
                else:
                    if not (isinstance(v, AConst) and v.value == req and type(v.value) is type(req)):
                        ok = False
                if not ok:
                    break
            if not ok:
                continue
            used.append(t.name)
            result = _meet_post(result, t.post)
        if result is None:
            raise OutOfReach(f"no triple of {c.qualname} applies at the call site (caller obligation not dischargeable)")
        self.calls.append((c.qualname, tuple(used)))
        if isinstance(result, PList):
            return AList(result.first, result.rest, result.can_empty, True)
        return AStr(result)

    # -- statements: returns (env_after | None, returned value | None)
    def exec_block(self, stmts, env):
        ret = None
        for st in stmts:
            if env is None:
                break
            env, r = self.exec_stmt(st, env)
            ret = join_vals(ret, r)
        return env, ret

    def exec_stmt(self, st, env):
        if isinstance(st, ast.Expr):
            if isinstance(st.value, ast.Constant):
                return env, None      # docstring
            self.eval(st.value, env)
            return env, None
        if isinstance(st, ast.Assign):
            if len(st.targets) != 1 or not isinstance(st.targets[0], ast.Name):
                raise OutOfReach("assignment target")
            v = self.eval(st.value, env)
            env = dict(env)
            env[st.targets[0].id] = v
            return env, None
        if isinstance(st, ast.AnnAssign) and isinstance(st.target, ast.Name) and st.value is not None:
            v = self.eval(st.value, env)
            env = dict(env)
            env[st.target.id] = v
            return env, None
        if isinstance(st, ast.Return):
            if st.value is None:
                return None, AConst(None)
            return None, self.eval(st.value, env)
        if isinstance(st, ast.If):
            et, ef = self.refine(st.test, env)
            rt = rf = None
            if et is not None:
                et, rt = self.exec_block(st.body, et)
            if ef is not None:
                ef, rf = self.exec_block(st.orelse, ef)
            return join_envs(et, ef), join_vals(rt, rf)
        if isinstance(st, ast.Pass):
            return env, None
        raise OutOfReach(f"unsupported statement {type(st).__name__}")

    def run(self, fn: ast.FunctionDef, env):
        env, ret = self.exec_block(fn.body, env)
        if env is not None:
            ret = join_vals(ret, AConst(None))
        return ret


def _insert_word(L: Lang, w) -> Lang:
    if len(w) == 1:
        return L.insert([w[0]])
    if len(w) == 0:
        return L
    from .automata import NFA
    d = L.dfa
    a = d.to_nfa()
    for s in range(len(d.rows)):
        cur = s
        for b in w[:-1]:
            nx = a.new()
            a.add(cur, b, nx)
            cur = nx
        a.add(cur, w[-1], s)
    return Lang(a.determinize())


def _meet_post(cur, post):
    if cur is None:
        return post
    if isinstance(cur, Lang) and isinstance(post, Lang):
        return cur & post
    if isinstance(cur, PList) and isinstance(post, PList):
        return PList(cur.first & post.first, cur.rest & post.rest, cur.can_empty and post.can_empty)
    raise OutOfReach("incompatible posts")


def leq_post(val, post):
    """result value below the specified post?  returns (ok, witness description | None)"""
    if isinstance(post, Lang):
        L = as_lang(val)
        bad = L - post
        if bad.is_empty():
            return True, None
        return False, ("result", bad)
    if isinstance(post, PList):
        if not isinstance(val, AList):
            raise OutOfReach("list result expected")
        if val.can_nonempty:
            bad = val.first - post.first
            if not bad.is_empty():
                return False, ("first element", bad)
            bad = val.rest - post.rest
            if not bad.is_empty():
                return False, ("later element", bad)
        if val.can_empty and not post.can_empty:
            return False, ("empty list", Lang.eps())
        return True, None
    raise OutOfReach("unsupported post")
