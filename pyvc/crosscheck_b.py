"""CPython cross-check of Engine B (symbolic executor + library models) on concrete inputs.

For a real function f and a concrete argument a:   natively  r = f(a)   (value or exception);   symbolically the engine
explores f on the constant term of a -- it still forks wherever an assumed library function is asked (float("1.5")
parses? is uninterpreted) -- and pyvc.natinterp evaluates every branch condition with the REAL library functions.
Exactly the natively consistent paths must exist, and their outcome must equal r; every ground fact a library model
asserted on the way must be true natively.  A disagreement means the engine (or a library model) is unsound: exit 3."""
from __future__ import annotations

import importlib

import z3

from .natinterp import CannotEval, NatEval, py_to_jv
from .symexec import Interp, SBool, SDict, SFloat, SFunc, SInt, SList, SObj, SStr, STuple, SV, Unsupported


def lift(I, v):
    if v is None or isinstance(v, (bool, int, str)):
        return v
    if isinstance(v, float):
        return I.float_const(v)
    if isinstance(v, list):
        return SList([lift(I, x) for x in v])
    if isinstance(v, tuple):
        return STuple([lift(I, x) for x in v])
    if isinstance(v, dict):
        return SDict({k: lift(I, x) for k, x in v.items()})
    raise Unsupported(f"lift {type(v).__name__}")


def summarise_native(r):
    kind, v = r
    if kind == "raise":
        return ("raise", type(v).__name__)
    return ("return", _sum_native(v))


def _sum_native(v):
    n = type(v).__name__
    if n == "Value":
        return ("Value", str(v.python_code), _jv_or(v.raw_value))
    if n in ("PropertyError", "ParseError"):
        return (n,)
    if isinstance(v, dict) and not all(isinstance(k, str) for k in v):
        return ("dict", sorted((str(k), _jv_or(x)) for k, x in v.items()))
    return _jv_or(v)


def _jv_or(v):
    try:
        return py_to_jv(v)
    except CannotEval:
        return ("object", type(v).__name__)


def summarise_engine(I, N, out):
    kind, v = out
    if kind == "raise":
        return ("raise", v.cls.__name__)
    return ("return", _sum_engine(I, N, v))


def _sum_engine(I, N, v):
    if isinstance(v, SObj):
        n = v.cls.__name__
        if n == "Value":
            return ("Value", N.ev(I.to_str_term(v.fields["python_code"])), N.ev(I.to_jv(v.fields["raw_value"])))
        if n in ("PropertyError", "ParseError"):
            return (n,)
        return ("object", n)
    t = N.ev(I.to_jv(v))
    if t[0] == "val":
        return ("Value", t[1], t[2])
    return t


def check_call(make_target, arg, stats, label):
    """make_target() -> (native callable, engine callable builder (I) -> SFunc); arg: a JSON-like python value"""
    native_fn, engine_fn = make_target()
    import math
    if isinstance(arg, float) and arg == 0 and math.copysign(1, arg) < 0:
        # stated abstraction of Engine B: floats are extended reals + NaN, the sign of zero is not modelled
        stats["skipped_negative_zero"] = stats.get("skipped_negative_zero", 0) + 1
        return
    try:
        native = ("return", native_fn(arg))
    except BaseException as e:  # noqa
        native = ("raise", e)
    want = summarise_native(native)
    I = Interp(timeout_ms=10000)
    holder = {}

    def run(I2):
        a = SV(I2.to_jv(lift(I2, arg)))
        holder["arg"] = a
        return ("return", I2.call(engine_fn(I2), [a], {}))
    consistent = []
    try:
        for path, out in I.explore(run):
            N = NatEval()
            I.path = path
            ok = True
            for c in path.pc:
                try:
                    if not N.ev(c):
                        ok = False
                        break
                except CannotEval as e:
                    stats["conditions_not_evaluable"] += 1
                    stats.setdefault("not_evaluable_examples", set()).add(str(e)[:60])
                    ok = None
                    break
            if ok is False:
                continue
            # library facts asserted on this (consistent or undetermined) path
            for f in path.facts:
                try:
                    if not N.ev(f):
                        stats["false_facts"] += 1
                        stats.setdefault("first_false_fact", f"{label} arg={arg!r}: {str(f)[:300]}")
                    else:
                        stats["facts_checked"] += 1
                except CannotEval:
                    stats["facts_not_evaluable"] += 1
            if ok is None:
                stats["paths_undetermined"] += 1
                continue
            try:
                consistent.append(summarise_engine(I, N, out))
            except CannotEval as e:
                stats["results_not_evaluable"] += 1
                consistent.append(None)
    except Unsupported as e:
        stats["out_of_reach"] += 1
        stats.setdefault("out_of_reach_examples", set()).add(str(e)[:60])
        return
    stats["runs"] += 1
    got = [c for c in consistent if c is not None]
    if len(consistent) != 1:
        if not consistent and stats["paths_undetermined"]:
            return
        stats["disagreements"] += 1
        stats.setdefault("all", []).append(f"{label} arg={arg!r}: {len(consistent)} paths")
        stats.setdefault("first", f"{label} arg={arg!r}: {len(consistent)} natively consistent paths (expected 1): {consistent[:3]!r}")
        return
    if got and not _same(got[0], want):
        stats["disagreements"] += 1
        stats.setdefault("all", []).append(f"{label} arg={arg!r}: engine {got[0]!r} vs CPython {want!r}")
        stats.setdefault("first", f"{label} arg={arg!r}: engine {got[0]!r} vs CPython {want!r}")


def _same(a, b):
    if isinstance(a, tuple) and isinstance(b, tuple) and a and b and a[0] == "flt" and b[0] == "flt":
        return a[1] == b[1] and (a[1] != "fin" or a[2] == b[2])
    if isinstance(a, (tuple, list)) and isinstance(b, (tuple, list)):
        return len(a) == len(b) and all(_same(x, y) for x, y in zip(a, b))
    return a == b


def new_stats():
    return {"runs": 0, "disagreements": 0, "facts_checked": 0, "false_facts": 0, "facts_not_evaluable": 0,
            "conditions_not_evaluable": 0, "paths_undetermined": 0, "results_not_evaluable": 0, "out_of_reach": 0}


SCALAR_KINDS = ["int.IntProperty", "float.FloatProperty", "boolean.BooleanProperty", "string.StringProperty",
                "date.DateProperty", "datetime.DateTimeProperty", "uuid.UuidProperty", "none.NoneProperty",
                "any.AnyProperty", "file.FileProperty"]


def convert_value_crosscheck(pool, kinds=SCALAR_KINDS):
    stats = new_stats()
    for k in kinds:
        mod, cls = k.split(".")
        C = getattr(importlib.import_module(f"openapi_python_client.parser.properties.{mod}"), cls)

        def make(C=C):
            return C.convert_value, (lambda I: SFunc("pyfunc", C.convert_value.__func__, self_val=C, name="convert_value"))
        for v in pool:
            check_call(make, v, stats, f"{cls}.convert_value")
    for key in ("not_evaluable_examples", "out_of_reach_examples"):
        if key in stats:
            stats[key] = sorted(stats[key])[:8]
    return stats


def models_crosscheck(version="3.1.0", per_class=3, classes=None):
    """generated from_dict/to_dict of the schematic models on concrete wire objects: engine vs CPython"""
    from . import fragnative
    from openapi_python_client import utils
    import contracts.models_f as mf
    stats = new_stats()
    pkg, doc = fragnative.package("models", version)
    comps = doc["components"]["schemas"]
    for class_name, schema in comps.items():
        if classes is not None and class_name not in classes:
            continue
        if not ("properties" in schema or "allOf" in schema or schema.get("type") == "object"):
            continue
        try:
            mod = pkg.module("models." + utils.snake_case(class_name))
        except Exception:
            continue
        cls = getattr(mod, class_name, None)
        if cls is None:
            continue
        pool = [s for s in fragnative.instances(schema, comps, 0, 60) if isinstance(s, dict)]
        step = max(1, len(pool) // per_class)
        for src in pool[::step][:per_class]:
            import copy
            try:
                native = ("return", cls.from_dict(copy.deepcopy(src)).to_dict())
            except BaseException as e:  # noqa
                native = ("raise", e)
            want = summarise_native(native)
            I = Interp(timeout_ms=10000)

            def run(I2, src=src, cls=cls):
                obj = I2.call(I2.get_attr(cls, "from_dict"), [lift(I2, src)], {})
                return ("return", I2.call(I2.get_attr(obj, "to_dict"), [], {}))
            _judge(I, run, want, stats, f"{class_name}.from_dict/to_dict[{version}]", src)
    for key in ("not_evaluable_examples", "out_of_reach_examples"):
        if key in stats:
            stats[key] = sorted(stats[key])[:8]
    return stats


def _judge(I, run, want, stats, label, arg):
    consistent = []
    undet = 0
    try:
        for path, out in I.explore(run):
            N = NatEval()
            I.path = path
            ok = True
            for c in path.pc:
                try:
                    if not N.ev(c):
                        ok = False
                        break
                except CannotEval as e:
                    stats["conditions_not_evaluable"] += 1
                    stats.setdefault("not_evaluable_examples", set()).add(str(e)[:60])
                    ok = None
                    break
            if ok is False:
                continue
            for f in path.facts:
                try:
                    if not N.ev(f):
                        stats["false_facts"] += 1
                        stats.setdefault("first_false_fact", f"{label} arg={arg!r}: {str(f)[:300]}")
                    else:
                        stats["facts_checked"] += 1
                except CannotEval:
                    stats["facts_not_evaluable"] += 1
            if ok is None:
                undet += 1
                stats["paths_undetermined"] += 1
                continue
            try:
                consistent.append(summarise_engine(I, N, out))
            except CannotEval as e:
                stats["results_not_evaluable"] += 1
                stats.setdefault("not_evaluable_examples", set()).add(str(e)[:60])
                consistent.append(None)
    except Unsupported as e:
        stats["out_of_reach"] += 1
        stats.setdefault("out_of_reach_examples", set()).add(str(e)[:60])
        return
    stats["runs"] += 1
    if len(consistent) != 1:
        if undet:
            return
        stats["disagreements"] += 1
        stats.setdefault("all", []).append(f"{label} arg={arg!r}: {len(consistent)} natively consistent paths")
        stats.setdefault("first", f"{label} arg={arg!r}: {len(consistent)} natively consistent paths (expected 1): {consistent[:3]!r}")
        return
    if consistent[0] is not None and not _same(consistent[0], want):
        stats["disagreements"] += 1
        stats.setdefault("all", []).append(f"{label} arg={arg!r}: engine {consistent[0]!r} vs CPython {want!r}")
        stats.setdefault("first", f"{label} arg={arg!r}: engine {consistent[0]!r} vs CPython {want!r}")
