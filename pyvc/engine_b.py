"""Engine B driver: function contracts (pre / post clauses / allowed exceptions) discharged per path with z3.

A contract case builds symbolic arguments, the real function body is executed by pyvc.symexec on every feasible
path, and for every path every post clause is checked for validity:  pc /\\ facts /\\ not clause  must be unsat.
`sat` yields a z3 model (the verifier's counterexample); the native search then looks for a concrete input (model
value first, then a pool of boundary values of the same JSON type) for which the REAL function violates the clause's
native form.  `unknown` is undecided.
"""
from __future__ import annotations

import json
import os
import time
import traceback
from dataclasses import dataclass, field

import z3

from . import source
from .core import Obligation, PROVED, REFUTED, UNDECIDED, ERROR
from .symexec import (CyclicValue, Interp, LoopInvariantFailure, PyRaise, SBool, SDict, SFloat, SInt, SList, SObj, SOpaque, SSet, SStr,
                      STuple, SV, Sorts, Unsupported, _Tagged)


@dataclass
class Clause:
    name: str
    fn: object                   # (ctx) -> z3 Bool | bool ; ctx has .I .inputs .outcome .kind ('return'|'raise') .value
    native: str | None = None    # python expression: True when the clause is VIOLATED natively (names: result, exc, args, kwargs)
    statement: str = ""
    known: list = field(default_factory=list)    # finding ids whose classes are excluded by `restrict`
    restrict: object = None      # (ctx) -> z3 Bool : extra pre-condition of the restricted form
    props: list = field(default_factory=list)
    any_outcome: bool = False    # also evaluated when the function raises an allowed exception (ctx.kind == 'raise')


@dataclass
class Case:
    name: str
    make: object                 # (I) -> (callable_target, args, kwargs, inputs: dict name -> symbolic value)
    clauses: list
    pre: object = None           # (ctx_inputs, I) -> z3 Bool : assumed about the inputs
    raises: tuple = ()           # exception classes allowed to escape
    pool: object = None          # () -> list of concrete kwargs dicts to try natively
    native_target: str | None = None   # "module:qualname" for replay, with optional setup
    native_setup: str | None = None
    props: list = field(default_factory=list)


@dataclass
class FnContract:
    qualname: str
    cases: list
    note: str = ""


class Refuted(Exception):
    """raised by a case builder when the unit under contract visibly contradicts the contract before any symbolic
    execution (e.g. a generated function does not accept a documented parameter)"""


class Ctx:
    def __init__(self, I, inputs, kind, value, path):
        self.I, self.inputs, self.kind, self.value, self.path = I, inputs, kind, value, path
        self.Z = I.Z

    # helpers for clauses -----------------------------------------------------------------------------------------------
    def returned(self):
        return self.kind == "return"

    def is_none(self):
        if self.kind != "return":
            return False
        v = self.value
        if v is None:
            return True
        if isinstance(v, SV):
            return self.Z.rec["none"](v.t)
        return False

    def is_instance(self, cls):
        if self.kind != "return":
            return False
        v = self.value
        if isinstance(v, SObj):
            return issubclass(v.cls, cls)
        if isinstance(v, SV) and cls.__name__ == "Value":
            return self.Z.rec["val"](v.t)
        return False

    def field(self, name):
        v = self.value
        if isinstance(v, SObj):
            return v.fields[name]
        if isinstance(v, SV):
            acc = {"python_code": "code", "raw_value": "raw"}[name]
            t = self.Z.acc[acc](v.t)
            return SStr(t) if acc == "code" else SV(t)
        raise KeyError(name)


def jv_to_py(Z, mv, depth=0):
    """python value of a JV model value"""
    name = mv.decl().name()
    if name == "none":
        return None
    if name == "bool":
        return z3.is_true(mv.arg(0))
    if name == "int":
        return mv.arg(0).as_long()
    if name == "flt":
        k = mv.arg(0).decl().name()
        if k == "fin":
            r = mv.arg(1)
            try:
                return float(r.numerator_as_long()) / float(r.denominator_as_long())
            except Exception:
                return 0.0
        return {"pinf": float("inf"), "ninf": float("-inf"), "nan": float("nan")}[k]
    if name == "str":
        return mv.arg(0).as_string() if hasattr(mv.arg(0), "as_string") else str(mv.arg(0))
    if name == "list":
        return ["<list>"]
    if name == "dict":
        return {"<dict>": 1}
    if name == "val":
        return {"$Value": [str(mv.arg(0)), "<raw>"]}
    return f"<{name}>"


JSON_POOL = [
    None, True, False, 0, 1, -1, 2, 10 ** 400, 1.0, 1.5, -0.0, float("inf"), float("-inf"), float("nan"), 1e308,
    1e-18, 2.5e-16, 0.12345678901234568, 123456789.12345679, 5e-324, "1e-18", 2 ** 53 + 1, -(2 ** 63),
    "", "a", "1", "4", "1.5", "-3", "inf", "-inf", "nan", "Infinity", "1e400", " 7 ", "1_0", "true", "True", "TRUE", "false",
    "None", "none", 'a"b', "a\\", "a\nb", "a'b", "{x}", "2020-01-01", "2020-01-01T00:00:00Z", "20200101", "2020-W01",
    "07EF8B4D-AA09-4FFA-898D-C710796AFF41", "07ef8b4d-aa09-4ffa-898d-c710796aff41", "{07ef8b4d-aa09-4ffa-898d-c710796aff41}",
    "\n7ef8b4daa094ffa898dc710796aff41", "urn:uuid:07ef8b4d-aa09-4ffa-898d-c710796aff41", "07ef8b4daa094ffa898dc710796aff4'",
    [], [1], ["a"], {}, {"a": 1},
    # numerals python parses but that are not valid literals / not what they look like when written out
    "007", "+5", "00", "\u0663", "\uff15", "1_000", "0x10", "1e3", "١٢", ".5", "5.", "1E2", "+1.5", "١.٥",
]


def _py_spec(v):
    """JSON-able encoding of a python value for a replay spec"""
    if isinstance(v, float) and (v != v or v in (float("inf"), float("-inf"))):
        return {"$py": f"float({str(v)!r})"}
    if isinstance(v, int) and not isinstance(v, bool) and abs(v) > 2 ** 63:
        return {"$py": f"int({str(v)!r})"}
    if isinstance(v, list):
        return [_py_spec(x) for x in v]
    if isinstance(v, dict):
        return {k: _py_spec(x) for k, x in v.items()}
    return v


class EngineB:
    def __init__(self, rep, seed=0, timeout_ms=10000):
        self.rep = rep
        self.seed = seed
        self.timeout_ms = timeout_ms
        self.contracts = {}

    def check_case(self, c: FnContract, case: Case, prop_id: str, kf=None):
        """returns list of Obligations (one per clause, plus the 'raises' clause)"""
        from . import symexec as _sx
        before = dict(_sx.SECOND)
        try:
            return self._check_case(c, case, prop_id, kf)
        finally:
            d = self.rep.extra.setdefault("second_backend_cvc5", {"rechecked": 0, "agree": 0, "unknown": 0, "unsupported": 0,
                                                                   "disagree": 0, "time_ms": 0})
            for k in d:
                d[k] += _sx.SECOND[k] - before[k]
            if _sx.SECOND["disagree"] > before["disagree"]:
                import shutil
                from .core import VERIF
                dest = os.path.join(VERIF, "replays", prop_id)
                os.makedirs(dest, exist_ok=True)
                for pth in _sx.SECOND_FILES:
                    try:
                        shutil.move(pth, os.path.join(dest, os.path.basename(pth)))
                    except OSError:
                        pass
                _sx.SECOND_FILES.clear()
                self.rep.crosscheck["disagreements"] += _sx.SECOND["disagree"] - before["disagree"]
                self.rep.crosscheck.setdefault("first", {"unit": c.qualname, "triple": case.name, "input": "z3: unsat, cvc5: sat",
                                                         "got": f"query saved under replays/{prop_id}/"})

    def _check_case(self, c: FnContract, case: Case, prop_id: str, kf=None):
        t0 = time.time()
        Z = Sorts.get()
        modname, fname = c.qualname.split(":")
        import_failure = None
        try:
            msrc, fn = source.func(c.qualname)
        except Exception as e:  # noqa
            if not modname.startswith("pyvcfrag_"):
                raise
            # a module generated by the real generator for a schematic document does not import: the unit under contract
            # does not exist, every clause about it is false
            import_failure = f"the generated module {modname.split('.', 1)[-1]} does not import: {type(e).__name__}: {e}"
            msrc, fn = None, None
        if modname.startswith("pyvcfrag_"):
            fname = modname.split(".")[-1] + "." + fname
        base_id = f"{prop_id}.B.{fname}.{case.name}"
        obs = {}
        clause_list = list(case.clauses)
        raises_clause = Clause("no-exception-escapes", None, native="exc is not None and not isinstance(exc, ALLOWED)",
                               statement=f"no exception other than {[e.__name__ for e in case.raises]} escapes")
        for cl in clause_list + [raises_clause]:
            ob = Obligation(id=f"{base_id}.{cl.name}", props=list(cl.props or case.props or [prop_id]), unit=c.qualname,
                            backend="z3", formula=cl.statement or cl.name)
            obs[cl.name] = ob
            if import_failure:
                ob.status = PROVED if cl is raises_clause else REFUTED
                ob.detail = import_failure[:600] if cl is not raises_clause else "not applicable: see sibling obligation"
            elif fn is None:
                ob.status = UNDECIDED
                ob.detail = f"function {c.qualname} not found in the current tree"
            else:
                ob.where = msrc.where(fn)
                ob.src_hash = msrc.func_hash(fn)
        if fn is None:
            return list(obs.values())
        self.rep.fuc(c.qualname, msrc.where(fn), msrc.func_hash(fn))
        I = Interp(timeout_ms=self.timeout_ms, contracts=self.contracts)
        I.tier = "quick" if self.timeout_ms <= 10000 else "thorough"
        state = {}
        npaths = 0
        failures = {cl.name: [] for cl in clause_list + [raises_clause]}
        unknowns = {cl.name: [] for cl in clause_list + [raises_clause]}
        inputs_holder = {}

        def run(I):
            target, args, kwargs, inputs = case.make(I)
            inputs_holder["inputs"] = inputs
            if case.pre is not None:
                p = case.pre(inputs, I)
                if p is not True:
                    I.assume(p)
            return ("return", I.call(target, args, kwargs))

        try:
            for path, out in I.explore(run):
                npaths += 1
                kind, value = out
                inputs = inputs_holder["inputs"]
                ctx = Ctx(I, inputs, kind, value, path)
                I.path = path
                # the path must be feasible at its end (pre-condition may have been contradicted late)
                r, _ = I._check([])
                if r == z3.unsat:
                    npaths -= 1
                    continue
                if kind == "raise":
                    if not any(issubclass(value.cls, e) for e in case.raises):
                        model = self._model(I, [], inputs)
                        failures[raises_clause.name].append((f"{value.cls.__name__} escapes: {I.py_str(value)}", model, path))
                    if any(issubclass(value.cls, e) for e in case.raises):
                        for cl in clause_list:
                            if not cl.any_outcome:
                                continue
                            f = cl.fn(ctx)
                            if f is True:
                                continue
                            neg = z3.BoolVal(True) if f is False else z3.Not(f)
                            r, s = I._check([neg])
                            if r == z3.sat:
                                failures[cl.name].append((f"clause false on a path raising {value.cls.__name__}; model "
                                                          f"{self._model_from(s.model(), inputs, Z)}", None, path))
                            elif r == z3.unknown:
                                unknowns[cl.name].append("solver returned unknown on a raising path")
                    continue     # other post clauses speak about normal returns
                for cl in clause_list:
                    try:
                        f = cl.fn(ctx)
                    except Unsupported as e:
                        unknowns[cl.name].append(f"clause not evaluable: {e}")
                        continue
                    except PyRaise as e:
                        # an element function re-executed on the generic element raises: some in-domain element makes the
                        # code under contract raise
                        failures[cl.name].append((f"{e.value.cls.__name__} is raised for some in-domain element of a "
                                                  f"sequence / mapping (generic-element re-execution)", None, path))
                        continue
                    except (RecursionError, CyclicValue):
                        # a result that contains itself (cyclic structure) cannot satisfy a clause over finite values
                        failures[cl.name].append(("the result is a cyclic structure (clause evaluation diverged)", None, path))
                        continue
                    if f is True:
                        continue
                    neg = z3.BoolVal(True) if f is False else z3.Not(f)
                    r, s = I._check([neg])
                    if r == z3.unsat:
                        continue
                    if r == z3.unknown:
                        unknowns[cl.name].append(f"solver returned unknown on a path ({s.reason_unknown()})")
                        continue
                    model = self._model_from(s.model(), inputs, Z)
                    failures[cl.name].append((f"clause false on a feasible path; model {model}", model, path))
        except LoopInvariantFailure as e:
            # one named obligation carries the failure; the clauses that rest on the invariant are not decided
            lo = Obligation(id=f"{base_id}.loop-invariant", props=list(case.props or [prop_id]), unit=c.qualname, backend="z3",
                            formula="the inductive loop invariant(s) and ghost obligations of the contract hold on entry and "
                                    "are preserved by every iteration")
            lo.where, lo.src_hash = msrc.where(fn), msrc.func_hash(fn)
            lo.status = REFUTED if "counterexample" in str(e) else UNDECIDED
            lo.detail = f"loop invariant obligation failed: {e}"
            for name, ob in obs.items():
                ob.status = UNDECIDED
                ob.detail = "not decided: rests on the loop-invariant obligation of this case, which failed"
            return list(obs.values()) + [lo]
        except Refuted as e:
            for name, ob in obs.items():
                if name == "no-exception-escapes":
                    ob.status = PROVED
                    ob.detail = "not applicable: the unit contradicts the contract before execution (see sibling obligation)"
                else:
                    ob.status = REFUTED
                    ob.detail = str(e)
            return list(obs.values())
        except Unsupported as e:
            for name, ob in obs.items():
                if failures.get(name):
                    # a clause that is false on a feasible path explored BEFORE the engine gave up is refuted all the same
                    ob.status = REFUTED
                    ob.detail = (f"{len(failures[name])} of the {npaths} paths explored fail (exploration abandoned: {e}): "
                                 + "; ".join(x[0] for x in failures[name][:3]))
                    ob._models = [x[1] for x in failures[name]]    # type: ignore[attr-defined]
                else:
                    ob.status = UNDECIDED
                    ob.detail = f"out of reach: {e}"
                ob.time_s = (time.time() - t0) / max(1, len(obs))
            return list(obs.values())
        except RecursionError as e:
            for ob in obs.values():
                ob.status = ERROR
                ob.detail = f"engine error: {e}"
            return list(obs.values())
        dt = time.time() - t0
        if npaths == 0:
            for ob in obs.values():
                ob.status = UNDECIDED
                ob.detail = "no feasible path (vacuous pre-condition?)"
            return list(obs.values())
        for cl in clause_list + [raises_clause]:
            ob = obs[cl.name]
            ob.time_s = dt / len(obs)
            if failures[cl.name]:
                ob.status = REFUTED
                ob.detail = f"{len(failures[cl.name])} of {npaths} paths fail: " + "; ".join(x[0] for x in failures[cl.name][:3])
                ob._models = [x[1] for x in failures[cl.name]]    # type: ignore[attr-defined]
            elif unknowns[cl.name]:
                ob.status = UNDECIDED
                ob.detail = "; ".join(unknowns[cl.name][:2])
            else:
                ob.status = PROVED
                ob.detail = f"valid on all {npaths} feasible paths ({I.queries} solver queries)"
                if I.loop_obligations:
                    ob.detail += f"; {len(I.loop_obligations)} loop-invariant obligations (entry / preservation) discharged"
        self.rep.extra.setdefault("paths_explored", 0)
        self.rep.extra["paths_explored"] += npaths
        for qn, (where, h) in I.inlined.items():
            if qn != c.qualname and qn not in self.rep.functions:
                self.rep.functions[qn] = {"where": where, "hash": h, "how": "real source interpreted inside the proof of a caller"}
        if I.loop_obligations:
            lo = Obligation(id=f"{base_id}.loop-invariant", props=list(case.props or [prop_id]), unit=c.qualname, backend="z3",
                            formula="the inductive loop invariant(s) and ghost obligations of the contract hold on entry and "
                                    "are preserved by every iteration")
            lo.where, lo.src_hash = msrc.where(fn), msrc.func_hash(fn)
            lo.status = PROVED
            lo.time_s = 0.0
            lo.detail = f"{len(I.loop_obligations)} verification conditions (entry / preservation / ghost) valid over all paths"
            return list(obs.values()) + [lo]
        return list(obs.values())

    def _model(self, I, extra, inputs):
        r, s = I._check(extra)
        if r != z3.sat:
            return None
        return self._model_from(s.model(), inputs, I.Z)

    def _model_from(self, m, inputs, Z):
        out = {}
        for name, v in inputs.items():
            try:
                if isinstance(v, SV):
                    out[name] = jv_to_py(Z, m.eval(v.t, model_completion=True))
                elif isinstance(v, SBool):
                    out[name] = z3.is_true(m.eval(v.t, model_completion=True))
                elif isinstance(v, SInt):
                    out[name] = m.eval(v.t, model_completion=True).as_long()
                elif isinstance(v, SStr):
                    out[name] = m.eval(v.t, model_completion=True).as_string()
                elif isinstance(v, (bool, int, str)) or v is None:
                    out[name] = v
            except Exception:
                out[name] = "<?>"
        return out

    # ---- native witness search ----------------------------------------------------------------------------------------
    def find_input(self, c: FnContract, case: Case, cl: Clause, ob: Obligation, restricted_pred=None, budget=400):
        """try the model values, then the pool, against the real function; returns a replay spec or None"""
        from .core import run_native
        target = case.native_target or c.qualname
        cands = []
        if case.native_target is None or not case.native_target.startswith("pyvc."):
            for m in getattr(ob, "_models", []) or []:
                if m:
                    cands.append(m)
        if case.pool is not None:
            cands.extend(case.pool())
        seen = set()
        specs = []
        for kw in cands:
            key = repr(kw)
            if key in seen:
                continue
            seen.add(key)
            if restricted_pred is not None and not restricted_pred(kw):
                continue
            specs.append(kw)
        if not specs:
            return None
        native = cl.native
        if native is None:
            return None
        allowed = "(" + ",".join(e.__name__ for e in case.raises) + ("," if case.raises else "") + ")"
        native = native.replace("ALLOWED", allowed)
        # one subprocess tries all candidates
        script = (
            "import json\n"
            "from pyvc.replay import _decode, HELPERS\n"
            "import importlib\n"
            f"SETUP = {case.native_setup!r}\n"
            f"TARGET = {target!r}\n"
            f"CANDS = _decode(json.loads({json.dumps(json.dumps([_py_spec(s) for s in specs[:budget]]))}))\n"
            f"EXPR = {native!r}\n"
            "ns = dict(HELPERS)\n"
            "if SETUP: exec(SETUP, ns)\n"
            "mod, path = TARGET.split(':')\n"
            "obj = ns.get('TARGET_OBJ')\n"
            "if obj is None:\n"
            "    obj = importlib.import_module(mod)\n"
            "    for p in path.split('.'): obj = getattr(obj, p)\n"
            "VIOLATES = False; OBSERVED = 'no candidate violates'; FOUND = None\n"
            "for i, kw in enumerate(CANDS):\n"
            "    result = exc = None\n"
            "    try:\n"
            "        result = obj(**kw)\n"
            "    except BaseException as e:\n"
            "        exc = e\n"
            "    ns.update(result=result, exc=exc, kwargs=kw, args=[])\n"
            "    try:\n"
            "        bad = bool(eval(EXPR, ns))\n"
            "    except BaseException as e:\n"
            "        bad = False\n"
            "    if bad:\n"
            "        VIOLATES = True; FOUND = i\n"
            "        OBSERVED = f'index={i} kwargs={kw!r} -> ' + (f'result={result!r}' if exc is None else f'raised {type(exc).__name__}: {exc}')\n"
            "        break\n"
        )
        res = run_native({"kind": "script", "code": script})
        if res.get("violates"):
            obs = res.get("observed", "")
            try:
                idx = int(obs.split("index=")[1].split(" ")[0])
            except Exception:
                idx = 0
            kw = specs[idx]
            spec = {"kind": "call", "qualname": target, "args": [], "kwargs": _py_spec(kw), "violates": native}
            if case.native_setup:
                spec["setup"] = case.native_setup
            return spec
        return None


def discharge(rep, kf, contracts, prop_id, tier="quick", seed=0, summaries=None):
    """Check all cases of the given FnContracts whose props include prop_id; known-finding handling per clause."""
    from .core import run_native
    E = EngineB(rep, seed, timeout_ms=10000 if tier == "quick" else 60000)
    from . import symexec as _sx
    if not getattr(_sx, "_second_budget_set", False):
        # per process: how many `unsat` answers are re-decided by cvc5 (all of them in the thorough tier, up to a cap)
        _sx.SECOND["budget"] = int(os.environ.get("PYVC_CVC5_MAX", "40" if tier == "quick" else "5000"))
        _sx._second_budget_set = True
    if summaries:
        E.contracts.update(summaries)
    printed = set(f for f, _ in rep.known_lines)
    for c in contracts:
        for case in c.cases:
            if prop_id not in (case.props or [prop_id]):
                continue
            obs = E.check_case(c, case, prop_id, kf)
            by_name = {cl.name: cl for cl in case.clauses}
            for ob in obs:
                rep.add(ob)
                if ob.status == UNDECIDED and case.pool is not None:
                    # out of the engine's reach on this tree (typically: a changed body uses a construct outside the subset).  A
                    # clause that has a native form is then tried on the concrete pool against the REAL function: a violating
                    # input is a refutation with a replayable witness (sound); no violating input leaves it undecided.
                    clname = ob.id.rsplit(".", 1)[1]
                    cl0 = by_name.get(clname)
                    if cl0 is None and clname == "no-exception-escapes":
                        cl0 = Clause("no-exception-escapes", None,
                                     native="(exc is not None and not isinstance(exc, ALLOWED)) or "
                                            "(isinstance(result, str) and result.startswith('raised '))")
                    if cl0 is not None and cl0.native and not cl0.known:
                        w = E.find_input(c, case, cl0, ob)
                        if w is not None:
                            ob.status = REFUTED
                            ob.witness = w
                            ob.detail = f"decided natively on the concrete pool (the engine: {ob.detail[:160]})"
                    continue
                if ob.status != REFUTED:
                    continue
                clname = ob.id.rsplit(".", 1)[1]
                if clname == "loop-invariant":
                    continue            # reported as it is: no input to search for (the verifier's reason is attached)
                cl = by_name.get(clname)
                if cl is None:
                    # the raises clause
                    cl = Clause("no-exception-escapes", None,
                                native="(exc is not None and not isinstance(exc, ALLOWED)) or "
                                       "(isinstance(result, str) and result.startswith('raised '))")
                    kn = getattr(case, "raises_known", None)
                    if kn:
                        cl.known, cl.restrict = kn
                handled = False
                if cl.known and cl.restrict is not None:
                    entries = [kf.get(fid) for fid in cl.known]
                    if all(e is not None for e in entries):
                        live = [e for e in entries if run_native(e["replay"]).get("violates")]
                        if len(live) == len(entries):
                            # restricted form: same case with the extra pre-condition
                            rcase = Case(case.name, case.make, [cl] if cl.fn is not None else [], pre=_conj(case.pre, cl.restrict),
                                         raises=case.raises, pool=case.pool, native_target=case.native_target,
                                         native_setup=case.native_setup, props=case.props)
                            robs = E.check_case(c, rcase, prop_id, kf)
                            rob = next(o for o in robs if o.id.endswith("." + cl.name))
                            rob.id = rob.id + "[" + ",".join(cl.known) + "]"
                            rob.restricted = True
                            rob.findings = list(cl.known)
                            rob.unrestricted_of = ob.id
                            rep.add(rob)
                            if rob.status == PROVED:
                                ob.findings = list(cl.known)
                                for e in live:
                                    if e["id"] not in printed:
                                        printed.add(e["id"])
                                        rep.known_lines.append((e["id"], e["what"]))
                                handled = True
                            elif rob.status == REFUTED:
                                rob.findings = []
                                ob.findings = list(cl.known)
                                rob.witness = E.find_input(c, case, cl, rob,
                                                           restricted_pred=getattr(cl, "restrict_native", None))
                                handled = True
                            else:
                                ob.findings = list(cl.known)   # undecided restricted form decides (exit 2)
                                handled = True
                if not handled:
                    ob.witness = E.find_input(c, case, cl, ob)
    return E


def _conj(pre, extra):
    def f(inputs, I):
        a = pre(inputs, I) if pre is not None else True
        b = extra(inputs, I)
        if a is True:
            return b
        if b is True:
            return a
        return z3.And(a, b)
    return f
